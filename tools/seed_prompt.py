#!/usr/bin/env python3
"""seed_prompt.py <Cnn> [suffix] -> prints the prompt for a seeded-defect sub-agent and creates its worktree."""
import json, subprocess, sys
pid = sys.argv[1]; suffix = sys.argv[2] if len(sys.argv) > 2 else "a"
wt = "/tmp/seed-%s%s" % (pid, suffix)
p = [json.loads(l) for l in open("/verif/properties.jsonl") if json.loads(l)["id"] == pid][0]
subprocess.run(["git", "-C", "/repo", "worktree", "add", "--detach", wt, "HEAD"], check=True, capture_output=True)
t = open("/verif/tools/prompts/seed.md").read()
open(wt + "/INSTRUCTIONS.md", "w").write(t.replace("{WT}", wt).replace("{TITLE}", p["title"]).replace("{STATEMENT}", p["statement"]).replace("{QUANT}", p["quantifier"]["text"]).replace("{ID}", pid))
print("Read the file %s/INSTRUCTIONS.md and carry out the task it describes exactly. It is self-contained." % wt)
