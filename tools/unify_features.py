import subprocess,re,sys,os,json
os.chdir('/verif/harness')
layers=['vf-core','vf-df','vf-walk','vf-files','vf-list','vf-res','vf-live','vf-hist','vf-cat','vf-mixed','vf-tree','vf-join','vf-agg','vf-plow','vf-chan','vf-fn','vf-expr','vf-prune','vf-win','vf-dynf','vf-exec','vf-common']
def ft(c):
    out=subprocess.run(['cargo','tree','--offline','-p',c,'-e','normal,build','--prefix','none','-f','{p}|{f}'],capture_output=True,text=True)
    if out.returncode!=0: print(out.stderr[-2000:]); sys.exit(1)
    d={}
    for l in out.stdout.splitlines():
        l=l.replace(' (*)','')
        if '|' not in l: continue
        p,f=l.split('|',1)
        d[p]=set(x for x in f.split(',') if x)
    return d
meta=json.loads(subprocess.run(['cargo','metadata','--offline','--format-version','1'],capture_output=True,text=True).stdout)
pk={}
for p in meta['packages']:
    pk[(p['name'],p['version'])]=p
for it in range(6):
    res={L:ft(L) for L in layers}
    union={}
    for L in layers:
        for p,f in res[L].items():
            union.setdefault(p,set()).update(f)
    total=0
    for L in layers:
        t=open(f'crates/{L}/Cargo.toml').read()
        base=t.split('# --- feature unification (generated) ---')[0]
        gen=[]
        existing=dict(re.findall(r'^(u_\w+) = (.*)$', t, re.M))
        for p,f in sorted(res[L].items()):
            if p.startswith('vf-'): continue
            if union[p]!=f:
                total+=1
        # regenerate: for every package in this layer whose union has features, pin them all
        for p,f in sorted(res[L].items()):
            if p.startswith('vf-'): continue
            u=union[p]
            if u==f and not any(k for k in existing if False): pass
            name,ver=p.split(' ')[0],p.split(' ')[1].lstrip('v')
            if u!=f or ('u_'+re.sub(r'[^a-z0-9]','_',name)+'_'+re.sub(r'[^0-9]','_',ver)) in existing:
                info=pk[(name,ver)]
                declared=set(info['features'].keys())
                fs=sorted(x for x in u if x!='default' and x in declared)
                key='u_'+re.sub(r'[^a-z0-9]','_',name)+'_'+re.sub(r'[^0-9]','_',ver)
                df='true' if 'default' in u else 'false'
                src = f'path = "{os.path.dirname(info["manifest_path"])}"' if info['source'] is None else f'version = "={ver}"'
                gen.append(f'{key} = {{ package = "{name}", {src}, default-features = {df}, features = [{", ".join(chr(34)+x+chr(34) for x in fs)}] }}')
        new=base.rstrip('\n')+'\n# --- feature unification (generated) ---\n'+'\n'.join(gen)+'\n'
        open(f'crates/{L}/Cargo.toml','w').write(new)
    print('iteration',it,'differing entries',total)
    if total==0: break
