#!/usr/bin/env python3
"""Regenerates the findings table at the end of /verif/TRIAGE.md from known_findings.json (status open|fixed)."""
import json, os, re
ROOT = os.path.dirname(os.path.dirname(os.path.abspath(__file__)))
kf = json.load(open(os.path.join(ROOT, "known_findings.json")))["findings"]
head = open(os.path.join(ROOT, "TRIAGE.md")).read().split("<!-- GENERATED TABLE -->")[0]
rows = []
for f in sorted(kf, key=lambda f: (f["property"], f.get("status", ""), f["signature"])):
    what = re.sub(r"\s+", " ", f.get("what", ""))[:260]
    st = f.get("status", "open")
    extra = (" commit " + f["commit"][:10]) if f.get("commit") else ""
    rows.append("| %s | `%s` | %s%s | %s | %s |" % (f["property"], f["signature"], st, extra, f.get("audit", ""), what))
out = head + "<!-- GENERATED TABLE -->\n\n## All recorded findings (generated from known_findings.json)\n\n| id | signature | status | audit | what fails |\n|----|-----------|--------|-------|------------|\n" + "\n".join(rows) + "\n"
open(os.path.join(ROOT, "TRIAGE.md"), "w").write(out)
print(len(rows), "findings;", sum(1 for f in kf if f.get("status") == "fixed"), "fixed")
