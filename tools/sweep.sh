#!/bin/bash
# sweep.sh <logfile> <parallel> <seeds...> -- runs tools/pin.sh for every property in checks.json with the given seeds
log=$1; par=$2; shift 2
props=$(python3 -c "import json;print(' '.join(sorted(json.load(open('/verif/checks.json')))))")
: > $log
for s in "$@"; do for p in $props; do echo "$s $p"; done; done | xargs -P $par -L 1 bash -c '/verif/tools/pin.sh $0 $1 2>&1 | tail -1' >> $log
echo SWEEP-DONE >> $log
