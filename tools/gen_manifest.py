#!/usr/bin/env python3
"""Regenerates /verif/MANIFEST.json from checks.json (+ per-property texts in tools/manifest_meta.json).
Properties absent from checks.json are listed under not_applicable with the reason from the meta file
(default: not built / not pinned yet — see DESIGN.md)."""
import json, os, subprocess

ROOT = os.path.dirname(os.path.dirname(os.path.abspath(__file__)))
checks = json.load(open(os.path.join(ROOT, "checks.json")))
meta = json.load(open(os.path.join(ROOT, "tools", "manifest_meta.json")))
props = [json.loads(l) for l in open(os.path.join(ROOT, "properties.jsonl"))]
# only properties the orchestrator has pinned itself are claimed (one id per line)
claimed = set(l.strip() for l in open(os.path.join(ROOT, "claimed.txt")) if l.strip() and not l.startswith("#"))
checks = {k: v for k, v in checks.items() if k in claimed}

try:
    hooks = subprocess.run(["git", "-C", "/repo", "log", "--format=%H %s"], capture_output=True, text=True).stdout.splitlines()
    hook_commits = [l.split()[0] for l in hooks if " verif hook " in " " + l]
except Exception:
    hook_commits = []
hook_commits.reverse()

ENGINES = {
    "proptest-runner": "vf-kit::engine — proptest 1.11 as a library: fixed seeds from VERIF_SEED, sharded TestRunners, shrinking to a JSON replay file, label histograms, panic capture, watchdog",
    "proptest-runner+scheduler": "the same runner driving vf-kit::sched, a baton scheduler that owns the interleaving of actor threads through the cfg(datafusion_verif) sync shims (schedules are generated, shrinkable inputs)",
    "proptest-runner+libfuzzer": "the same runner, plus cargo-fuzz/libFuzzer targets (thorough tier) embedding the same oracle",
}

out = {
    "version": 1,
    "setup_cmd": "./check --setup",
    "hooks": {
        "guard": "cfg(datafusion_verif)",
        "enable": "RUSTFLAGS --cfg datafusion_verif, set for every harness build in /verif/harness/.cargo/config.toml",
        "baseline_off_cmd": "cd /repo && cargo nextest run --workspace --no-fail-fast --tool-config-file pb:/w/lib/nextest.toml --profile pb --test-threads 8 --offline || cargo test --workspace --no-fail-fast --offline",
        "source_commits": hook_commits,
        "add_only": True,
    },
    "engines": [],
    "checks": [],
    "notes": meta.get("_notes", ""),
    "not_applicable": [],
}
used_engines = {}
for p in props:
    pid = p["id"]
    m = meta.get(pid, {})
    if pid in checks:
        eng = m.get("engine", "proptest-runner")
        used_engines.setdefault(eng, []).append(pid)
        level = checks[pid].get("level", "exploration")
        out["checks"].append({
            "property_id": pid,
            "quick_cmd": "./check %s quick" % pid,
            "thorough_cmd": "./check %s thorough" % pid,
            "evidence_file": "/verif/evidence/%s.json" % pid,
            "replay_cmd_template": "./check %s --replay {path}" % pid,
            "engine": eng,
            "level_claimed": {
                "category": level,
                "text": m.get("text", "generated-input search against an explicit oracle; see DESIGN.md"),
                "design_ref": "DESIGN.md §5 " + pid,
            },
            "level_note": m.get("note", "trusts the harness oracle described in DESIGN.md §5 " + pid),
            "technique": m.get("technique", "property-based testing (proptest)"),
        })
    else:
        out["not_applicable"].append({
            "property_id": pid,
            "reason": m.get("na_reason", "check not built/pinned yet in this session (planned in DESIGN.md §5 %s); not claimed until it runs clean on the unchanged tree" % pid),
        })
for e, pids in used_engines.items():
    out["engines"].append({"name": e, "path": "/verif/harness", "serves_properties": pids, "kind_free_text": ENGINES.get(e, e)})
json.dump(out, open(os.path.join(ROOT, "MANIFEST.json"), "w"), indent=1)
print("MANIFEST.json: %d checks, %d not_applicable" % (len(out["checks"]), len(out["not_applicable"])))
