#!/bin/bash
# pin.sh <seed> <Cnn>...  — run quick checks using each crate's private build dir; print one line per property
seed=$1; shift
for p in "$@"; do
  crate=$(python3 -c "import json;print(json.load(open('/verif/checks.json'))['$p']['parts'][0][0])")
  ncrates=$(python3 -c "import json;print(len(set(c for c,_ in json.load(open('/verif/checks.json'))['$p']['parts'])))")
  unset CARGO_TARGET_DIR
  t0=$(date +%s)
  out=$(cd /verif && VERIF_SEED=$seed ./check $p quick 2>&1); code=$?
  t1=$(date +%s)
  nkf=$(echo "$out" | grep -c '^KNOWN-FINDING')
  echo "$p seed=$seed exit=$code wall=$((t1-t0))s known_findings=$nkf $(echo "$out" | grep -E 'VIOLATION|UNHEALTHY|VACUOUS|WATCHDOG|HARNESS-ERROR|BUILD-FAILED' | head -2 | tr '\n' ' ')"
done
