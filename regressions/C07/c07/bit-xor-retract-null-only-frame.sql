-- rows i=3 and i=4: the sliding frame holds only a NULL, `sliding` must be NULL (as `whole` and sliding_sum are) but is 0
create table t as select * from (values (1, cast(null as int)), (2, 0), (3, cast(null as int)), (4, cast(null as int))) as v(i, x);
select i, x, bit_xor(x) over (order by i rows between current row and current row) as sliding, bit_xor(x) over (partition by i) as whole from t order by i;
select i, x, sum(x) over (order by i rows between current row and current row) as sliding_sum from t order by i;
