-- datafusion-cli -f this-file : every SELECT below panics with "single argument to update_batch" (left: 2, right: 1)
set datafusion.execution.target_partitions = 1;
create table t as select i % 3 as g, i % 7 as x, cast(i % 5 as double) as f, 100 - i as y from generate_series(1, 20) as s(i);
select g, avg(f order by y) from t group by g;
select g, count(x order by y) from t group by g;
select g, count(distinct x order by y) from t group by g;
select g, bit_and(x order by y) from t group by g;
select g, var_pop(f order by y) from t group by g;
select g, stddev(f order by y) from t group by g;
