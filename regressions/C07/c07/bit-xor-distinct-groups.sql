-- fails with: Arrow error: Invalid argument error: column types must match schema types, expected List(Int64) but found Int64 at column index 1
create table t as select * from (values (1, 4, 1), (1, 4, 2), (2, 3, 1), (2, 3, 1), (2, 5, 1)) as v(g, x, y);
select g, bit_xor(distinct x) as bx, count(distinct y) as cy from t group by g order by g;
