-- both SELECTs panic at percentile_cont.rs convert_to_state: assertion failed "one argument to merge_batch" (left: 2 / 3, right: 1) once partial aggregation is skipped
set datafusion.execution.target_partitions = 4;
set datafusion.execution.batch_size = 16;
set datafusion.execution.skip_partial_aggregation_probe_rows_threshold = 10;
set datafusion.execution.skip_partial_aggregation_probe_ratio_threshold = 0.1;
create table t as select i as g, cast(i % 7 as double) as x from generate_series(1, 2000) as s(i);
select sum(d) from (select g, percentile_cont(x, 0.5) as d from t group by g);
select sum(d) from (select g, percentile_cont(0.5) within group (order by x) as d from t group by g);
