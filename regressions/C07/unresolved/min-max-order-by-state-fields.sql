-- both SELECTs fail with: Arrow error: Invalid argument error: number of columns(1) must match number of fields(2) in schema
set datafusion.execution.target_partitions = 4;
create table t as select i % 3 as g, i % 7 as x, 100 - i as y from generate_series(1, 20) as s(i);
select max(x order by y) from t;
select g, min(x order by y) from t group by g order by g;
