create table t as select null as a, null as b from generate_series(1, 5);
select arrow_typeof(a) from t limit 1;
select make_array(a, b) from t;
