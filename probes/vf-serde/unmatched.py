import json,glob,re,sys,collections
rules=json.load(open('/verif/harness/crates/vf-serde/signatures.json'))
def sections(m):
    head='';pos=0;rest_at=len(m)
    for line in m.splitlines(True):
        t=line.lstrip()
        if t.startswith('sql:') or t.startswith('unparsed:') or t.rstrip().endswith('plan:'):
            rest_at=pos;break
        head+=line;pos+=len(line)
    rest=m[rest_at:]
    i=rest.find('plan:\n')
    return head,(rest[i+6:] if i>=0 else '')
def sig(pid,m):
    h,p=sections(m)
    for r in rules:
        if r['property']!=pid: continue
        if not r.get('head') and not r.get('head_any'): continue
        if all(s in h for s in r.get('head',[])) and (not r.get('head_any') or any(s in h for s in r['head_any'])) and all(s in p for s in r.get('plan',[])) and (not r.get('plan_any') or any(s in p for s in r['plan_any'])) and (not r.get('plan_line') or any(all(s in l for s in r['plan_line']) for l in p.split('\n'))):
            return r['signature']
    return None
if __name__=='__main__':
    d=sys.argv[1]
    un=[]
    for f in sorted(glob.glob(d+'/*.txt')):
        pid=f.split('/')[-1][:3].upper()
        m=open(f).read().split('\n\nCASE:')[0]
        if m.startswith('[known:') or sig(pid,m): continue
        un.append((f,m))
    print('UNMATCHED',len(un))
    for f,m in un:
        print('#####',f.split('/')[-1]); print('\n'.join(l[:260] for l in m.split('\n')[:12]))
