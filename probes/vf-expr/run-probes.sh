#!/bin/bash
# run inside mutrun with all-probes-env-guarded.diff applied: each mutation is switched on by VF_PROBE
cd /verif
for p in none m1 m2 m3; do echo "=== VF_PROBE=$p C33"; VF_PROBE=$p ./check C33 quick 2>&1 | grep -E "^(FAIL|VIOLATION|c33 quick|  expr|KNOWN|UNHEALTHY|VACUOUS|HARNESS)" | cut -c1-400; echo "exit=${PIPESTATUS[0]}"; done
for p in none m4 m5 m6 m7; do echo "=== VF_PROBE=$p C04"; VF_PROBE=$p ./check C04 quick 2>&1 | grep -E "^(FAIL|VIOLATION|c04 quick|  original|  simplified|UNHEALTHY|VACUOUS|HARNESS)" | cut -c1-400; echo "exit=${PIPESTATUS[0]}"; done
