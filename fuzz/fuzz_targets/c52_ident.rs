//! C52 — coverage-guided search for identifier parts whose quoted rendering does not parse back.
#![no_main]
use datafusion_common::utils::quote_identifier;
use datafusion_common::{Column, TableReference};
use libfuzzer_sys::fuzz_target;

fuzz_target!(|data: &[u8]| {
    // parts are separated by 0xFF bytes (never valid in UTF-8); each part must be non-empty UTF-8
    let mut parts: Vec<String> = vec![];
    for chunk in data.split(|b| *b == 0xFF).take(4) {
        match std::str::from_utf8(chunk) {
            Ok(s) if !s.is_empty() => parts.push(s.to_string()),
            _ => return,
        }
    }
    if parts.is_empty() {
        return;
    }
    for p in &parts {
        let q = quote_identifier(p);
        let back = TableReference::parse_str(&q);
        assert_eq!(back, TableReference::bare(p.as_str()), "C52 violated: {p:?} quoted as {q:?}");
    }
    let (tparts, col) = if parts.len() == 4 { (&parts[..3], Some(&parts[3])) } else { (&parts[..], None) };
    let r = match tparts.len() {
        1 => TableReference::bare(tparts[0].as_str()),
        2 => TableReference::partial(tparts[0].as_str(), tparts[1].as_str()),
        _ => TableReference::full(tparts[0].as_str(), tparts[1].as_str(), tparts[2].as_str()),
    };
    let text = r.to_quoted_string();
    assert_eq!(TableReference::parse_str(&text), r, "C52 violated: {r:?} renders as {text:?}");
    let name = col.cloned().unwrap_or_else(|| parts[0].clone());
    let c = Column::new(Some(r.clone()), name.as_str());
    let t = c.quoted_flat_name();
    let b = Column::from_qualified_name(t.as_str());
    assert!(b.relation == c.relation && b.name == c.name, "C52 violated: column {c:?} renders as {t:?} parses to {b:?}");
});
