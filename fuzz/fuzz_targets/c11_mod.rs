//! C11 — coverage-guided search for a (hash, divisor) pair on which the division-free remainder of
//! hash repartitioning differs from `hash % divisor` (oracle: Rust's `%`).
#![no_main]
use datafusion_physical_plan::repartition::verif_hooks::strength_reduced_remainder;
use libfuzzer_sys::fuzz_target;

fn check(h: u64, d: u64) {
    if d == 0 {
        return;
    }
    let got = strength_reduced_remainder(h, d);
    assert_eq!(got, h % d, "C11 violated: hash={h} divisor={d} got={got} want={}", h % d);
}

fuzz_target!(|data: &[u8]| {
    if data.len() < 16 {
        return;
    }
    let h = u64::from_le_bytes(data[0..8].try_into().unwrap());
    let d = u64::from_le_bytes(data[8..16].try_into().unwrap());
    check(h, d);
    // neighbourhoods that matter for reciprocal rounding: multiples of d and their neighbours
    if d != 0 {
        let q = h / d;
        for m in [q.wrapping_mul(d), q.wrapping_mul(d).wrapping_sub(1), q.wrapping_mul(d).wrapping_add(d - 1), u64::MAX - (u64::MAX % d), u64::MAX] {
            check(m, d);
        }
    }
    for k in data[16..].iter().take(8) {
        // shifted variants: keep high bits of the divisor, vary magnitude
        let s = (*k % 64) as u32;
        check(h, (d >> s).max(1));
        check(h >> (s / 2), (d >> s).max(1));
    }
});
