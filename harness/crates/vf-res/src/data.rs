//! Deterministic table data for C18 / C20, derived from plain-data parameters (no RNG: every cell is
//! `splitmix64` of (seed, table, row, column)).
//!
//! `t(id, k, g, v, s)` — the big table: `id` unique 0..n, `k` join / many-groups key in `0..key_card`
//! (nullable), `g` low-cardinality key 0..7, `v` small integer (nullable, |v| ≤ 1000 so integer sums and
//! averages are exact in any evaluation order), `s` a string of `str_len` characters (heavy payload).
//! `u(id2, k, w, s2)` — the small table: `k` in `0..key_card*5/4` (some keys unmatched), `w` never NULL.
use arrow::array::{ArrayRef, Int64Builder, RecordBatch, StringBuilder};
use arrow::datatypes::{DataType, Field, Schema, SchemaRef};
use arrow::util::display::{ArrayFormatter, FormatOptions};
use serde::{Deserialize, Serialize};
use std::sync::Arc;
use vf_kit::engine::splitmix64;

#[derive(Clone, Debug, Serialize, Deserialize, PartialEq)]
pub struct DataSpec {
    pub rows_t: u32,
    pub rows_u: u32,
    pub seed: u32,
    /// number of distinct `k` values in `t`
    pub key_card: u32,
    pub str_len: u16,
    /// percentage of NULLs in the nullable columns (0–30)
    pub null_pct: u8,
}

#[derive(Clone, Copy, Debug, PartialEq, Eq)]
pub enum Which {
    T,
    U,
}

impl Which {
    pub fn name(self) -> &'static str {
        match self {
            Which::T => "t",
            Which::U => "u",
        }
    }
}

fn cell(seed: u32, table: u64, row: u64, col: u64) -> u64 {
    splitmix64(splitmix64(((seed as u64) << 8) | table) ^ row.wrapping_mul(0x9E37_79B9_7F4A_7C15) ^ (col << 56))
}

pub fn schema(which: Which) -> SchemaRef {
    let f = |n: &str, t: DataType| Field::new(n, t, true);
    Arc::new(match which {
        Which::T => Schema::new(vec![f("id", DataType::Int64), f("k", DataType::Int64), f("g", DataType::Int64), f("v", DataType::Int64), f("s", DataType::Utf8)]),
        Which::U => Schema::new(vec![f("id2", DataType::Int64), f("k", DataType::Int64), f("w", DataType::Int64), f("s2", DataType::Utf8)]),
    })
}

fn payload(h: u64, len: usize) -> String {
    let mut s = format!("{h:016x}");
    if len <= 16 {
        // short strings: few distinct values (duplicates make GROUP BY s / DISTINCT s meaningful)
        s.truncate(len.max(1));
        return s;
    }
    let alphabet = b"abcdefghijklmnopqrstuvwxyz";
    let mut x = h;
    while s.len() < len {
        x = splitmix64(x);
        s.push(alphabet[(x % 26) as usize] as char);
    }
    s
}

impl DataSpec {
    pub fn rows(&self, which: Which) -> usize {
        match which {
            Which::T => self.rows_t as usize,
            Which::U => self.rows_u as usize,
        }
    }

    /// rows `[from, to)` of a table as one batch with its own buffers (no slicing: a slice would report the
    /// parent's whole buffer size to the memory accounting)
    pub fn batch(&self, which: Which, from: usize, to: usize) -> Result<RecordBatch, String> {
        let tb = match which {
            Which::T => 1u64,
            Which::U => 2u64,
        };
        let nullp = self.null_pct.min(90) as u64;
        let card = self.key_card.max(1) as u64;
        let n = to.saturating_sub(from);
        let mut c0 = Int64Builder::with_capacity(n);
        let mut c1 = Int64Builder::with_capacity(n);
        let mut c2 = Int64Builder::with_capacity(n);
        let mut c3 = Int64Builder::with_capacity(n);
        let mut cs = StringBuilder::new();
        for r in from..to {
            let r64 = r as u64;
            c0.append_value(r as i64);
            let hk = cell(self.seed, tb, r64, 1);
            let kcard = if which == Which::T { card } else { card + card / 4 + 1 };
            if (hk >> 32) % 100 < nullp {
                c1.append_null();
            } else {
                c1.append_value((hk % kcard) as i64);
            }
            match which {
                Which::T => {
                    c2.append_value((cell(self.seed, tb, r64, 2) % 8) as i64);
                    let hv = cell(self.seed, tb, r64, 3);
                    if (hv >> 32) % 100 < nullp {
                        c3.append_null();
                    } else {
                        c3.append_value((hv % 2001) as i64 - 1000);
                    }
                }
                Which::U => {
                    c2.append_value((cell(self.seed, tb, r64, 2) % 2001) as i64 - 1000);
                }
            }
            let hs = cell(self.seed, tb, r64, 4);
            if (hs >> 40) % 100 < nullp / 2 {
                cs.append_null();
            } else {
                cs.append_value(payload(hs, self.str_len as usize));
            }
        }
        let cols: Vec<ArrayRef> = match which {
            Which::T => vec![Arc::new(c0.finish()), Arc::new(c1.finish()), Arc::new(c2.finish()), Arc::new(c3.finish()), Arc::new(cs.finish())],
            Which::U => vec![Arc::new(c0.finish()), Arc::new(c1.finish()), Arc::new(c2.finish()), Arc::new(cs.finish())],
        };
        RecordBatch::try_new(schema(which), cols).map_err(|e| e.to_string())
    }

    /// the table cut into batches of `batch_rows` rows, dealt into `partitions` partitions as contiguous runs
    /// (partition p holds batches `p*ceil(nb/partitions) ..`); empty partitions are allowed
    pub fn partitions(&self, which: Which, batch_rows: usize, partitions: usize) -> Result<Vec<Vec<RecordBatch>>, String> {
        let n = self.rows(which);
        let step = batch_rows.max(1);
        let mut batches = vec![];
        let mut at = 0;
        while at < n {
            let end = (at + step).min(n);
            batches.push(self.batch(which, at, end)?);
            at = end;
        }
        let np = partitions.max(1);
        let per = batches.len().div_ceil(np).max(1);
        let mut parts: Vec<Vec<RecordBatch>> = (0..np).map(|_| vec![]).collect();
        for (i, b) in batches.into_iter().enumerate() {
            parts[(i / per).min(np - 1)].push(b);
        }
        Ok(parts)
    }
}

/// One text line per row (columns separated by U+241F, NULL as `∅`): the comparison form of a result.
pub fn rows_of(batches: &[RecordBatch]) -> Result<Vec<String>, String> {
    let opts = FormatOptions::default().with_null("∅");
    let mut out = vec![];
    for b in batches {
        let fmts: Vec<ArrayFormatter> = b.columns().iter().map(|c| ArrayFormatter::try_new(c.as_ref(), &opts)).collect::<Result<_, _>>().map_err(|e| e.to_string())?;
        for i in 0..b.num_rows() {
            let mut line = String::new();
            for (ci, f) in fmts.iter().enumerate() {
                if ci > 0 {
                    line.push('|');
                }
                use std::fmt::Write;
                write!(line, "{}", f.value(i)).map_err(|e| e.to_string())?;
            }
            out.push(line);
        }
    }
    Ok(out)
}

/// `None` when equal as multisets, otherwise a short description
pub fn multiset_diff(expected: &[String], got: &[String]) -> Option<String> {
    let mut a: Vec<&String> = expected.iter().collect();
    let mut b: Vec<&String> = got.iter().collect();
    a.sort();
    b.sort();
    if a == b {
        return None;
    }
    let (mut i, mut j) = (0, 0);
    let mut missing = vec![];
    let mut extra = vec![];
    while i < a.len() || j < b.len() {
        if j >= b.len() || (i < a.len() && a[i] < b[j]) {
            if missing.len() < 3 {
                missing.push(a[i].clone());
            }
            i += 1;
        } else if i >= a.len() || b[j] < a[i] {
            if extra.len() < 3 {
                extra.push(b[j].clone());
            }
            j += 1;
        } else {
            i += 1;
            j += 1;
        }
    }
    Some(format!("expected {} rows, got {}; first missing {:?}; first unexpected {:?}", expected.len(), got.len(), missing, extra))
}

pub fn sequence_diff(expected: &[String], got: &[String]) -> Option<String> {
    if expected == got {
        return None;
    }
    if expected.len() != got.len() {
        return Some(format!("expected {} rows, got {} ({})", expected.len(), got.len(), multiset_diff(expected, got).unwrap_or_else(|| "same multiset".into())));
    }
    let i = expected.iter().zip(got).position(|(a, b)| a != b).unwrap_or(0);
    Some(format!("row {i} differs: expected {:?}, got {:?}", expected[i], got[i]))
}

/// is `got` a sub-multiset of `full`?
pub fn sub_multiset(full: &[String], got: &[String]) -> Option<String> {
    let mut a: Vec<&String> = full.iter().collect();
    let mut b: Vec<&String> = got.iter().collect();
    a.sort();
    b.sort();
    let mut i = 0;
    for x in b {
        while i < a.len() && a[i] < x {
            i += 1;
        }
        if i >= a.len() || a[i] != x {
            return Some(format!("row {x:?} is not (or not that often) in the un-LIMITed result"));
        }
        i += 1;
    }
    None
}
