//! C20 — execution errors always surface; no truncated result counts as success. Level: `fault_enumeration`.
//!
//! **Case** = small generated tables served by scripted sources (`scripted.rs`: 1–3 partitions of `t`, 1–2 of
//! `u`, a few batches each, `Pending` jitter) × one query shape of the mini grammar (every input-consuming
//! operator: filter/projection, sort, TopK, hash aggregate, DISTINCT, hash (collect-left / partitioned) /
//! sort-merge / nested-loop joins of every type, windows, UNION ALL, repartitions through
//! `target_partitions`, LIMIT, ORDER BY … LIMIT) × batch_size / target_partitions / runtime flavour × one
//! **fault kind**; inside `run` the fault *points* of that kind are enumerated (all of them when ≤ 12,
//! otherwise 12 evenly spread ones including first and last):
//! * `Source` — the scripted source of `t` or `u` yields `Err` in place of batch k of partition p, for every
//!   (table, p, k) including k = "in place of the end of the partition";
//! * `Udf(site)` — scalar UDF `vf_fail` fails on the row with id = r; the UDF sits in a filter, a projection,
//!   a join filter or an aggregate argument; r enumerated over the rows;
//! * `MemRefuse(mode, disk)` — a `MemoryPool` wrapper refuses `try_grow` number k (once, or from k on), with
//!   spilling enabled or disabled; k enumerated over the requests of the fault-free run;
//! * `SpillIo(Create | Write | Read, mode)` — a custom `TempFileFactory` fails the k-th file creation / write
//!   call / read stream, under a memory limit chosen (largest of a fixed ladder) so that the fault-free run
//!   spills; k enumerated over the fault-free run's calls;
//! * `DiskQuota` — `max_temp_directory_size` set to i/13 of the bytes the fault-free run spilled, i = 1..12.
//! * `PartDrop` (module `partdrop.rs`, physical-plan level, added after the independently seeded defect
//!   `/verif/seeded/C20-a` went unnoticed: every SQL case consumes all partitions / the coalesced stream to the
//!   end, so no repartition receiver is ever gone when an input error fans out) — a `RepartitionExec`
//!   (round-robin or hash, 2–8 outputs) over a gated scripted source; every output partition is executed and
//!   polled separately, a generated subset of the partition streams is dropped after `before` source batches,
//!   then the gate opens and the source fails `after` batches later; each scenario is repeated 6 times
//!   (the victims depend on hash-map iteration order). Oracle: every surviving partition stream yields the
//!   error, or ends Ok with at least the rows it gets in the fault-free variant of the same scenario (same
//!   drop set); ending Ok with fewer rows is a violation.
//!   `tools/mutrun /verif/seeded/C20-a/patch.diff -- ./check C20 quick` → VIOLATION after 5 evaluations
//!   ("output partition 0 of RepartitionExec (round-robin, 2 outputs) ended successfully with 3 rows although
//!   the input failed (fault-free: 9 rows); dropped consumers [1]"); unchanged tree: exit 0.
//!   Not done: SQL shapes with per-partition limits above a repartition (LocalLimitExec) as a second route.
//!
//! **Oracle** (per fault point): the stream yields `Err` (possibly after some batches; the driver stops
//! polling there, as `collect()` does) — or it ends `Ok` with exactly the fault-free result (same comparison
//! rules as C18: sequence when totally ordered, sub-multiset + count for an un-ordered LIMIT, multiset
//! otherwise). `Ok` with other rows or a panic (engine) is a violation; a run that neither ends nor fails
//! within 30 s → inconclusive. The fault-free run uses the same plan configuration (same pool limit / factory,
//! no fault armed).
//!
//! **Non-trivial**: some enumerated fault point was reached (source `Error` step handed out / UDF raised /
//! request refused / spill call failed / quota error seen) and the fault-free result is non-empty.
//!
//! Deviations from DESIGN.md: lives in `vf-res`; spill *read* failures and file-creation failures are
//! enumerated in addition to write failures; the stream is NOT polled again after it yielded an error, so
//! "more items after the error" is not checked: the rustdoc of `SendableRecordBatchStream` ("Error
//! Handling") says a stream must not be polled again once it returned an error, i.e. "and then ends" is the
//! caller's side of the contract. (Observed while building this check: `HashJoinExec` in CollectLeft mode
//! re-yields a build-side error on every later poll, forever — harmless under that contract, and therefore
//! not reported.)
//!
//! **Genuine defect found** (known finding `nlj-fallback-reexecutes-left-child`, regression case
//! `/verif/regressions/C20/c20/nlj-fallback-reexecutes-left-child.json`, repair
//! `/verif/fixes/C20-nlj-fallback-reexecutes-left-child.diff`): when the in-memory load of the left side of a
//! `NestedLoopJoinExec` is refused memory, `initiate_fallback` executes the *already executed* left child a
//! second time; a `RepartitionExec` below it (target_partitions ≥ 2) hands out every output partition only
//! once and panics with "partition not used yet" (repartition/mod.rs, `.expect`). The query dies with a task
//! panic instead of `ResourcesExhausted` / a completed fallback. Reproduced with plain SQL in datafusion-cli
//! (`-m 500k`; `set datafusion.execution.target_partitions = 2; set datafusion.optimizer.join_reordering =
//! false; create table t as select value as id, value % 4 as k from generate_series(0, 20000); create table u
//! as select value as id2, value % 5 as k from generate_series(0, 50); select count(*) from (select t.id,
//! u.id2 from (select id, k from t group by id, k) t join u on (t.k + u.k) % 97 = 0);`). The repair
//! re-executes `reset_plan_states(left_plan)`; with it (mutrun) the regression case and `C20 quick` pass.
//!
//! **Second genuine defect** (found by the thorough tier; regression cases
//! `/verif/regressions/C20/c20/nlj-fallback-multi-partition-left-emission.json` and — with a plain 16 KiB
//! GreedyMemoryPool and MemTables — `/verif/regressions/C18/c18/nlj-fallback-multi-partition-left-emission.json`;
//! repair `/verif/fixes/C05-nlj-spill-fallback-multi-partition.diff`, the same guard as found through C05): in the same fallback path every
//! right partition builds its own left bitmap, so for join types that emit left rows at the end (LEFT, LEFT
//! SEMI, LEFT ANTI, LEFT MARK) each partition emits "unmatched" left rows judged by its own matches only →
//! spurious NULL-extended rows (`t RIGHT JOIN u` planned as NLJ Left: expected 101 rows, got 282). The code
//! comment in `NestedLoopJoinExec::execute` already calls this a latent issue and guards only FULL joins; the
//! repair extends that guard to `need_produce_result_in_final(join_type)` (those joins then fail cleanly
//! with ResourcesExhausted instead of answering wrongly).
//!
//! **Third genuine defect** (found by C18's thorough tier, regression case
//! `/verif/regressions/C18/c18/nlj-fallback-right-unmatched-lost.json`): same fallback path, single partition
//! everywhere: `t LEFT JOIN u` planned as NLJ `join_type=Right` under a 128 KiB pool returns only the matched
//! rows (1317 of 2681; every unmatched right row is missing) when `batch_size` is 32 or 64; with batch_size ≥
//! 1024 the fallback answers correctly. The vf-join engineer found the same defect through C05 and isolated the
//! root cause (`handle_buffering_left_memory_limited` goes straight to `Done` when the batch that hit the limit
//! was the last left batch, skipping `EmitGlobalRightUnmatched`): `/verif/fixes/C05-nlj-spill-fallback-right-emission.diff`
//! (not re-verified from here).
//!
//! Until the repairs are committed the class NestedLoop × MemRefuse{disk} is excluded through
//! `known_signature`. Final tree: (A) and (C) are fixed in /repo; only (B) is open, so only the multi-partition
//! cases of the class stay excluded, under `nlj-oom-fallback:left-emission-multi-partition` (regression case
//! /verif/regressions/C20/c20/nlj-fallback-multi-partition-left-emission.json; `known_signature` maps OPEN findings only).
//!
//! **Sensitivity probes** (patches in `crates/vf-res/probes/`, run with `tools/mutrun <patch> -- ./check C20
//! quick`; all on VERIF_SEED=0):
//! * `c20-p1-repartition-input-error-as-eof.diff` — `RepartitionExec::wait_for_task` sends `None` instead of
//!   the input task's error to the outputs → VIOLATION after 9 evaluations (UDF-in-filter and source faults:
//!   "ended successfully but not with the fault-free result: expected 3 rows, got 0").
//! * `c20-p2-hashjoin-build-error-as-eof.diff` — `collect_left_input` of the hash join stops at the first
//!   `Err` of the build side as if it were the end of input → VIOLATION after 16 evaluations.
//! * `c20-p3-sort-ignores-spill-write-error.diff` — `ExternalSorter::consume_and_spill_append` skips a batch
//!   whose `append_batch` failed → VIOLATION after 68 evaluations (SpillIo Write fault, window over sort: 340
//!   of 404 rows). The shrunk case did not re-confirm: with several partitions the global "k-th write" lands
//!   in a scheduling-dependent file, so spill fault points are only reproducible for single-partition plans.
use crate::c18::{limit_bytes, pick, shape_strategy};
use crate::data::{DataSpec, Which, multiset_diff, schema, sequence_diff, sub_multiset};
use crate::env::*;
use crate::query::*;
use crate::scripted::{Counters, ScriptedTable, script};
use arrow::array::RecordBatch;
use datafusion::logical_expr::ScalarUDF;
use proptest::prelude::*;
use serde::{Deserialize, Serialize};
use serde_json::json;
use std::sync::Arc;
use std::sync::atomic::Ordering;
use std::time::Duration;
use vf_kit::engine::*;

pub struct C20;

#[derive(Clone, Copy, Debug, Serialize, Deserialize, PartialEq, Eq)]
pub enum FaultKind {
    Source,
    Udf(UdfSite),
    MemRefuse { mode: FaultMode, disk: bool },
    SpillIo { kind: SpillFaultKind, mode: FaultMode },
    DiskQuota,
    /// physical-plan level: the partitions of a RepartitionExec over the scripted source are executed
    /// separately, the streams in `drop_mask` are dropped after the first `before` source batches, then the
    /// source yields `before + after` … and fails in place of batch `before + after`
    PartDrop { hash: bool, n_out: u8, drop_mask: u8, before: u8, after: u8 },
}

impl FaultKind {
    pub fn label(&self) -> String {
        match self {
            FaultKind::Source => "fault=source".into(),
            FaultKind::Udf(s) => format!("fault=udf-{s:?}"),
            FaultKind::MemRefuse { mode, disk } => format!("fault=mem-{mode:?}-{}", if *disk { "disk" } else { "nodisk" }),
            FaultKind::SpillIo { kind, mode } => format!("fault=spill-{kind:?}-{mode:?}"),
            FaultKind::DiskQuota => "fault=disk-quota".into(),
            FaultKind::PartDrop { hash, .. } => format!("fault=partdrop-{}", if *hash { "hash" } else { "roundrobin" }),
        }
    }
    fn needs_spill(&self) -> bool {
        matches!(self, FaultKind::SpillIo { .. } | FaultKind::DiskQuota)
    }
}

#[derive(Clone, Debug, Serialize, Deserialize)]
pub struct Cfg {
    pub batch_size: u32,
    pub target_partitions: u8,
    /// rows per source batch
    pub batch_rows: u32,
    pub parts_t: u8,
    pub parts_u: u8,
    /// Pending polls before batch i (cyclic)
    pub pend: Vec<u8>,
    pub flavor: Flavor,
    pub compression: Compression,
}

#[derive(Clone, Debug, Serialize, Deserialize)]
pub struct Case {
    pub data: DataSpec,
    pub query: QuerySpec,
    pub cfg: Cfg,
    pub fault: FaultKind,
}

/// one concrete fault point
#[derive(Clone, Copy, Debug, PartialEq, Eq)]
enum Point {
    None,
    Source { table: Which, part: usize, batch: usize },
    UdfRow(i64),
    Mem(usize),
    Spill(usize),
    Quota(u64),
}

fn spread(n: usize, max: usize) -> Vec<usize> {
    if n <= max {
        return (0..n).collect();
    }
    let mut v: Vec<usize> = (0..max).map(|i| i * (n - 1) / (max - 1)).collect();
    v.dedup();
    v
}

struct Inputs {
    t: Vec<Vec<RecordBatch>>,
    u: Vec<Vec<RecordBatch>>,
}

struct Observed {
    end: StreamEnd,
    spill_count: usize,
    plan_text: String,
    src_errors: usize,
    src_batches: usize,
    udf_failures: usize,
    refused: usize,
    try_grows: usize,
    spill_injected: usize,
    spill_calls: (usize, usize, usize),
    spilled_bytes: u64,
    residue: (usize, u64, usize),
}

enum RunEnd {
    Finished(Box<Observed>),
    Timeout,
    Setup(String),
}

fn one_run(case: &Case, inp: &Inputs, site: Option<UdfSite>, point: Point, mem_limit: Option<usize>, sql: &str) -> RunEnd {
    let cfg = &case.cfg;
    let rt = match build_tokio(cfg.flavor) {
        Ok(r) => r,
        Err(e) => return RunEnd::Setup(format!("tokio: {e}")),
    };
    let mut spec = EnvSpec { mem_limit, pool: PoolKind::Greedy, ..EnvSpec::default() };
    match case.fault {
        FaultKind::MemRefuse { mode, disk } => {
            spec.disk_enabled = disk;
            spec.mem_fault = Some((if let Point::Mem(k) = point { k } else { usize::MAX }, mode));
        }
        FaultKind::SpillIo { kind, mode } => {
            spec.spill_factory = Some(if let Point::Spill(k) = point { Some(SpillFault { kind, at: k, mode }) } else { None });
        }
        FaultKind::DiskQuota => {
            if let Point::Quota(q) = point {
                spec.disk_quota = Some(q);
            }
        }
        _ => {}
    }
    let env = match Env::new(&spec) {
        Ok(e) => e,
        Err(m) => return RunEnd::Setup(m),
    };
    let udf_impl = FailUdf::new(if let Point::UdfRow(r) = point { Some(r) } else { None });
    let udf_state = udf_impl.state.clone();
    let udf = if site.is_some() { Some(Arc::new(ScalarUDF::new_from_impl(udf_impl))) } else { None };
    let mut options = case.query.options();
    options.push(("datafusion.execution.spill_compression".into(), cfg.compression.option().into()));
    if case.fault.needs_spill() || matches!(case.fault, FaultKind::MemRefuse { .. }) {
        options.push(("datafusion.execution.sort_spill_reservation_bytes".into(), "4096".into()));
        options.push(("datafusion.execution.sort_in_place_threshold_bytes".into(), "0".into()));
    }
    let ctx = match env.context(cfg.target_partitions as usize, cfg.batch_size as usize, &options, udf) {
        Ok(c) => c,
        Err(m) => return RunEnd::Setup(m),
    };
    let mut counters: Vec<Arc<Counters>> = vec![];
    for (which, parts) in [(Which::T, &inp.t), (Which::U, &inp.u)] {
        if which == Which::U && !case.query.shape.uses_u() {
            continue;
        }
        let scripts: Vec<_> = parts
            .iter()
            .enumerate()
            .map(|(p, batches)| {
                let err = match point {
                    Point::Source { table, part, batch } if table == which && part == p => Some(batch),
                    _ => None,
                };
                script(batches.clone(), &cfg.pend, err)
            })
            .collect();
        let table = ScriptedTable::new(schema(which), scripts);
        counters.push(table.counters.clone());
        if let Err(e) = ctx.register_table(which.name(), Arc::new(table)) {
            return RunEnd::Setup(e.to_string());
        }
    }
    let r = rt.block_on(async { tokio::time::timeout(Duration::from_secs(30), drive(&env, &ctx, sql, None, 0)).await.ok() });
    drop(ctx);
    rt.shutdown_timeout(Duration::from_secs(5));
    let Some(run) = r else { return RunEnd::Timeout };
    let (try_grows, refused) = env.fault_pool.as_ref().map(|p| (p.try_grows.load(Ordering::SeqCst), p.refused.load(Ordering::SeqCst))).unwrap_or((0, 0));
    let (spill_injected, spill_calls, factory_bytes) = env
        .spill_state
        .as_ref()
        .map(|s| (s.injected.load(Ordering::SeqCst), (s.creates.load(Ordering::SeqCst), s.writes.load(Ordering::SeqCst), s.reads.load(Ordering::SeqCst)), s.bytes_written.load(Ordering::SeqCst)))
        .unwrap_or((0, (0, 0, 0), 0));
    RunEnd::Finished(Box::new(Observed {
        spill_count: run.spill_count,
        plan_text: run.plan_text,
        src_errors: counters.iter().map(|c| c.errors.load(Ordering::SeqCst)).sum(),
        src_batches: counters.iter().map(|c| c.batches.load(Ordering::SeqCst)).sum(),
        udf_failures: udf_state.failures.load(Ordering::SeqCst),
        refused,
        try_grows,
        spill_injected,
        spill_calls,
        spilled_bytes: (run.spilled_bytes as u64).max(factory_bytes),
        residue: env.residue(),
        end: run.outcome,
    }))
}

fn cfg_strategy() -> impl Strategy<Value = Cfg> {
    (
        pick(vec![2u32, 8, 64, 8192]),
        pick(vec![1u8, 2, 3, 4]),
        1u8..=3,
        1u8..=2,
        prop::collection::vec(0u8..3, 0..4),
        pick(vec![Flavor::CurrentThread, Flavor::CurrentThread, Flavor::Multi]),
        pick(vec![Compression::Uncompressed, Compression::Lz4, Compression::Zstd]),
    )
        .prop_map(|(batch_size, target_partitions, parts_t, parts_u, pend, flavor, compression)| Cfg { batch_size, target_partitions, batch_rows: 0, parts_t, parts_u, pend, flavor, compression })
}

fn fault_strategy() -> BoxedStrategy<FaultKind> {
    let mode = pick(vec![FaultMode::Once, FaultMode::Sticky]);
    prop_oneof![
        6 => Just(FaultKind::Source),
        4 => pick(vec![UdfSite::Filter, UdfSite::Projection, UdfSite::JoinFilter, UdfSite::AggArg]).prop_map(FaultKind::Udf),
        3 => (mode.clone(), any::<bool>()).prop_map(|(mode, disk)| FaultKind::MemRefuse { mode, disk }),
        3 => (pick(vec![SpillFaultKind::Create, SpillFaultKind::Write, SpillFaultKind::Write, SpillFaultKind::Read]), mode).prop_map(|(kind, mode)| FaultKind::SpillIo { kind, mode }),
        1 => Just(FaultKind::DiskQuota),
        4 => (any::<bool>(), 2u8..=8, 1u8..255, 0u8..4, 0u8..3).prop_map(|(hash, n_out, drop_mask, before, after)| FaultKind::PartDrop { hash, n_out, drop_mask, before, after }),
    ]
    .boxed()
}

/// shapes whose operators spill under memory pressure (for the spill fault kinds)
fn spilling_shape() -> BoxedStrategy<Shape> {
    let gb = pick(vec![GroupBy::K, GroupBy::S, GroupBy::KG]);
    prop_oneof![
        4 => (any::<bool>(), any::<bool>()).prop_map(|(by_str, desc)| Shape::Sort { by_str, desc }),
        3 => (gb.clone(), any::<bool>()).prop_map(|(by, strs)| Shape::Agg { by, strs }),
        1 => gb.prop_map(|by| Shape::Distinct { by }),
        2 => (pick(vec![JoinKind::Inner, JoinKind::Left, JoinKind::Full, JoinKind::Semi]), any::<bool>()).prop_map(|(kind, filter)| Shape::Join { kind, algo: JoinAlgo::SortMerge, filter }),
        2 => (pick(vec![WinFn::RowNumber, WinFn::RunningSum, WinFn::Rank]), any::<bool>()).prop_map(|(f, part)| Shape::Window { f, part }),
        1 => Just(Shape::AggJoin { algo: JoinAlgo::SortMerge }),
    ]
    .boxed()
}

impl Property for C20 {
    type Case = Case;
    fn id(&self) -> &'static str {
        "C20"
    }
    fn sub(&self) -> &'static str {
        "c20"
    }
    fn level(&self) -> &'static str {
        "fault_enumeration"
    }
    fn strategy(&self, tier: Tier) -> BoxedStrategy<Case> {
        let big = tier.pick(1u32, 2u32);
        fault_strategy()
            .prop_flat_map(move |fault| {
                let shape = match fault {
                    f if f.needs_spill() => spilling_shape(),
                    FaultKind::Udf(site) => shape_strategy().prop_filter("shape has no place for the UDF site", move |s| s.site_ok(site)).boxed(),
                    _ => shape_strategy(),
                };
                // (rows per batch, batches of t, batches of u)
                let sizes = if fault.needs_spill() { (40u32..150 * big, 8u32..=20, 1u32..=3).boxed() } else { (3u32..40 * big, 1u32..=7, 1u32..=3).boxed() };
                let strs = if fault.needs_spill() { pick(vec![60u16, 120, 200]) } else { pick(vec![4u16, 8, 24, 60]) };
                (Just(fault), shape, prop::bool::weighted(0.3), prop::option::weighted(0.25, 1u32..60), sizes, (any::<u32>(), strs, 0u8..25), cfg_strategy())
            })
            .prop_map(|(fault, shape, order, limit, (batch_rows, nb_t, nb_u), (seed, str_len, null_pct), mut cfg)| {
                cfg.batch_rows = batch_rows;
                let rows_t = batch_rows * nb_t - (seed % batch_rows.max(1)).min(batch_rows - 1);
                let rows_u = (batch_rows * nb_u).min(400) - (seed >> 8) % batch_rows.clamp(1, 3);
                // spill kinds: many groups so that hash aggregation spills, too
                let key_card = if fault.needs_spill() { (rows_t / 2).max(4) } else { (rows_u / 2).max(4) };
                let data = DataSpec { rows_t, rows_u, seed, key_card, str_len, null_pct };
                Case { data, query: QuerySpec { shape, order, limit }, cfg, fault }
            })
            .boxed()
    }
    fn budget(&self, tier: Tier) -> Budget {
        Budget::new(tier.pick(304, 20_000), tier.pick(8, 16)).min_nontrivial(tier.pick(100, 5_000)).case_timeout(600).shrink(200, 300)
    }
    fn rule(&self) -> String {
        "small scripted tables x one query shape x session config x one fault kind (source error / failing UDF in filter,projection,join filter,aggregate argument / refused memory request / spill file create,write,read \
         failure / disk quota); all fault points of the kind are enumerated inside the case (<= 12, evenly spread when more); non-trivial = a fault point was reached and the fault-free result is non-empty; \
         distinct by case JSON; `fault_points` counts the enumerated points"
            .into()
    }
    fn assumptions(&self) -> Vec<String> {
        vec![
            "Ok with exactly the fault-free result is accepted even when the fault point was reached (LIMIT, short-circuiting joins, an error in place of the end of input)".into(),
            "any error counts as 'the error surfaced'; whether it still carries the injected message is only labelled".into(),
            "a MemoryPool may refuse any try_grow; a TempFileFactory / SpillFile may fail any create / write / read".into(),
        ]
    }
    fn run(&self, case: &Case) -> CaseResult {
        if let FaultKind::PartDrop { .. } = case.fault {
            return crate::partdrop::run(case);
        }
        let q = &case.query;
        let cfg = &case.cfg;
        let site = if let FaultKind::Udf(s) = case.fault { Some(s) } else { None };
        if let Some(s) = site {
            if !q.shape.site_ok(s) {
                return CaseResult::discard("UDF site does not fit the shape");
            }
        }
        if cfg.batch_rows == 0 || case.data.rows_t == 0 {
            return CaseResult::discard("empty case");
        }
        let inp = {
            let t = match case.data.partitions(Which::T, cfg.batch_rows as usize, cfg.parts_t as usize) {
                Ok(p) => p,
                Err(m) => return CaseResult::discard(format!("data: {m}")),
            };
            let u = match case.data.partitions(Which::U, cfg.batch_rows as usize, cfg.parts_u as usize) {
                Ok(p) => p,
                Err(m) => return CaseResult::discard(format!("data: {m}")),
            };
            Inputs { t, u }
        };
        let ordered = q.totally_ordered();
        let sub_limit = q.limit.is_some() && !ordered;
        let sql = q.sql(site, true);
        let mut labels: Vec<String> = vec![
            case.fault.label(),
            format!("shape={}", q.shape.label()),
            format!("class={}", q.shape.class()),
            format!("flavor={:?}", cfg.flavor),
            format!("partitions={}", cfg.target_partitions),
        ];
        if q.limit.is_some() {
            labels.push(if ordered { "limit-ordered".into() } else { "limit-unordered".into() });
        }
        let done = |r: CaseResult, labels: &mut Vec<String>| {
            labels.sort();
            labels.dedup();
            r.labels(labels.iter().cloned())
        };

        // ---- fault-free run(s)
        let mut mem_limit = None;
        let mut base: Option<Box<Observed>> = None;
        if case.fault.needs_spill() {
            // largest limit of the ladder under which the fault-free run spills and succeeds
            for step in [10u8, 8, 6, 5, 4, 3, 2, 1, 0] {
                let lim = limit_bytes(step);
                match one_run(case, &inp, site, Point::None, Some(lim), &sql) {
                    RunEnd::Setup(m) => return done(CaseResult::discard(format!("setup: {m}")), &mut labels),
                    RunEnd::Timeout => return done(CaseResult::inconclusive("fault-free run timed out"), &mut labels),
                    RunEnd::Finished(o) => {
                        if let StreamEnd::PlanError(m) = &o.end {
                            return done(CaseResult::discard(format!("plan error: {m}")), &mut labels);
                        }
                        let spilled = o.spill_count > 0 || o.spill_calls.0 > 0;
                        if matches!(o.end, StreamEnd::Done(_)) && spilled {
                            mem_limit = Some(lim);
                            base = Some(o);
                            break;
                        }
                        if matches!(o.end, StreamEnd::Failed { .. }) {
                            break; // smaller limits will not do better
                        }
                    }
                }
            }
            if base.is_none() {
                return done(CaseResult::discard("no limit of the ladder makes the fault-free run spill and succeed"), &mut labels);
            }
        }
        let base = match base {
            Some(b) => b,
            None => match one_run(case, &inp, site, Point::None, None, &sql) {
                RunEnd::Setup(m) => return done(CaseResult::discard(format!("setup: {m}")), &mut labels),
                RunEnd::Timeout => return done(CaseResult::inconclusive("fault-free run timed out"), &mut labels),
                RunEnd::Finished(o) => o,
            },
        };
        let expected: Vec<String> = match &base.end {
            StreamEnd::Done(r) => r.clone(),
            StreamEnd::PlanError(m) => return done(CaseResult::discard(format!("plan error: {m}")), &mut labels),
            StreamEnd::Failed { message, .. } => return done(CaseResult::inconclusive(format!("fault-free run failed: {message}")), &mut labels),
            StreamEnd::Dropped(_) => return done(CaseResult::discard("dropped"), &mut labels),
        };
        // un-ordered LIMIT: any min(n, |full|) rows of the un-LIMITed result are a correct answer
        let full: Option<Vec<String>> = if sub_limit {
            // (run without the memory limit: the un-LIMITed query may need more memory than the LIMITed one)
            match one_run(case, &inp, site, Point::None, None, &q.sql(site, false)) {
                RunEnd::Finished(o) => match o.end {
                    StreamEnd::Done(r) => Some(r),
                    _ => return done(CaseResult::inconclusive("fault-free un-LIMITed run failed"), &mut labels),
                },
                RunEnd::Timeout => return done(CaseResult::inconclusive("fault-free run timed out"), &mut labels),
                RunEnd::Setup(m) => return done(CaseResult::discard(format!("setup: {m}")), &mut labels),
            }
        } else {
            None
        };

        if let Some(full) = &full {
            if sub_multiset(full, &expected).is_some() {
                labels.push("limit-defect-independent-of-faults".into());
                return done(CaseResult::discard("fault-free un-ordered LIMIT answer is outside the un-LIMITed result (not C20's subject)"), &mut labels);
            }
        }
        // ---- enumerate the fault points
        let points: Vec<Point> = match case.fault {
            FaultKind::Source => {
                let mut all = vec![];
                for (which, parts) in [(Which::T, &inp.t), (Which::U, &inp.u)] {
                    if which == Which::U && !q.shape.uses_u() {
                        continue;
                    }
                    for (p, b) in parts.iter().enumerate() {
                        for k in 0..=b.len() {
                            all.push(Point::Source { table: which, part: p, batch: k });
                        }
                    }
                }
                spread(all.len(), 12).into_iter().map(|i| all[i]).collect()
            }
            FaultKind::Udf(_) => spread(case.data.rows_t as usize, 12).into_iter().map(|r| Point::UdfRow(r as i64)).collect(),
            FaultKind::MemRefuse { .. } => spread(base.try_grows, 12).into_iter().map(Point::Mem).collect(),
            FaultKind::SpillIo { kind, .. } => {
                let n = match kind {
                    SpillFaultKind::Create => base.spill_calls.0,
                    SpillFaultKind::Write => base.spill_calls.1,
                    SpillFaultKind::Read => base.spill_calls.2,
                };
                spread(n, 12).into_iter().map(Point::Spill).collect()
            }
            FaultKind::DiskQuota => (1..=12u64).map(|i| Point::Quota((base.spilled_bytes * i / 13).max(1))).collect(),
            FaultKind::PartDrop { .. } => vec![],
        };
        if points.is_empty() {
            return done(CaseResult::discard("no fault point (the fault-free run never makes such a request)"), &mut labels);
        }
        FAULT_POINTS.fetch_add(points.len() as u64, Ordering::Relaxed);

        let mut reached_any = false;
        let mut inconclusive = None;
        for point in &points {
            let o = match one_run(case, &inp, site, *point, mem_limit, &sql) {
                RunEnd::Setup(m) => return done(CaseResult::discard(format!("setup: {m}")), &mut labels),
                RunEnd::Timeout => {
                    labels.push("timeout".into());
                    inconclusive = Some(format!("run with fault {point:?} timed out (30 s)"));
                    continue;
                }
                RunEnd::Finished(o) => o,
            };
            let reached = o.src_errors > 0 || o.udf_failures > 0 || o.refused > 0 || o.spill_injected > 0 || matches!(&o.end, StreamEnd::Failed { kind: ErrKind::DiskQuota, .. });
            reached_any |= reached;
            if reached {
                REACHED_POINTS.fetch_add(1, Ordering::Relaxed);
            }
            let ctxmsg = |what: &str, o: &Observed| {
                format!(
                    "{what}\n  fault point {point:?} (reached: {reached}; source batches handed out {}, errors {}), fault kind {:?}\n  query: {sql}\n  config: {cfg:?}, memory limit {mem_limit:?}\n  plan:\n{}",
                    o.src_batches, o.src_errors, case.fault, o.plan_text
                )
            };
            match &o.end {
                StreamEnd::PlanError(m) => return done(CaseResult::discard(format!("plan error: {m}")), &mut labels),
                StreamEnd::Dropped(_) => {}
                StreamEnd::Done(rows) => {
                    let diff = if ordered {
                        sequence_diff(&expected, rows)
                    } else if let Some(full) = &full {
                        if rows.len() != expected.len() { Some(format!("expected {} rows, got {}", expected.len(), rows.len())) } else { sub_multiset(full, rows) }
                    } else {
                        multiset_diff(&expected, rows)
                    };
                    if let Some(d) = diff {
                        return done(CaseResult::violation(ctxmsg(&format!("the stream ended successfully but not with the fault-free result: {d}"), &o)), &mut labels);
                    }
                    labels.push(if reached { "ok-exact-though-reached".into() } else { "ok-exact-unreached".into() });
                    if reached && q.limit.is_none() && !q.shape.is_join() && matches!(case.fault, FaultKind::Source | FaultKind::Udf(_)) {
                        labels.push("ok-exact-though-reached-nolimit-nojoin".into());
                    }
                }
                StreamEnd::Failed { kind, rows_before, message, .. } => {
                    if message.contains("panicked") {
                        labels.push("task-panic".into());
                        return done(CaseResult::violation(ctxmsg(&format!("a task of the plan panicked instead of reporting the error: {message}"), &o)), &mut labels);
                    }
                    labels.push("error-surfaced".into());
                    if *kind != ErrKind::Injected {
                        labels.push(format!("error-without-marker-{kind:?}"));
                        if *kind == ErrKind::Other {
                            let short: String = message.chars().take(90).map(|c| if c.is_ascii_digit() { '#' } else { c }).collect();
                            labels.push(format!("other-error: {short}"));
                        }
                    }
                    if *rows_before > 0 {
                        labels.push("error-after-rows".into());
                    }
                    if !reached {
                        labels.push("error-though-unreached".into());
                    }
                }
            }
            if o.residue != (0, 0, 0) {
                labels.push("residue-after-run".into());
            }
        }
        if let Some(m) = inconclusive {
            return done(CaseResult::inconclusive(m), &mut labels);
        }
        if !reached_any {
            labels.push("no-point-reached".into());
        }
        done(CaseResult::pass().nontrivial(reached_any && !expected.is_empty()), &mut labels)
    }
    fn known_signature(&self, case: &Case) -> Option<String> {
        // Two genuine defects of NestedLoopJoinExec's out-of-memory fallback share this class (see the module
        // header): (A) the fallback re-executes the already executed left child (panic below a RepartitionExec),
        // (B) with several right partitions every partition emits its own "unmatched" left rows.
        // (C) unmatched right rows are lost in the fallback path when batch_size is small — any partitioning.
        let nlj = case.query.shape.join_algo() == Some(JoinAlgo::NestedLoop);
        if nlj && matches!(case.fault, FaultKind::MemRefuse { disk: true, .. }) {
            let multi = case.cfg.target_partitions >= 2 || case.cfg.parts_t >= 2 || case.cfg.parts_u >= 2;
            // only the still-open defect (B) is mapped; (A) and (C) are fixed in /repo and their cases run again
            return if multi { Some(SIG_LEFT_EMISSION.to_string()) } else { None };
        }
        None
    }
    fn extra(&self, _tier: Tier, _seed: u64) -> Result<serde_json::Value, (String, Case)> {
        Ok(json!({ "fault_points": FAULT_POINTS.load(Ordering::Relaxed), "fault_points_reached": REACHED_POINTS.load(Ordering::Relaxed) }))
    }
}

pub const SIG_LEFT_EMISSION: &str = "nlj-oom-fallback:left-emission-multi-partition";
pub static FAULT_POINTS: std::sync::atomic::AtomicU64 = std::sync::atomic::AtomicU64::new(0);
pub static REACHED_POINTS: std::sync::atomic::AtomicU64 = std::sync::atomic::AtomicU64::new(0);
