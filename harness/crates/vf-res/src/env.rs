//! Execution environment of one run: memory pool (optionally fault-injecting), disk manager (private spill
//! directory, quota, optionally a fault-injecting `TempFileFactory`), session, the failing UDF, and the
//! stream driver that records what the result stream did.
use crate::scripted::INJECTED;
use arrow::array::{Array, ArrayRef, Int64Array, RecordBatch};
use arrow::datatypes::DataType;
use datafusion::common::{DataFusionError, Result as DFResult, ScalarValue};
use datafusion::execution::SessionStateBuilder;
use datafusion::execution::disk_manager::{DiskManagerBuilder, DiskManagerMode};
use datafusion::execution::memory_pool::{FairSpillPool, GreedyMemoryPool, MemoryConsumer, MemoryLimit, MemoryPool, MemoryReservation, TrackConsumersPool, UnboundedMemoryPool};
use datafusion::execution::runtime_env::{RuntimeEnv, RuntimeEnvBuilder};
use datafusion::logical_expr::{ColumnarValue, ScalarFunctionArgs, ScalarUDF, ScalarUDFImpl, Signature, Volatility};
use datafusion::physical_plan::{ExecutionPlan, displayable, execute_stream};
use datafusion::prelude::{SessionConfig, SessionContext};
use datafusion::execution::{SpillFile, SpillWriter, TempFileFactory};
use futures::{Stream, StreamExt};
use serde::{Deserialize, Serialize};
use std::fmt;
use std::io::{Read, Write};
use std::num::NonZeroUsize;
use std::path::{Path, PathBuf};
use std::pin::Pin;
use std::sync::Arc;
use std::sync::atomic::{AtomicU64, AtomicUsize, Ordering};
use std::time::Duration;

#[derive(Clone, Copy, Debug, PartialEq, Eq, Serialize, Deserialize)]
pub enum PoolKind {
    Greedy,
    Fair,
}

#[derive(Clone, Copy, Debug, PartialEq, Eq, Serialize, Deserialize)]
pub enum Compression {
    Uncompressed,
    Lz4,
    Zstd,
}

impl Compression {
    pub fn option(self) -> &'static str {
        match self {
            Compression::Uncompressed => "uncompressed",
            Compression::Lz4 => "lz4_frame",
            Compression::Zstd => "zstd",
        }
    }
}

#[derive(Clone, Copy, Debug, PartialEq, Eq, Serialize, Deserialize)]
pub enum Flavor {
    CurrentThread,
    /// multi-thread runtime with 2 workers
    Multi,
}

pub fn build_tokio(f: Flavor) -> std::io::Result<tokio::runtime::Runtime> {
    match f {
        Flavor::CurrentThread => tokio::runtime::Builder::new_current_thread().enable_all().build(),
        Flavor::Multi => tokio::runtime::Builder::new_multi_thread().worker_threads(2).max_blocking_threads(8).enable_all().build(),
    }
}

// ---------------------------------------------------------------------------------------------
// fault-injecting memory pool

/// what an injected fault does once its point is reached
#[derive(Clone, Copy, Debug, PartialEq, Eq, Serialize, Deserialize)]
pub enum FaultMode {
    /// only the k-th request fails
    Once,
    /// the k-th and every later request fails
    Sticky,
}

/// Wraps a pool; `try_grow` number `fail_at` (0-based, counted over the whole run) is refused with
/// `ResourcesExhausted`. Legitimate for any `MemoryPool`: a pool may refuse any `try_grow`.
#[derive(Debug)]
pub struct FaultPool {
    inner: Arc<dyn MemoryPool>,
    pub try_grows: AtomicUsize,
    pub refused: AtomicUsize,
    fail_at: Option<usize>,
    mode: FaultMode,
}

impl FaultPool {
    pub fn new(inner: Arc<dyn MemoryPool>, fail_at: Option<usize>, mode: FaultMode) -> Self {
        FaultPool { inner, try_grows: AtomicUsize::new(0), refused: AtomicUsize::new(0), fail_at, mode }
    }
}

impl fmt::Display for FaultPool {
    fn fmt(&self, f: &mut fmt::Formatter<'_>) -> fmt::Result {
        write!(f, "FaultPool({})", self.inner)
    }
}

impl MemoryPool for FaultPool {
    fn name(&self) -> &str {
        "FaultPool"
    }
    fn register(&self, c: &MemoryConsumer) {
        self.inner.register(c)
    }
    fn unregister(&self, c: &MemoryConsumer) {
        self.inner.unregister(c)
    }
    fn grow(&self, r: &MemoryReservation, additional: usize) {
        self.inner.grow(r, additional)
    }
    fn shrink(&self, r: &MemoryReservation, shrink: usize) {
        self.inner.shrink(r, shrink)
    }
    fn try_grow(&self, r: &MemoryReservation, additional: usize) -> DFResult<()> {
        let n = self.try_grows.fetch_add(1, Ordering::SeqCst);
        if let Some(k) = self.fail_at {
            if n == k || (self.mode == FaultMode::Sticky && n > k) {
                self.refused.fetch_add(1, Ordering::SeqCst);
                return Err(DataFusionError::ResourcesExhausted(format!("{INJECTED} refusal of memory request #{n} ({additional} bytes)")));
            }
        }
        self.inner.try_grow(r, additional)
    }
    fn reserved(&self) -> usize {
        self.inner.reserved()
    }
    fn memory_limit(&self) -> MemoryLimit {
        self.inner.memory_limit()
    }
}

// ---------------------------------------------------------------------------------------------
// fault-injecting spill file factory

#[derive(Debug, Default)]
pub struct SpillFaultState {
    pub creates: AtomicUsize,
    pub writes: AtomicUsize,
    pub reads: AtomicUsize,
    pub injected: AtomicUsize,
    pub live_files: AtomicUsize,
    pub bytes_written: AtomicU64,
}

#[derive(Clone, Copy, Debug, PartialEq, Eq, Serialize, Deserialize)]
pub enum SpillFaultKind {
    /// `create_temp_file` number k fails
    Create,
    /// `write` call number k (over all spill files) fails
    Write,
    /// `read_stream` number k yields an error chunk after its first data chunk
    Read,
}

#[derive(Clone, Copy, Debug)]
pub struct SpillFault {
    pub kind: SpillFaultKind,
    pub at: usize,
    pub mode: FaultMode,
}

pub struct FaultFactory {
    dir: PathBuf,
    pub state: Arc<SpillFaultState>,
    fault: Option<SpillFault>,
}

impl FaultFactory {
    pub fn new(dir: &Path, fault: Option<SpillFault>) -> Self {
        FaultFactory { dir: dir.to_path_buf(), state: Arc::new(SpillFaultState::default()), fault }
    }
}

fn hit(fault: Option<SpillFault>, kind: SpillFaultKind, n: usize) -> bool {
    match fault {
        Some(f) if f.kind == kind => n == f.at || (f.mode == FaultMode::Sticky && n > f.at),
        _ => false,
    }
}

impl TempFileFactory for FaultFactory {
    fn create_temp_file(&self, description: &str) -> DFResult<Arc<dyn SpillFile>> {
        let n = self.state.creates.fetch_add(1, Ordering::SeqCst);
        if hit(self.fault, SpillFaultKind::Create, n) {
            self.state.injected.fetch_add(1, Ordering::SeqCst);
            return Err(DataFusionError::IoError(std::io::Error::other(format!("{INJECTED} failure creating spill file #{n} for {description}"))));
        }
        let path = self.dir.join(format!("vf-spill-{n}.arrow"));
        std::fs::File::create(&path).map_err(DataFusionError::IoError)?;
        self.state.live_files.fetch_add(1, Ordering::SeqCst);
        Ok(Arc::new(FaultFile { path, size: Arc::new(AtomicU64::new(0)), state: self.state.clone(), fault: self.fault }))
    }
}

struct FaultFile {
    path: PathBuf,
    size: Arc<AtomicU64>,
    state: Arc<SpillFaultState>,
    fault: Option<SpillFault>,
}

impl Drop for FaultFile {
    fn drop(&mut self) {
        let _ = std::fs::remove_file(&self.path);
        self.state.live_files.fetch_sub(1, Ordering::SeqCst);
    }
}

impl SpillFile for FaultFile {
    fn path(&self) -> Option<&Path> {
        Some(&self.path)
    }
    fn size(&self) -> Option<u64> {
        Some(self.size.load(Ordering::SeqCst))
    }
    fn read_stream(&self) -> DFResult<Pin<Box<dyn Stream<Item = DFResult<bytes::Bytes>> + Send>>> {
        let n = self.state.reads.fetch_add(1, Ordering::SeqCst);
        let fail = hit(self.fault, SpillFaultKind::Read, n);
        let file = std::fs::File::open(&self.path).map_err(DataFusionError::IoError)?;
        let state = self.state.clone();
        // (file, chunks delivered, done)
        let st = futures::stream::unfold((file, 0usize, false), move |(mut file, chunks, done)| {
            let state = state.clone();
            async move {
                if done {
                    return None;
                }
                if fail && chunks >= 1 {
                    state.injected.fetch_add(1, Ordering::SeqCst);
                    let e = DataFusionError::IoError(std::io::Error::other(format!("{INJECTED} failure reading spill file (read #{n})")));
                    return Some((Err(e), (file, chunks, true)));
                }
                let mut buf = vec![0u8; 16 * 1024];
                match file.read(&mut buf) {
                    Ok(0) => {
                        if fail {
                            // file shorter than one chunk: fail in place of the end
                            state.injected.fetch_add(1, Ordering::SeqCst);
                            let e = DataFusionError::IoError(std::io::Error::other(format!("{INJECTED} failure reading spill file (read #{n})")));
                            return Some((Err(e), (file, chunks, true)));
                        }
                        None
                    }
                    Ok(k) => {
                        buf.truncate(k);
                        Some((Ok(bytes::Bytes::from(buf)), (file, chunks + 1, false)))
                    }
                    Err(e) => Some((Err(DataFusionError::IoError(e)), (file, chunks, true))),
                }
            }
        });
        Ok(Box::pin(st))
    }
    fn open_writer(&self) -> DFResult<Box<dyn SpillWriter>> {
        let file = std::fs::OpenOptions::new().append(true).open(&self.path).map_err(DataFusionError::IoError)?;
        Ok(Box::new(FaultWriter { file, size: self.size.clone(), state: self.state.clone(), fault: self.fault }))
    }
}

struct FaultWriter {
    file: std::fs::File,
    size: Arc<AtomicU64>,
    state: Arc<SpillFaultState>,
    fault: Option<SpillFault>,
}

impl Write for FaultWriter {
    fn write(&mut self, buf: &[u8]) -> std::io::Result<usize> {
        if buf.is_empty() {
            return Ok(0);
        }
        let n = self.state.writes.fetch_add(1, Ordering::SeqCst);
        if hit(self.fault, SpillFaultKind::Write, n) {
            self.state.injected.fetch_add(1, Ordering::SeqCst);
            return Err(std::io::Error::other(format!("{INJECTED} spill write failure (write #{n})")));
        }
        self.file.write_all(buf)?;
        self.size.fetch_add(buf.len() as u64, Ordering::SeqCst);
        self.state.bytes_written.fetch_add(buf.len() as u64, Ordering::SeqCst);
        Ok(buf.len())
    }
    fn flush(&mut self) -> std::io::Result<()> {
        self.file.flush()
    }
}

impl SpillWriter for FaultWriter {
    fn finish(&mut self) -> DFResult<()> {
        Ok(())
    }
}

// ---------------------------------------------------------------------------------------------
// failing scalar UDF

/// `vf_fail(x BIGINT) -> BIGINT`: identity, but an input row whose value equals `fail_value` makes the
/// whole invocation fail with an `Execution` error.
#[derive(Debug)]
pub struct FailUdf {
    signature: Signature,
    fail_value: Option<i64>,
    pub state: Arc<UdfState>,
}

#[derive(Debug, Default)]
pub struct UdfState {
    pub invocations: AtomicUsize,
    pub rows: AtomicUsize,
    pub failures: AtomicUsize,
}

impl PartialEq for FailUdf {
    fn eq(&self, o: &Self) -> bool {
        self.fail_value == o.fail_value && Arc::ptr_eq(&self.state, &o.state)
    }
}
impl Eq for FailUdf {}
impl std::hash::Hash for FailUdf {
    fn hash<H: std::hash::Hasher>(&self, h: &mut H) {
        self.fail_value.hash(h)
    }
}

impl FailUdf {
    pub fn new(fail_value: Option<i64>) -> Self {
        FailUdf { signature: Signature::exact(vec![DataType::Int64], Volatility::Immutable), fail_value, state: Arc::new(UdfState::default()) }
    }
}

impl ScalarUDFImpl for FailUdf {
    fn name(&self) -> &str {
        "vf_fail"
    }
    fn signature(&self) -> &Signature {
        &self.signature
    }
    fn return_type(&self, _arg_types: &[DataType]) -> DFResult<DataType> {
        Ok(DataType::Int64)
    }
    fn invoke_with_args(&self, args: ScalarFunctionArgs) -> DFResult<ColumnarValue> {
        self.state.invocations.fetch_add(1, Ordering::SeqCst);
        let Some(arg) = args.args.into_iter().next() else {
            return Err(DataFusionError::Internal("vf_fail needs one argument".into()));
        };
        let bad = |v: i64| Some(v) == self.fail_value;
        let fail = |st: &UdfState, v: i64| {
            st.failures.fetch_add(1, Ordering::SeqCst);
            DataFusionError::Execution(format!("{INJECTED} vf_fail refuses the row with value {v}"))
        };
        match arg {
            ColumnarValue::Scalar(ScalarValue::Int64(v)) => {
                self.state.rows.fetch_add(1, Ordering::SeqCst);
                if let Some(x) = v {
                    if bad(x) {
                        return Err(fail(&self.state, x));
                    }
                }
                Ok(ColumnarValue::Scalar(ScalarValue::Int64(v)))
            }
            ColumnarValue::Array(a) => {
                let Some(ints) = a.as_any().downcast_ref::<Int64Array>() else {
                    return Err(DataFusionError::Internal(format!("vf_fail got {}", a.data_type())));
                };
                self.state.rows.fetch_add(ints.len(), Ordering::SeqCst);
                for i in 0..ints.len() {
                    if ints.is_valid(i) && bad(ints.value(i)) {
                        return Err(fail(&self.state, ints.value(i)));
                    }
                }
                Ok(ColumnarValue::Array(a as ArrayRef))
            }
            other => Err(DataFusionError::Internal(format!("vf_fail got {}", other.data_type()))),
        }
    }
}

// ---------------------------------------------------------------------------------------------
// environment

#[derive(Clone, Debug)]
pub struct EnvSpec {
    /// None = unbounded pool
    pub mem_limit: Option<usize>,
    pub pool: PoolKind,
    /// wrap in `TrackConsumersPool`
    pub track: bool,
    /// None = ample (engine default 100 GB)
    pub disk_quota: Option<u64>,
    /// false = `DiskManagerMode::Disabled`
    pub disk_enabled: bool,
    pub merge_fan_in: usize,
    /// memory fault (C20): (k, mode); with `count_only` semantics when k = usize::MAX
    pub mem_fault: Option<(usize, FaultMode)>,
    /// use the fault-injecting `TempFileFactory` (with or without a fault) instead of OS temp files
    pub spill_factory: Option<Option<SpillFault>>,
}

impl Default for EnvSpec {
    fn default() -> Self {
        EnvSpec { mem_limit: None, pool: PoolKind::Greedy, track: false, disk_quota: None, disk_enabled: true, merge_fan_in: 0, mem_fault: None, spill_factory: None }
    }
}

pub struct Env {
    pub rt: Arc<RuntimeEnv>,
    pub pool: Arc<dyn MemoryPool>,
    pub fault_pool: Option<Arc<FaultPool>>,
    pub spill_state: Option<Arc<SpillFaultState>>,
    pub dir: tempfile::TempDir,
}

impl Env {
    pub fn new(spec: &EnvSpec) -> Result<Env, String> {
        let dir = tempfile::tempdir().map_err(|e| format!("tempdir: {e}"))?;
        let base: Arc<dyn MemoryPool> = match (spec.mem_limit, spec.pool, spec.track) {
            (None, _, _) => Arc::new(UnboundedMemoryPool::default()),
            (Some(n), PoolKind::Greedy, false) => Arc::new(GreedyMemoryPool::new(n)),
            (Some(n), PoolKind::Fair, false) => Arc::new(FairSpillPool::new(n)),
            (Some(n), PoolKind::Greedy, true) => Arc::new(TrackConsumersPool::new(GreedyMemoryPool::new(n), NonZeroUsize::new(3).unwrap_or(NonZeroUsize::MIN))),
            (Some(n), PoolKind::Fair, true) => Arc::new(TrackConsumersPool::new(FairSpillPool::new(n), NonZeroUsize::new(3).unwrap_or(NonZeroUsize::MIN))),
        };
        let (pool, fault_pool): (Arc<dyn MemoryPool>, Option<Arc<FaultPool>>) = match spec.mem_fault {
            None => (base, None),
            Some((k, mode)) => {
                let fp = Arc::new(FaultPool::new(base, if k == usize::MAX { None } else { Some(k) }, mode));
                (fp.clone() as Arc<dyn MemoryPool>, Some(fp))
            }
        };
        let mut spill_state = None;
        let mut dmb = DiskManagerBuilder::default();
        if !spec.disk_enabled {
            dmb = dmb.with_mode(DiskManagerMode::Disabled);
        } else if let Some(fault) = spec.spill_factory {
            let f = FaultFactory::new(dir.path(), fault);
            spill_state = Some(f.state.clone());
            dmb = dmb.with_temp_file_factory(Arc::new(f));
        } else {
            dmb = dmb.with_mode(DiskManagerMode::Directories(vec![dir.path().to_path_buf()]));
        }
        if let Some(q) = spec.disk_quota {
            dmb = dmb.with_max_temp_directory_size(q);
        }
        if spec.merge_fan_in > 0 {
            dmb = dmb.with_max_spill_merge_fan_in(spec.merge_fan_in);
        }
        let rt = RuntimeEnvBuilder::new().with_memory_pool(pool.clone()).with_disk_manager_builder(dmb).build_arc().map_err(|e| format!("runtime env: {e}"))?;
        Ok(Env { rt, pool, fault_pool, spill_state, dir })
    }

    /// files (not directories) below the spill directory
    pub fn spill_files(&self) -> Vec<String> {
        fn walk(p: &Path, out: &mut Vec<String>) {
            if let Ok(rd) = std::fs::read_dir(p) {
                for e in rd.flatten() {
                    let path = e.path();
                    if path.is_dir() {
                        walk(&path, out);
                    } else {
                        out.push(path.display().to_string());
                    }
                }
            }
        }
        let mut out = vec![];
        walk(self.dir.path(), &mut out);
        out.sort();
        out
    }

    /// (pool bytes reserved, disk bytes accounted, spill files present)
    pub fn residue(&self) -> (usize, u64, usize) {
        (self.pool.reserved(), self.rt.disk_manager.used_disk_space(), self.spill_files().len())
    }

    pub fn context(&self, target_partitions: usize, batch_size: usize, options: &[(String, String)], udf: Option<Arc<ScalarUDF>>) -> Result<SessionContext, String> {
        let mut cfg = SessionConfig::new().with_target_partitions(target_partitions.max(1)).with_batch_size(batch_size.max(1)).with_information_schema(false);
        for (k, v) in options {
            cfg.options_mut().set(k, v).map_err(|e| format!("option {k}={v}: {e}"))?;
        }
        let state = SessionStateBuilder::new().with_config(cfg).with_runtime_env(self.rt.clone()).with_default_features().build();
        let ctx = SessionContext::new_with_state(state);
        if let Some(u) = udf {
            ctx.register_udf(u.as_ref().clone());
        }
        Ok(ctx)
    }
}

// ---------------------------------------------------------------------------------------------
// stream driver

#[derive(Clone, Debug, PartialEq, Eq)]
pub enum ErrKind {
    ResourcesExhausted,
    /// the disk quota message of `FileSpillWriter` (an `IoError`)
    DiskQuota,
    /// carries the `vf-injected` marker
    Injected,
    Other,
}

#[derive(Debug)]
pub enum StreamEnd {
    /// planning failed (before any execution)
    PlanError(String),
    /// the stream ended with `None`; all rows
    Done(Vec<String>),
    /// dropped on purpose after k batches
    Dropped(usize),
    /// the stream yielded an error
    #[allow(dead_code)]
    Failed { kind: ErrKind, message: String, rows_before: usize, items_after: usize, ended: bool },
}

pub struct Run {
    pub outcome: StreamEnd,
    pub spill_count: usize,
    pub spilled_bytes: usize,
    pub plan_text: String,
    /// residue measured right after the stream (and the plan) were dropped, before any settling
    pub residue_at_drop: (usize, u64, usize),
    /// what was held just before a deliberate drop (`drop_after`); zeros otherwise
    pub held_at_drop: (usize, u64, usize),
}

pub fn classify(e: &DataFusionError) -> ErrKind {
    let msg = e.to_string();
    if msg.contains(INJECTED) {
        return ErrKind::Injected;
    }
    if matches!(e.find_root(), DataFusionError::ResourcesExhausted(_)) {
        return ErrKind::ResourcesExhausted;
    }
    if msg.contains("exceeded the allowable limit") && msg.contains("max_temp_directory_size") {
        return ErrKind::DiskQuota;
    }
    ErrKind::Other
}

fn sum_metric(plan: &Arc<dyn ExecutionPlan>, f: &dyn Fn(&datafusion::physical_plan::metrics::MetricsSet) -> Option<usize>) -> usize {
    let mut total = plan.metrics().and_then(|m| f(&m)).unwrap_or(0);
    for c in plan.children() {
        total += sum_metric(c, f);
    }
    total
}

/// Plan `sql`, execute it as one stream, pull it to its end (or drop it after `drop_after` batches),
/// keep polling after an error (at most `max_after_error` more items) to see whether the stream ends.
pub async fn drive(env: &Env, ctx: &SessionContext, sql: &str, drop_after: Option<usize>, max_after_error: usize) -> Run {
    let plan_err = |m: String| Run { outcome: StreamEnd::PlanError(m), spill_count: 0, spilled_bytes: 0, plan_text: String::new(), residue_at_drop: (0, 0, 0), held_at_drop: (0, 0, 0) };
    let df = match ctx.sql(sql).await {
        Ok(d) => d,
        Err(e) => return plan_err(format!("logical: {e}")),
    };
    let plan = match df.create_physical_plan().await {
        Ok(p) => p,
        Err(e) => return plan_err(format!("physical: {e}")),
    };
    let plan_text = displayable(plan.as_ref()).indent(false).to_string();
    let mut batches: Vec<RecordBatch> = vec![];
    let mut nb = 0usize;
    let mut held_at_drop = (0, 0, 0);
    let outcome;
    match execute_stream(plan.clone(), ctx.task_ctx()) {
        Err(e) => {
            outcome = StreamEnd::Failed { kind: classify(&e), message: vf_kit::engine::truncate(&e.to_string(), 600), rows_before: 0, items_after: 0, ended: true };
        }
        Ok(mut stream) => {
            let mut o = None;
            loop {
                if let Some(k) = drop_after {
                    if nb >= k {
                        held_at_drop = env.residue();
                        o = Some(StreamEnd::Dropped(nb));
                        break;
                    }
                }
                match stream.next().await {
                    None => break,
                    Some(Ok(b)) => {
                        nb += 1;
                        batches.push(b);
                    }
                    Some(Err(e)) => {
                        let kind = classify(&e);
                        let message = vf_kit::engine::truncate(&e.to_string(), 600);
                        let rows_before = batches.iter().map(|b| b.num_rows()).sum();
                        let mut items_after = 0;
                        let mut ended = false;
                        for _ in 0..max_after_error {
                            match stream.next().await {
                                None => {
                                    ended = true;
                                    break;
                                }
                                Some(_) => items_after += 1,
                            }
                        }
                        o = Some(StreamEnd::Failed { kind, message, rows_before, items_after, ended });
                        break;
                    }
                }
            }
            drop(stream);
            outcome = match o {
                Some(o) => o,
                None => match crate::data::rows_of(&batches) {
                    Ok(r) => StreamEnd::Done(r),
                    Err(m) => StreamEnd::PlanError(format!("cannot render result: {m}")),
                },
            };
        }
    }
    drop(batches);
    let spill_count = sum_metric(&plan, &|m| m.spill_count());
    let spilled_bytes = sum_metric(&plan, &|m| m.spilled_bytes());
    drop(plan);
    let residue_at_drop = env.residue();
    Run { outcome, spill_count, spilled_bytes, plan_text, residue_at_drop, held_at_drop }
}

/// Give aborted background tasks a bounded chance to unwind: poll the residue every millisecond for at
/// most `max_ms`. Returns the last residue.
pub async fn settle(env: &Env, max_ms: u64) -> (usize, u64, usize) {
    let mut r = env.residue();
    let mut waited = 0;
    while r != (0, 0, 0) && waited < max_ms {
        for _ in 0..50 {
            tokio::task::yield_now().await;
        }
        tokio::time::sleep(Duration::from_millis(1)).await;
        waited += 1;
        r = env.residue();
    }
    r
}
