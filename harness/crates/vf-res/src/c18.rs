//! C18 — memory-limited queries are exact or fail cleanly, and release everything.
//!
//! **Case** = generated tables (`data.rs`: 2 000–20 000 rows of `t`, strings of 8–200 characters, a smaller
//! `u`) × one query shape of the mini grammar (`query.rs`: filter/projection, sort, TopK, hash aggregate with
//! many / string / few groups, DISTINCT, count(DISTINCT), hash (collect-left and partitioned) / sort-merge /
//! nested-loop joins of every join type, windows, UNION ALL, aggregate over join; optional ORDER BY wrapper
//! and LIMIT) × a session configuration (batch_size, target_partitions, MemTable batch rows / partitions,
//! spill compression, `max_spill_file_size_bytes`, `sort_spill_reservation_bytes`,
//! `sort_in_place_threshold_bytes`, `max_spill_merge_fan_in`, Greedy / FairSpill pool with or without
//! `TrackConsumersPool`, current-thread / 2-worker runtime, disk quota ample or tiny) × 3–5 memory limits
//! log-spaced (half octaves) in 16 KiB … 64 MiB. In half of the cases every limited run is *dropped* after
//! k batches instead of being drained.
//!
//! **Oracle** (per limit): the drained stream gives exactly the rows of the same query under the same
//! session configuration with an unbounded pool (sequence when the query is totally ordered, multiset
//! otherwise; an un-ordered LIMIT n must give min(n, |full|) rows that form a sub-multiset of the un-LIMITed
//! result) — or an error whose `find_root()` is `ResourcesExhausted` (with a tiny disk quota also the
//! quota message of `FileSpillWriter`, which is an `IoError` carrying the text "exceeded the allowable
//! limit … max_temp_directory_size": exhaustion of the configured spill-disk budget is the resource
//! exhaustion the statement allows). Any other error, a panic (engine) or a different result is a violation.
//! After the stream (finished, failed or dropped after k batches) and the plan are dropped:
//! `pool.reserved() == 0`, `disk_manager.used_disk_space() == 0`, no file below the private spill directory
//! (`DiskManagerMode::Directories`). Background tasks are aborted asynchronously, so the residue is polled
//! for up to 2 s; what is still held then is re-checked after the tokio runtime has been shut down: only a
//! residue that survives the runtime (no task can still be unwinding) is a violation; one that needed the
//! shutdown is reported `inconclusive` (that latency is C19's subject). 60 s per run → inconclusive.
//!
//! **Non-trivial**: some limited run spilled (`spill_count > 0` summed over the plan's metrics) and
//! succeeded with the exact result, or failed with ResourcesExhausted while a larger limit of the same case
//! succeeded; for dropped runs: the run held pool memory or spill files at the moment of the drop.
//!
//! Deviations from DESIGN.md: lives in `vf-res` (not vf-core); own mini grammar instead of the C01
//! generator; the reference run uses the *same* session configuration (only the pool / disk limits differ),
//! so that plan-variant differences (C02's subject) cannot be blamed on the memory limit.
//!
//! **Sensitivity probes** (patches in `crates/vf-res/probes/`, run with `tools/mutrun <patch> -- ./check C18
//! quick`; all on VERIF_SEED=0):
//! * `c18-p1-sort-drops-single-batch-remainder.diff` — `ExternalSorter::sort` spills the in-memory remainder
//!   only when it holds more than one batch (a one-batch remainder is lost) → VIOLATION after 12 evaluations
//!   ("result under the memory limit differs from the unlimited result (spill_count=1): expected 9600 rows,
//!   got 9566", sort-merge join over spilling sorts).
//! * `c18-p2-sort-forgets-merge-reservation-on-error.diff` — on the out-of-memory error path of
//!   `reserve_memory_for_batch_and_maybe_spill` the merge reservation is `mem::forget`-ed → VIOLATION after 46
//!   evaluations ("resources not released: (4096, 0, 0) after the stream (failed with ResourcesExhausted…), the
//!   plan and the tokio runtime were dropped" — exactly `sort_spill_reservation_bytes` of the case).
//! * `c18-p3-spill-file-leaked-arc.diff` — `InProgressSpillFile::finish` leaks one `Arc` of the finished spill
//!   file → VIOLATION ("resources not released: (0, 223568, 4)": disk bytes accounted and 4 files left).
//!
//! **Genuine defects** (both in `NestedLoopJoinExec`'s out-of-memory fallback, found through C20 and
//! reproduced here with a plain 16 KiB GreedyMemoryPool over MemTables; details in c20.rs): (A) the fallback
//! re-executes the already executed left child → task panic "partition not used yet" when a RepartitionExec
//! is below it (fix /verif/fixes/C20-nlj-fallback-reexecutes-left-child.diff); (B) with several right
//! partitions LEFT / LEFT SEMI / LEFT ANTI / LEFT MARK joins emit "unmatched" left rows per partition →
//! wrong result under the memory limit (regression case
//! /verif/regressions/C18/c18/nlj-fallback-multi-partition-left-emission.json: `t RIGHT JOIN u`, expected 1832
//! rows, got 1871; fix /verif/fixes/C05-nlj-spill-fallback-multi-partition.diff, the same guard as found through C05); (C) found by this
//! check's thorough tier: with a single partition everywhere and batch_size 32 / 64 the fallback of an NLJ
//! `join_type=Right` loses every unmatched right row (regression case
//! /verif/regressions/C18/c18/nlj-fallback-right-unmatched-lost.json: `t LEFT JOIN u`, 128 KiB pool, expected
//! 2681 rows, got 1317; correct with batch_size ≥ 1024; same defect and root-cause fix as
//! /verif/fixes/C05-nlj-spill-fallback-right-emission.diff of the vf-join crate). Until the fixes are committed every
//! nested-loop-join case was excluded. Final tree: (A) and (C) are fixed in /repo (their cases run as plain regressions);
//! only (B) is open and only nested-loop cases with more than one partition are excluded, under
//! `nlj-oom-fallback:left-emission-multi-partition` (`known_signature` maps OPEN findings only).
//!
//! Oracle correction (seed 21): an un-ordered LIMIT answer that is not within the un-LIMITed result is re-tried
//! without a memory limit; when the unbounded run misbehaves the same way the case is `inconclusive` — the
//! window-limit pushdown (`SortExec: TopK(fetch=n+2)` below a window with a FOLLOWING frame, hash repartition
//! above) returns window values computed on the truncated input with any amount of memory (C01's subject).
use crate::data::{DataSpec, Which, multiset_diff, sequence_diff, sub_multiset};
use crate::env::*;
use crate::query::*;
use arrow::array::RecordBatch;
use datafusion::catalog::MemTable;
use proptest::prelude::*;
use serde::{Deserialize, Serialize};
use std::sync::Arc;
use std::time::Duration;
use vf_kit::engine::*;

pub struct C18;

#[derive(Clone, Debug, Serialize, Deserialize)]
pub struct Cfg {
    pub batch_size: u32,
    pub target_partitions: u8,
    /// rows per MemTable batch
    pub batch_rows: u32,
    pub mem_partitions: u8,
    pub compression: Compression,
    /// None = engine default (128 MiB)
    pub max_spill_file_size: Option<u32>,
    /// None = engine default (10 MiB)
    pub sort_spill_reservation: Option<u32>,
    /// None = engine default (1 MiB)
    pub sort_in_place_threshold: Option<u32>,
    pub merge_fan_in: u8,
    pub pool: PoolKind,
    pub track: bool,
    pub flavor: Flavor,
    /// None = ample; Some(bytes) = tiny quota
    pub disk_quota: Option<u32>,
}

#[derive(Clone, Debug, Serialize, Deserialize)]
pub struct Case {
    pub data: DataSpec,
    pub query: QuerySpec,
    pub cfg: Cfg,
    /// memory limits as half-octave steps above 16 KiB (0 → 16 KiB, 24 → 64 MiB), ascending
    pub limit_steps: Vec<u8>,
    /// Some(k): every limited run is dropped after k batches instead of being drained
    pub drop_after: Option<u8>,
}

pub fn limit_bytes(step: u8) -> usize {
    let s = step.min(24) as u32;
    let base = 16usize * 1024 << (s / 2);
    if s % 2 == 1 { base + base / 2 - base / 12 } else { base } // ×1.41 ≈ half octave
}

pub fn pick<T: Clone + std::fmt::Debug + 'static>(v: Vec<T>) -> prop::sample::Select<T> {
    prop::sample::select(v)
}

pub fn shape_strategy() -> BoxedStrategy<Shape> {
    let jk = pick(vec![JoinKind::Inner, JoinKind::Left, JoinKind::Right, JoinKind::Full, JoinKind::Semi, JoinKind::Anti]);
    let ja = pick(vec![JoinAlgo::Hash, JoinAlgo::HashPartitioned, JoinAlgo::SortMerge, JoinAlgo::SortMerge, JoinAlgo::NestedLoop]);
    let gb = pick(vec![GroupBy::K, GroupBy::S, GroupBy::KG, GroupBy::G]);
    let wf = pick(vec![WinFn::RowNumber, WinFn::RunningSum, WinFn::Lag, WinFn::Rank, WinFn::MovingSum]);
    prop_oneof![
        1 => (0u8..10).prop_map(|m| Shape::Scan { filter_mod: m }),
        4 => (any::<bool>(), any::<bool>()).prop_map(|(by_str, desc)| Shape::Sort { by_str, desc }),
        4 => (gb.clone(), any::<bool>()).prop_map(|(by, strs)| Shape::Agg { by, strs }),
        2 => gb.prop_map(|by| Shape::Distinct { by }),
        5 => (jk, ja.clone(), any::<bool>()).prop_map(|(kind, algo, filter)| Shape::Join { kind, algo, filter }),
        3 => (wf, any::<bool>()).prop_map(|(f, part)| Shape::Window { f, part }),
        1 => Just(Shape::Union),
        2 => ja.prop_map(|algo| Shape::AggJoin { algo }),
        1 => Just(Shape::CountDistinct),
    ]
    .boxed()
}

fn cfg_strategy() -> impl Strategy<Value = Cfg> {
    (
        (pick(vec![32u32, 256, 1024, 8192]), pick(vec![1u8, 1, 2, 4]), pick(vec![100u32, 512, 2048, 8192]), pick(vec![1u8, 1, 2, 3])),
        (
            pick(vec![Compression::Uncompressed, Compression::Uncompressed, Compression::Lz4, Compression::Zstd]),
            pick(vec![None, None, Some(4096u32), Some(65536), Some(1 << 20)]),
            pick(vec![None, Some(1024u32), Some(4096), Some(16 * 1024), Some(16 * 1024), Some(64 * 1024), Some(64 * 1024), Some(256 * 1024), Some(1 << 20)]),
            pick(vec![None, None, Some(0u32), Some(64 * 1024)]),
            pick(vec![0u8, 0, 2, 3, 8]),
        ),
        (pick(vec![PoolKind::Greedy, PoolKind::Fair]), any::<bool>(), pick(vec![Flavor::CurrentThread, Flavor::CurrentThread, Flavor::Multi])),
        pick(vec![None, None, None, None, None, None, None, None, None, Some(2048u32), Some(64 * 1024)]),
    )
        .prop_map(|((batch_size, target_partitions, batch_rows, mem_partitions), (compression, max_spill_file_size, sort_spill_reservation, sort_in_place_threshold, merge_fan_in), (pool, track, flavor), disk_quota)| Cfg {
            batch_size,
            target_partitions,
            batch_rows,
            mem_partitions,
            compression,
            max_spill_file_size,
            sort_spill_reservation,
            sort_in_place_threshold,
            merge_fan_in,
            pool,
            track,
            flavor,
            disk_quota,
        })
}

fn data_strategy(tier: Tier) -> impl Strategy<Value = DataSpec> {
    let max_rows = tier.pick(20_000u32, 20_000u32);
    (2_000u32..=max_rows, 50u32..2_000, any::<u32>(), pick(vec![8u16, 24, 60, 120, 200]), 0u8..25).prop_map(|(rows_t, rows_u, seed, str_len, null_pct)| DataSpec {
        rows_t,
        rows_u,
        seed,
        // at most ~4 matches per probe row in equi joins
        key_card: (rows_u / 3).max(20),
        str_len,
        null_pct,
    })
}

impl Cfg {
    pub fn options(&self, q: &QuerySpec) -> Vec<(String, String)> {
        let mut o = q.options();
        let mut set = |k: &str, v: String| o.push((format!("datafusion.execution.{k}"), v));
        set("spill_compression", self.compression.option().to_string());
        if let Some(v) = self.max_spill_file_size {
            set("max_spill_file_size_bytes", v.max(1).to_string());
        }
        if let Some(v) = self.sort_spill_reservation {
            set("sort_spill_reservation_bytes", v.to_string());
        }
        if let Some(v) = self.sort_in_place_threshold {
            set("sort_in_place_threshold_bytes", v.to_string());
        }
        o
    }
}

struct Tables {
    t: (arrow::datatypes::SchemaRef, Vec<Vec<RecordBatch>>),
    u: Option<(arrow::datatypes::SchemaRef, Vec<Vec<RecordBatch>>)>,
}

fn register(ctx: &datafusion::prelude::SessionContext, tb: &Tables) -> Result<(), String> {
    let t = MemTable::try_new(tb.t.0.clone(), tb.t.1.clone()).map_err(|e| e.to_string())?;
    ctx.register_table("t", Arc::new(t)).map_err(|e| e.to_string())?;
    if let Some(u) = &tb.u {
        let m = MemTable::try_new(u.0.clone(), u.1.clone()).map_err(|e| e.to_string())?;
        ctx.register_table("u", Arc::new(m)).map_err(|e| e.to_string())?;
    }
    Ok(())
}

enum RunEnd {
    Finished { run: Run, held_at_drop: (usize, u64, usize), residue_settled: (usize, u64, usize), residue_final: (usize, u64, usize) },
    Timeout,
    Setup(String),
}

/// one execution of `sql` in a fresh runtime + environment
fn one_run(case: &Case, tb: &Tables, spec: &EnvSpec, sql: &str, drop_after: Option<usize>) -> RunEnd {
    let rt = match build_tokio(case.cfg.flavor) {
        Ok(r) => r,
        Err(e) => return RunEnd::Setup(format!("tokio: {e}")),
    };
    let env = match Env::new(spec) {
        Ok(e) => e,
        Err(m) => return RunEnd::Setup(m),
    };
    let ctx = match env.context(case.cfg.target_partitions as usize, case.cfg.batch_size as usize, &case.cfg.options(&case.query), None) {
        Ok(c) => c,
        Err(m) => return RunEnd::Setup(m),
    };
    if let Err(m) = register(&ctx, tb) {
        return RunEnd::Setup(m);
    }
    let r = rt.block_on(async {
        let fut = async {
            let run = drive(&env, &ctx, sql, drop_after, 0).await;
            let settled = if run.residue_at_drop == (0, 0, 0) { (0, 0, 0) } else { settle(&env, 2000).await };
            (run, settled)
        };
        tokio::time::timeout(Duration::from_secs(60), fut).await.ok()
    });
    drop(ctx);
    rt.shutdown_timeout(Duration::from_secs(5));
    match r {
        None => RunEnd::Timeout,
        Some((run, settled)) => {
            let held = run.held_at_drop;
            let fin = env.residue();
            RunEnd::Finished { run, held_at_drop: held, residue_settled: settled, residue_final: fin }
        }
    }
}

impl Property for C18 {
    type Case = Case;
    fn id(&self) -> &'static str {
        "C18"
    }
    fn sub(&self) -> &'static str {
        "c18"
    }
    fn strategy(&self, tier: Tier) -> BoxedStrategy<Case> {
        (
            data_strategy(tier),
            (shape_strategy(), prop::bool::weighted(0.3), prop::option::weighted(0.25, 1u32..3000)),
            cfg_strategy(),
            prop::collection::btree_set(prop_oneof![3 => 4u8..=16, 1 => 0u8..=24], 3..=5),
            prop::option::weighted(0.5, 0u8..6),
        )
            .prop_map(|(data, (shape, order, limit), cfg, steps, drop_after)| Case { data, query: QuerySpec { shape, order, limit }, cfg, limit_steps: steps.into_iter().collect(), drop_after })
            .boxed()
    }
    fn budget(&self, tier: Tier) -> Budget {
        Budget::new(tier.pick(104, 8_000), tier.pick(8, 16)).min_nontrivial(tier.pick(15, 1_000)).case_timeout(600).shrink(40, 120)
    }
    fn rule(&self) -> String {
        "generated tables (2k-20k rows, strings 8-200 chars) x one query shape (sort/TopK/agg/distinct/hash,SMJ,NL joins/window/union/scan) x session config (batch_size, partitions, spill codec, \
         spill file size, sort reservation, fan-in, Greedy/Fair pool, runtime flavour, disk quota) x 3-5 memory limits in 16KiB..64MiB; non-trivial = a limited run spilled and gave the exact result, or \
         failed with ResourcesExhausted while a larger limit succeeded, or (drop cases) held memory/spill files when dropped; distinct by case JSON"
            .into()
    }
    fn assumptions(&self) -> Vec<String> {
        vec![
            "the unlimited run of the same query under the same session configuration is the reference (its own correctness is C01/C02's subject)".into(),
            "the disk-quota message of FileSpillWriter (an IoError) counts as resource exhaustion when a tiny quota is part of the case".into(),
            "a residue that disappears only once the tokio runtime is shut down is reported inconclusive, not a violation (task-abort latency is C19's subject)".into(),
        ]
    }
    fn known_signature(&self, case: &Case) -> Option<String> {
        let nlj = case.query.shape.join_algo() == Some(JoinAlgo::NestedLoop);
        if nlj {
            // only the still-open defect is mapped (the right-emission and left-child defects are fixed in /repo)
            let multi = case.cfg.target_partitions >= 2 || case.cfg.mem_partitions >= 2;
            return if multi { Some(crate::c20::SIG_LEFT_EMISSION.to_string()) } else { None };
        }
        None
    }
    fn run(&self, case: &Case) -> CaseResult {
        let q = &case.query;
        let cfg = &case.cfg;
        if case.limit_steps.is_empty() || case.data.rows_t == 0 {
            return CaseResult::discard("empty case");
        }
        let tb = {
            let t = match case.data.partitions(Which::T, cfg.batch_rows as usize, cfg.mem_partitions as usize) {
                Ok(p) => p,
                Err(m) => return CaseResult::discard(format!("data: {m}")),
            };
            let u = if q.shape.uses_u() {
                match case.data.partitions(Which::U, cfg.batch_rows as usize, 1) {
                    Ok(p) => Some((crate::data::schema(Which::U), p)),
                    Err(m) => return CaseResult::discard(format!("data: {m}")),
                }
            } else {
                None
            };
            Tables { t: (crate::data::schema(Which::T), t), u }
        };
        let ordered = q.totally_ordered();
        let sub_limit = q.limit.is_some() && !ordered;
        let sql = q.sql(None, true);
        let ref_sql = q.sql(None, !sub_limit);
        let mut labels: Vec<String> = vec![
            format!("shape={}", q.shape.label()),
            format!("class={}", q.shape.class()),
            format!("pool={:?}{}", cfg.pool, if cfg.track { "+track" } else { "" }),
            format!("codec={:?}", cfg.compression),
            format!("flavor={:?}", cfg.flavor),
            format!("partitions={}", cfg.target_partitions),
        ];
        if q.limit.is_some() {
            labels.push(if ordered { "limit-ordered".into() } else { "limit-unordered".into() });
        }
        if cfg.disk_quota.is_some() {
            labels.push("tiny-disk-quota".into());
        }
        if case.drop_after.is_some() {
            labels.push("drop-case".into());
        }
        let done = |r: CaseResult, labels: &Vec<String>| r.labels(labels.iter().cloned());

        // reference: unbounded pool, ample disk
        let reference = match one_run(case, &tb, &EnvSpec::default(), &ref_sql, None) {
            RunEnd::Setup(m) => return done(CaseResult::discard(format!("setup: {m}")), &labels),
            RunEnd::Timeout => return done(CaseResult::inconclusive("reference run timed out"), &labels),
            RunEnd::Finished { run, residue_final, .. } => {
                if residue_final != (0, 0, 0) {
                    return done(CaseResult::violation(format!("unlimited run of `{ref_sql}` left (pool bytes, disk bytes, spill files) = {residue_final:?} behind after stream, plan and runtime were dropped")), &labels);
                }
                match run.outcome {
                    StreamEnd::Done(rows) => rows,
                    StreamEnd::PlanError(m) => return done(CaseResult::discard(format!("plan error: {m}")), &labels),
                    StreamEnd::Failed { message, .. } => return done(CaseResult::inconclusive(format!("reference run failed: {message}")), &labels),
                    StreamEnd::Dropped(_) => return done(CaseResult::discard("reference dropped"), &labels),
                }
            }
        };
        let expected: Vec<String> = match (q.limit, ordered) {
            (Some(l), true) => reference.iter().take(l as usize).cloned().collect(),
            _ => reference.clone(),
        };
        let expected_count = match q.limit {
            Some(l) => reference.len().min(l as usize),
            None => reference.len(),
        };

        let mut nontrivial = false;
        let mut failed_re_at: Option<usize> = None; // smallest index that failed with RE
        let mut any_ok_after_fail = false;
        let mut inconclusive: Option<String> = None;
        for (i, step) in case.limit_steps.iter().enumerate() {
            let limit = limit_bytes(*step);
            let spec = EnvSpec {
                mem_limit: Some(limit),
                pool: cfg.pool,
                track: cfg.track,
                disk_quota: cfg.disk_quota.map(|q| q as u64),
                disk_enabled: true,
                merge_fan_in: cfg.merge_fan_in as usize,
                mem_fault: None,
                spill_factory: None,
            };
            let ctxmsg = |what: &str| format!("{what}\n  query: {sql}\n  memory limit {limit} bytes ({:?}{}), config {:?}", cfg.pool, if cfg.track { "+track" } else { "" }, cfg);
            match one_run(case, &tb, &spec, &sql, case.drop_after.map(|k| k as usize)) {
                RunEnd::Setup(m) => return done(CaseResult::discard(format!("setup: {m}")), &labels),
                RunEnd::Timeout => {
                    inconclusive = Some(format!("run timed out (60 s) at limit step {step}"));
                    labels.push("timeout".into());
                    continue;
                }
                RunEnd::Finished { run, held_at_drop, residue_settled, residue_final } => {
                    if run.residue_at_drop != (0, 0, 0) {
                        labels.push("late-release".into());
                    }
                    if residue_final != (0, 0, 0) {
                        return done(
                            CaseResult::violation(ctxmsg(&format!(
                                "resources not released: (pool bytes reserved, disk bytes accounted, spill files) = {residue_final:?} after the stream ({}) , the plan and the tokio runtime were dropped (at drop: {:?})\n  plan:\n{}",
                                describe(&run.outcome),
                                run.residue_at_drop,
                                run.plan_text
                            ))),
                            &labels,
                        );
                    }
                    if residue_settled != (0, 0, 0) {
                        inconclusive = Some(format!("residue {residue_settled:?} 2 s after the drop disappeared only with the runtime shutdown"));
                    }
                    if run.spill_count > 0 {
                        labels.push("spilled".into());
                    }
                    match &run.outcome {
                        StreamEnd::PlanError(m) => return done(CaseResult::discard(format!("plan error: {m}")), &labels),
                        StreamEnd::Dropped(k) => {
                            labels.push(format!("dropped-after={k}"));
                            if held_at_drop != (0, 0, 0) || run.spill_count > 0 {
                                labels.push("dropped-holding".into());
                                nontrivial = true;
                            }
                        }
                        StreamEnd::Done(rows) => {
                            let diff = if ordered {
                                sequence_diff(&expected, rows)
                            } else if sub_limit {
                                if rows.len() != expected_count { Some(format!("expected {expected_count} rows, got {}", rows.len())) } else { sub_multiset(&reference, rows) }
                            } else {
                                multiset_diff(&expected, rows)
                            };
                            if let (Some(_), true) = (&diff, sub_limit) {
                                // An un-ordered LIMIT answer outside the un-LIMITed result can only be blamed on the
                                // memory limit if the same LIMIT query answers correctly without one (seed 21: the
                                // window-limit pushdown gives such rows with any amount of memory — C01's subject).
                                let mut independent = false;
                                for _ in 0..2 {
                                    if let RunEnd::Finished { run: r2, .. } = one_run(case, &tb, &EnvSpec::default(), &sql, None) {
                                        if let StreamEnd::Done(rows2) = &r2.outcome {
                                            if rows2.len() != expected_count || sub_multiset(&reference, rows2).is_some() {
                                                independent = true;
                                                break;
                                            }
                                        }
                                    }
                                }
                                if independent {
                                    labels.push("limit-defect-independent-of-memory".into());
                                    return done(CaseResult::inconclusive("un-ordered LIMIT answer is outside the un-LIMITed result even without a memory limit (not C18's subject)"), &labels);
                                }
                            }
                            if let Some(d) = diff {
                                return done(CaseResult::violation(ctxmsg(&format!("result under the memory limit differs from the unlimited result (spill_count={}): {d}\n  plan:\n{}", run.spill_count, run.plan_text))), &labels);
                            }
                            if run.spill_count > 0 {
                                labels.push("spilled-ok".into());
                                nontrivial = true;
                            } else {
                                labels.push("ok-nospill".into());
                            }
                            if failed_re_at.is_some() {
                                any_ok_after_fail = true;
                            }
                        }
                        StreamEnd::Failed { kind, message, .. } => match kind {
                            ErrKind::ResourcesExhausted => {
                                labels.push("fail-resources-exhausted".into());
                                if failed_re_at.is_none() {
                                    failed_re_at = Some(i);
                                }
                            }
                            ErrKind::DiskQuota if cfg.disk_quota.is_some() => {
                                labels.push("fail-disk-quota".into());
                            }
                            _ => {
                                return done(CaseResult::violation(ctxmsg(&format!("query failed under the memory limit with an error whose root cause is not resource exhaustion: {message}\n  plan:\n{}", run.plan_text))), &labels);
                            }
                        },
                    }
                }
            }
        }
        if any_ok_after_fail {
            labels.push("fail-then-larger-ok".into());
            nontrivial = true;
        }
        labels.sort();
        labels.dedup();
        if let Some(m) = inconclusive {
            return done(CaseResult::inconclusive(m), &labels);
        }
        done(CaseResult::pass().nontrivial(nontrivial), &labels)
    }
}

fn describe(o: &StreamEnd) -> String {
    match o {
        StreamEnd::PlanError(_) => "plan error".into(),
        StreamEnd::Done(r) => format!("drained, {} rows", r.len()),
        StreamEnd::Dropped(k) => format!("dropped after {k} batches"),
        StreamEnd::Failed { kind, rows_before, .. } => format!("failed with {kind:?} after {rows_before} rows"),
    }
}
