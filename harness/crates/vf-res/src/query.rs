//! A mini query grammar: plain-data query shapes rendered to SQL text plus the session options that
//! select the physical operator (join algorithm, partitioned vs collect-left hash join).
//!
//! Every shape is deterministic as a multiset over the tables of `data.rs` (integer aggregates only;
//! window ORDER BY keys end in the unique `id`). `order = true` wraps the query in `ORDER BY <all output
//! columns>` which makes the row *sequence* deterministic (ties are identical rows).
use serde::{Deserialize, Serialize};

#[derive(Clone, Copy, Debug, Serialize, Deserialize, PartialEq, Eq)]
pub enum JoinKind {
    Inner,
    Left,
    Right,
    Full,
    Semi,
    Anti,
}

#[derive(Clone, Copy, Debug, Serialize, Deserialize, PartialEq, Eq)]
pub enum JoinAlgo {
    /// optimizer's choice with statistics (usually CollectLeft for the small side)
    Hash,
    /// `hash_join_single_partition_threshold{,_rows} = 0` → partitioned hash join behind repartitions
    HashPartitioned,
    /// `prefer_hash_join = false`
    SortMerge,
    /// non-equi ON condition
    NestedLoop,
}

#[derive(Clone, Copy, Debug, Serialize, Deserialize, PartialEq, Eq)]
pub enum GroupBy {
    /// many integer groups
    K,
    /// string groups (as many as distinct `s`)
    S,
    /// two keys
    KG,
    /// 8 groups
    G,
}

impl GroupBy {
    fn cols(self) -> &'static str {
        match self {
            GroupBy::K => "k",
            GroupBy::S => "s",
            GroupBy::KG => "k, g",
            GroupBy::G => "g",
        }
    }
}

#[derive(Clone, Copy, Debug, Serialize, Deserialize, PartialEq, Eq)]
pub enum WinFn {
    RowNumber,
    RunningSum,
    Lag,
    Rank,
    /// sliding ROWS frame
    MovingSum,
}

#[derive(Clone, Debug, Serialize, Deserialize, PartialEq, Eq)]
pub enum Shape {
    /// `SELECT id, k, v + 1, s FROM t [WHERE v % 10 < m]`
    Scan { filter_mod: u8 },
    /// `SELECT id, k, s FROM t ORDER BY (s | v) [DESC], id` — totally ordered by itself
    Sort { by_str: bool, desc: bool },
    /// `SELECT <by>, count(*), sum(v), min(v) [, min(s), max(s)] FROM t GROUP BY <by>`
    Agg { by: GroupBy, strs: bool },
    /// `SELECT DISTINCT <by> FROM t`
    Distinct { by: GroupBy },
    /// `SELECT t.id, t.s, u.id2, u.w, u.s2 FROM t JOIN u ON …`
    Join { kind: JoinKind, algo: JoinAlgo, filter: bool },
    /// `SELECT id, g, <window fn> OVER ([PARTITION BY g] ORDER BY …) FROM t`
    Window { f: WinFn, part: bool },
    /// `SELECT id, s FROM t UNION ALL SELECT id2, s2 FROM u`
    Union,
    /// `SELECT u.k, count(*), sum(t.v) FROM t JOIN u ON t.k = u.k GROUP BY u.k`
    AggJoin { algo: JoinAlgo },
    /// `SELECT count(DISTINCT k), count(DISTINCT s), sum(v) FROM t`
    CountDistinct,
}

/// where the failing UDF `vf_fail` is placed (C20 only)
#[derive(Clone, Copy, Debug, Serialize, Deserialize, PartialEq, Eq)]
pub enum UdfSite {
    /// `FROM (SELECT * FROM t WHERE vf_fail(id) >= 0) t`
    Filter,
    /// `FROM (SELECT vf_fail(id) AS id, k, g, v, s FROM t) t`
    Projection,
    /// extra conjunct of the join's ON condition referencing both sides
    JoinFilter,
    /// `sum(vf_fail(id))` as an extra aggregate
    AggArg,
}

#[derive(Clone, Debug, Serialize, Deserialize, PartialEq, Eq)]
pub struct QuerySpec {
    pub shape: Shape,
    /// wrap in ORDER BY all output columns
    pub order: bool,
    pub limit: Option<u32>,
}

impl Shape {
    pub fn label(&self) -> String {
        match self {
            Shape::Scan { filter_mod } => if *filter_mod > 0 { "scan-filter".into() } else { "scan".into() },
            Shape::Sort { by_str, .. } => format!("sort-{}", if *by_str { "str" } else { "int" }),
            Shape::Agg { by, strs } => format!("agg-{by:?}{}", if *strs { "-strs" } else { "" }),
            Shape::Distinct { by } => format!("distinct-{by:?}"),
            Shape::Join { kind, algo, filter } => format!("join-{algo:?}-{kind:?}{}", if *filter { "-filter" } else { "" }),
            Shape::Window { f, part } => format!("window-{f:?}{}", if *part { "-part" } else { "" }),
            Shape::Union => "union-all".into(),
            Shape::AggJoin { algo } => format!("aggjoin-{algo:?}"),
            Shape::CountDistinct => "count-distinct".into(),
        }
    }
    /// coarse operator class (for label histograms)
    pub fn class(&self) -> &'static str {
        match self {
            Shape::Scan { .. } => "scan",
            Shape::Sort { .. } => "sort",
            Shape::Agg { .. } => "agg",
            Shape::Distinct { .. } => "distinct",
            Shape::Join { algo, .. } => match algo {
                JoinAlgo::Hash | JoinAlgo::HashPartitioned => "hash-join",
                JoinAlgo::SortMerge => "smj",
                JoinAlgo::NestedLoop => "nlj",
            },
            Shape::Window { .. } => "window",
            Shape::Union => "union",
            Shape::AggJoin { .. } => "aggjoin",
            Shape::CountDistinct => "count-distinct",
        }
    }
    pub fn uses_u(&self) -> bool {
        matches!(self, Shape::Join { .. } | Shape::Union | Shape::AggJoin { .. })
    }
    pub fn is_join(&self) -> bool {
        matches!(self, Shape::Join { .. } | Shape::AggJoin { .. })
    }
    pub fn is_agg(&self) -> bool {
        matches!(self, Shape::Agg { .. } | Shape::AggJoin { .. } | Shape::CountDistinct)
    }
    pub fn join_algo(&self) -> Option<JoinAlgo> {
        match self {
            Shape::Join { algo, .. } | Shape::AggJoin { algo } => Some(*algo),
            _ => None,
        }
    }
    pub fn site_ok(&self, site: UdfSite) -> bool {
        match site {
            UdfSite::Filter | UdfSite::Projection => true,
            UdfSite::JoinFilter => self.is_join(),
            UdfSite::AggArg => self.is_agg(),
        }
    }
    /// number of output columns (for the ORDER BY wrapper)
    fn out_cols(&self, site: Option<UdfSite>) -> usize {
        let extra = usize::from(site == Some(UdfSite::AggArg));
        match self {
            Shape::Scan { .. } => 4,
            Shape::Sort { .. } => 3,
            Shape::Agg { by, strs } => (if *by == GroupBy::KG { 2 } else { 1 }) + 3 + if *strs { 2 } else { 0 } + extra,
            Shape::Distinct { by } => if *by == GroupBy::KG { 2 } else { 1 },
            Shape::Join { kind, .. } => if matches!(kind, JoinKind::Semi | JoinKind::Anti) { 2 } else { 5 },
            Shape::Window { .. } => 3,
            Shape::Union => 2,
            Shape::AggJoin { .. } => 3 + extra,
            Shape::CountDistinct => 3 + extra,
        }
    }
}

impl QuerySpec {
    /// Is the row sequence of the result determined (so that results compare as sequences and a LIMIT
    /// selects a determined prefix)?
    pub fn totally_ordered(&self) -> bool {
        self.order || matches!(self.shape, Shape::Sort { .. })
    }

    /// session options (key, value) selecting the operator variant of this shape
    pub fn options(&self) -> Vec<(String, String)> {
        let mut o = vec![];
        let mut set = |k: &str, v: &str| o.push((k.to_string(), v.to_string()));
        match self.shape.join_algo() {
            Some(JoinAlgo::HashPartitioned) => {
                set("datafusion.optimizer.hash_join_single_partition_threshold", "0");
                set("datafusion.optimizer.hash_join_single_partition_threshold_rows", "0");
            }
            Some(JoinAlgo::SortMerge) => set("datafusion.optimizer.prefer_hash_join", "false"),
            _ => {}
        }
        o
    }

    /// SQL text. `site` places the failing UDF (C20); `with_limit = false` renders the query without its
    /// LIMIT (reference for un-ordered LIMIT queries).
    pub fn sql(&self, site: Option<UdfSite>, with_limit: bool) -> String {
        let t = match site {
            Some(UdfSite::Filter) => "(SELECT id, k, g, v, s FROM t WHERE vf_fail(id) >= 0) AS t",
            Some(UdfSite::Projection) => "(SELECT vf_fail(id) AS id, k, g, v, s FROM t) AS t",
            _ => "t",
        };
        // nested-loop joins are quadratic: cap the small side at 100 rows
        let nlj = self.shape.join_algo() == Some(JoinAlgo::NestedLoop);
        let u = if nlj { "(SELECT id2, k, w, s2 FROM u WHERE id2 < 100) AS u" } else { "u" };
        let jf = if site == Some(UdfSite::JoinFilter) { " AND vf_fail(t.id + u.w * 0) >= 0" } else { "" };
        let agg_extra = |col: &str| if site == Some(UdfSite::AggArg) { format!(", sum(vf_fail({col})) AS sf") } else { String::new() };
        let on = |algo: JoinAlgo, filter: bool| -> String {
            let base = match algo {
                // not separable into left-expr = right-expr → no equi key → nested-loop join
                JoinAlgo::NestedLoop => "(t.k + u.k) % 97 = 0".to_string(),
                _ => "t.k = u.k".to_string(),
            };
            format!("{base}{}{jf}", if filter { " AND t.v < u.w" } else { "" })
        };
        let body = match &self.shape {
            Shape::Scan { filter_mod } => {
                let w = if *filter_mod > 0 { format!(" WHERE v % 10 < {}", (*filter_mod).min(10)) } else { String::new() };
                format!("SELECT id, k, v + 1 AS v1, s FROM {t}{w}")
            }
            Shape::Sort { by_str, desc } => {
                let key = if *by_str { "s" } else { "v" };
                format!("SELECT id, k, s FROM {t} ORDER BY {key}{}, id", if *desc { " DESC" } else { "" })
            }
            Shape::Agg { by, strs } => {
                let s = if *strs { ", min(s) AS mns, max(s) AS mxs" } else { "" };
                format!("SELECT {c}, count(*) AS c, sum(v) AS sv, min(v) AS mv{s}{x} FROM {t} GROUP BY {c}", c = by.cols(), x = agg_extra("id"))
            }
            Shape::Distinct { by } => format!("SELECT DISTINCT {} FROM {t}", by.cols()),
            Shape::Join { kind, algo, filter } => {
                let cond = on(*algo, *filter);
                match kind {
                    JoinKind::Semi => format!("SELECT t.id, t.s FROM {t} LEFT SEMI JOIN {u} ON {cond}"),
                    JoinKind::Anti => format!("SELECT t.id, t.s FROM {t} LEFT ANTI JOIN {u} ON {cond}"),
                    k => {
                        let kw = match k {
                            JoinKind::Inner => "JOIN",
                            JoinKind::Left => "LEFT JOIN",
                            JoinKind::Right => "RIGHT JOIN",
                            _ => "FULL JOIN",
                        };
                        format!("SELECT t.id, t.s, u.id2, u.w, u.s2 FROM {t} {kw} {u} ON {cond}")
                    }
                }
            }
            Shape::Window { f, part } => {
                let p = if *part { "PARTITION BY g " } else { "" };
                let w = match f {
                    WinFn::RowNumber => format!("row_number() OVER ({p}ORDER BY s, id)"),
                    WinFn::RunningSum => format!("sum(v) OVER ({p}ORDER BY id)"),
                    WinFn::Lag => format!("lag(v, 1) OVER ({p}ORDER BY id)"),
                    WinFn::Rank => format!("rank() OVER ({p}ORDER BY k)"),
                    WinFn::MovingSum => format!("sum(v) OVER ({p}ORDER BY id ROWS BETWEEN 3 PRECEDING AND 2 FOLLOWING)"),
                };
                format!("SELECT id, g, {w} AS w FROM {t}")
            }
            Shape::Union => format!("SELECT id, s FROM {t} UNION ALL SELECT id2, s2 FROM u"),
            Shape::AggJoin { algo } => {
                format!("SELECT u.k, count(*) AS c, sum(t.v) AS sv{x} FROM {t} JOIN {u} ON {cond} GROUP BY u.k", x = agg_extra("t.id"), cond = on(*algo, false))
            }
            Shape::CountDistinct => format!("SELECT count(DISTINCT k) AS dk, count(DISTINCT s) AS ds, sum(v) AS sv{x} FROM {t}", x = agg_extra("id")),
        };
        let mut q = body;
        if self.order && !matches!(self.shape, Shape::Sort { .. }) {
            let n = self.shape.out_cols(site);
            let ords: Vec<String> = (1..=n).map(|i| i.to_string()).collect();
            q = format!("SELECT * FROM ({q}) AS q ORDER BY {}", ords.join(", "));
        }
        if with_limit {
            if let Some(l) = self.limit {
                q = format!("{q} LIMIT {l}");
            }
        }
        q
    }
}
