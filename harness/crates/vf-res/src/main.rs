//! `vf-res` — resource-limit and fault properties: C18 (memory-limited queries exact or fail cleanly, release
//! everything) and C20 (execution errors always surface).
mod c18;
mod c20;
mod data;
mod env;
mod partdrop;
mod query;
mod scripted;

fn main() {
    vf_kit::dispatch! {
        "c18" => c18::C18,
        "c20" => c20::C20,
    }
}
