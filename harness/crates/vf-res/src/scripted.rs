//! Scripted `TableProvider` / `ExecutionPlan` (DESIGN §3.6): every partition replays a script of
//! `Batch | Pending(n polls) | Error(msg)` steps; counters make "the fault point was reached" observable.
use arrow::array::RecordBatch;
use arrow::datatypes::SchemaRef;
use async_trait::async_trait;
use datafusion::catalog::{Session, TableProvider};
use datafusion::common::stats::Precision;
use datafusion::common::tree_node::TreeNodeRecursion;
use datafusion::common::{DataFusionError, Result, Statistics};
use datafusion::datasource::TableType;
use datafusion::execution::{RecordBatchStream, SendableRecordBatchStream, TaskContext};
use datafusion::logical_expr::Expr;
use datafusion::physical_expr::{EquivalenceProperties, Partitioning, PhysicalExpr};
use datafusion::physical_plan::execution_plan::{Boundedness, EmissionType};
use datafusion::physical_plan::{ChildrenPropertiesMode, DisplayAs, DisplayFormatType, ExecutionPlan, PlanProperties, ReplaceChildrenOptions};
use futures::Stream;
use std::collections::VecDeque;
use std::pin::Pin;
use std::sync::Arc;
use std::sync::atomic::{AtomicUsize, Ordering};
use std::task::{Context, Poll};

#[derive(Clone, Debug)]
pub enum Step {
    Batch(RecordBatch),
    /// return `Poll::Pending` (after waking the task) this many times
    Pending(u8),
    /// yield `Err(Execution(msg))`; the stream ends afterwards
    Error(String),
    /// stay `Pending` until the harness opens the gate
    Gate(Arc<Gate>),
}

/// a latch the harness opens to let a scripted partition continue
#[derive(Debug, Default)]
pub struct Gate {
    open: std::sync::atomic::AtomicBool,
    waker: std::sync::Mutex<Option<std::task::Waker>>,
}

impl Gate {
    pub fn open(&self) {
        self.open.store(true, Ordering::SeqCst);
        if let Ok(mut w) = self.waker.lock() {
            if let Some(w) = w.take() {
                w.wake();
            }
        }
    }
    fn poll_open(&self, cx: &mut Context<'_>) -> bool {
        if self.open.load(Ordering::SeqCst) {
            return true;
        }
        if let Ok(mut w) = self.waker.lock() {
            *w = Some(cx.waker().clone());
        }
        self.open.load(Ordering::SeqCst)
    }
}

/// observable counters of one scripted table (shared by every scan of it)
#[derive(Debug, Default)]
pub struct Counters {
    /// `execute` calls
    pub executed: AtomicUsize,
    /// batches handed out
    pub batches: AtomicUsize,
    /// `Error` steps handed out (the fault point was reached)
    pub errors: AtomicUsize,
    /// streams that were polled to their end (`None` returned)
    pub finished: AtomicUsize,
    /// polls after a stream already returned its Error (a consumer that keeps polling)
    pub polls_after_error: AtomicUsize,
}

#[derive(Debug)]
pub struct ScriptedTable {
    schema: SchemaRef,
    parts: Arc<Vec<Vec<Step>>>,
    rows: usize,
    pub counters: Arc<Counters>,
}

impl ScriptedTable {
    pub fn new(schema: SchemaRef, parts: Vec<Vec<Step>>) -> Self {
        let rows = parts.iter().flatten().map(|s| if let Step::Batch(b) = s { b.num_rows() } else { 0 }).sum();
        ScriptedTable { schema, parts: Arc::new(parts), rows, counters: Arc::new(Counters::default()) }
    }
}

#[async_trait]
impl TableProvider for ScriptedTable {
    fn schema(&self) -> SchemaRef {
        self.schema.clone()
    }
    fn table_type(&self) -> TableType {
        TableType::Base
    }
    async fn scan(&self, _state: &dyn Session, projection: Option<&[usize]>, _filters: &[Expr], _limit: Option<usize>) -> Result<Arc<dyn ExecutionPlan>> {
        let schema = match projection {
            Some(p) => Arc::new(self.schema.project(p)?),
            None => self.schema.clone(),
        };
        Ok(Arc::new(ScriptedExec::new(schema, projection.map(|p| p.to_vec()), self.parts.clone(), self.rows, self.counters.clone())))
    }
}

#[derive(Debug)]
pub struct ScriptedExec {
    schema: SchemaRef,
    projection: Option<Vec<usize>>,
    parts: Arc<Vec<Vec<Step>>>,
    rows: usize,
    cache: Arc<PlanProperties>,
    counters: Arc<Counters>,
}

impl ScriptedExec {
    pub fn new(schema: SchemaRef, projection: Option<Vec<usize>>, parts: Arc<Vec<Vec<Step>>>, rows: usize, counters: Arc<Counters>) -> Self {
        let eq = EquivalenceProperties::new(schema.clone());
        let cache = PlanProperties::new(eq, Partitioning::UnknownPartitioning(parts.len().max(1)), EmissionType::Incremental, Boundedness::Bounded);
        ScriptedExec { schema, projection, parts, rows, cache: Arc::new(cache), counters }
    }
}

impl DisplayAs for ScriptedExec {
    fn fmt_as(&self, _t: DisplayFormatType, f: &mut std::fmt::Formatter) -> std::fmt::Result {
        write!(f, "ScriptedExec: partitions={}", self.parts.len())
    }
}

impl ExecutionPlan for ScriptedExec {
    fn name(&self) -> &'static str {
        "ScriptedExec"
    }
    fn properties(&self) -> &Arc<PlanProperties> {
        &self.cache
    }
    fn children(&self) -> Vec<&Arc<dyn ExecutionPlan>> {
        vec![]
    }
    fn replace_children(self: Arc<Self>, _children: Vec<Arc<dyn ExecutionPlan>>, _o: ReplaceChildrenOptions) -> Result<Arc<dyn ExecutionPlan>> {
        Ok(self)
    }
    fn apply_expressions(&self, _f: &mut dyn FnMut(&Arc<dyn PhysicalExpr>) -> Result<TreeNodeRecursion>) -> Result<TreeNodeRecursion> {
        Ok(TreeNodeRecursion::Continue)
    }
    fn with_new_children(self: Arc<Self>, children: Vec<Arc<dyn ExecutionPlan>>) -> Result<Arc<dyn ExecutionPlan>> {
        self.replace_children(children, ReplaceChildrenOptions::new(ChildrenPropertiesMode::Recompute))
    }
    fn execute(&self, partition: usize, _context: Arc<TaskContext>) -> Result<SendableRecordBatchStream> {
        let steps: VecDeque<Step> = match self.parts.get(partition) {
            Some(s) => s.iter().cloned().collect(),
            None if partition == 0 && self.parts.is_empty() => VecDeque::new(),
            None => return Err(DataFusionError::Internal(format!("ScriptedExec has no partition {partition}"))),
        };
        self.counters.executed.fetch_add(1, Ordering::Relaxed);
        Ok(Box::pin(ScriptedStream { schema: self.schema.clone(), projection: self.projection.clone(), steps, counters: self.counters.clone(), errored: false }))
    }
    fn partition_statistics(&self, partition: Option<usize>) -> Result<Arc<Statistics>> {
        let mut st = Statistics::new_unknown(&self.schema);
        let rows = match partition {
            None => self.rows,
            Some(p) => self.parts.get(p).map(|s| s.iter().map(|x| if let Step::Batch(b) = x { b.num_rows() } else { 0 }).sum()).unwrap_or(0),
        };
        // inexact on purpose: an exact count would let the optimizer answer count(*) without scanning
        st.num_rows = Precision::Inexact(rows);
        st.total_byte_size = Precision::Inexact(rows * 64);
        Ok(Arc::new(st))
    }
}

struct ScriptedStream {
    schema: SchemaRef,
    projection: Option<Vec<usize>>,
    steps: VecDeque<Step>,
    counters: Arc<Counters>,
    errored: bool,
}

impl Stream for ScriptedStream {
    type Item = Result<RecordBatch>;
    fn poll_next(mut self: Pin<&mut Self>, cx: &mut Context<'_>) -> Poll<Option<Self::Item>> {
        if self.errored {
            self.counters.polls_after_error.fetch_add(1, Ordering::Relaxed);
            return Poll::Ready(None);
        }
        loop {
            match self.steps.front_mut() {
                None => {
                    self.counters.finished.fetch_add(1, Ordering::Relaxed);
                    return Poll::Ready(None);
                }
                Some(Step::Pending(n)) => {
                    if *n == 0 {
                        self.steps.pop_front();
                        continue;
                    }
                    *n -= 1;
                    cx.waker().wake_by_ref();
                    return Poll::Pending;
                }
                Some(Step::Gate(g)) => {
                    if g.poll_open(cx) {
                        self.steps.pop_front();
                        continue;
                    }
                    return Poll::Pending;
                }
                Some(Step::Batch(_)) => {
                    if let Some(Step::Batch(b)) = self.steps.pop_front() {
                        self.counters.batches.fetch_add(1, Ordering::Relaxed);
                        let b = match &self.projection {
                            Some(p) => b.project(p).map_err(|e| DataFusionError::ArrowError(Box::new(e), None)),
                            None => Ok(b),
                        };
                        return Poll::Ready(Some(b));
                    }
                }
                Some(Step::Error(_)) => {
                    if let Some(Step::Error(m)) = self.steps.pop_front() {
                        self.counters.errors.fetch_add(1, Ordering::Relaxed);
                        self.errored = true;
                        self.steps.clear();
                        return Poll::Ready(Some(Err(DataFusionError::Execution(m))));
                    }
                }
            }
        }
    }
}

impl RecordBatchStream for ScriptedStream {
    fn schema(&self) -> SchemaRef {
        self.schema.clone()
    }
}

/// `pend[i % len]` Pending polls before batch i and before the end; `error_at = Some(k)` replaces the
/// k-th batch (0-based) by an Error step (k = number of batches → the error comes in place of the end).
pub fn script(batches: Vec<RecordBatch>, pend: &[u8], error_at: Option<usize>) -> Vec<Step> {
    let mut out = Vec::with_capacity(batches.len() * 2 + 2);
    let n = batches.len();
    let jitter = |i: usize, out: &mut Vec<Step>| {
        if !pend.is_empty() {
            let p = pend[i % pend.len()];
            if p > 0 {
                out.push(Step::Pending(p));
            }
        }
    };
    for (i, b) in batches.into_iter().enumerate() {
        jitter(i, &mut out);
        if error_at == Some(i) {
            out.push(Step::Error(format!("{INJECTED} source error at batch {i}")));
            return out;
        }
        out.push(Step::Batch(b));
    }
    jitter(n, &mut out);
    if error_at == Some(n) {
        out.push(Step::Error(format!("{INJECTED} source error at end of input")));
    }
    out
}

/// marker contained in every injected error message
pub const INJECTED: &str = "vf-injected";
