//! C20, fault kind `PartDrop`: physical-plan-level cases. A `RepartitionExec` (round-robin or hash on `k`)
//! over a single-partition scripted source is built directly; the harness executes every output partition
//! separately, polls all of them while the source hands out its first `before` batches (then the source waits
//! at a gate), drops the generated subset of the partition streams, opens the gate — the source hands out
//! `after` more batches and then fails — and drains the surviving streams one after the other.
//! Oracle: every surviving stream yields an error, or ends Ok with at least the rows it gets in the fault-free
//! variant of the same scenario (same drop set, the source runs to its end instead of failing); ending Ok
//! with fewer rows is a violation. The victims of a lost error depend on hash-map iteration order inside
//! `RepartitionExec`, so every case repeats the scenario `TRIALS` times.
use crate::c20::{Case, FAULT_POINTS, FaultKind, REACHED_POINTS};
use crate::data::{Which, schema};
use crate::env::{Flavor, build_tokio};
use crate::scripted::{Counters, Gate, INJECTED, ScriptedExec, Step};
use datafusion::execution::{SendableRecordBatchStream, TaskContext};
use datafusion::physical_expr::Partitioning;
use datafusion::physical_expr::expressions::Column;
use datafusion::physical_plan::ExecutionPlan;
use datafusion::physical_plan::repartition::RepartitionExec;
use datafusion::prelude::SessionConfig;
use futures::{FutureExt, StreamExt};
use std::sync::Arc;
use std::sync::atomic::Ordering;
use std::time::Duration;
use vf_kit::engine::*;

const TRIALS: usize = 6;

struct Scenario {
    /// rows seen per output partition (None = dropped)
    rows: Vec<Option<usize>>,
    errored: Vec<bool>,
    source_errors: usize,
}

enum End {
    Done(Scenario),
    Timeout,
    Setup(String),
}

fn scenario(case: &Case, hash: bool, n_out: usize, drop: &[bool], before: usize, after: usize, fail: bool) -> End {
    let cfg = &case.cfg;
    let rt = match build_tokio(cfg.flavor) {
        Ok(r) => r,
        Err(e) => return End::Setup(e.to_string()),
    };
    // source script: `before` batches, gate, `after` batches, then either the error or 2*n_out more batches
    let tail = 2 * n_out;
    let total = before + after + tail;
    let br = cfg.batch_rows.max(1) as usize;
    let gate = Arc::new(Gate::default());
    let mut steps = vec![];
    for i in 0..total {
        if i == before {
            steps.push(Step::Gate(gate.clone()));
        }
        if fail && i == before + after {
            steps.push(Step::Error(format!("{INJECTED} source error at batch {i}")));
            break;
        }
        match case.data.batch(Which::T, i * br, (i + 1) * br) {
            Ok(b) => steps.push(Step::Batch(b)),
            Err(m) => return End::Setup(m),
        }
    }
    let counters = Arc::new(Counters::default());
    let src = Arc::new(ScriptedExec::new(schema(Which::T), None, Arc::new(vec![steps]), total * br, counters.clone()));
    let part = if hash { Partitioning::Hash(vec![Arc::new(Column::new("id", 0))], n_out) } else { Partitioning::RoundRobinBatch(n_out) };
    let plan = match RepartitionExec::try_new(src, part) {
        Ok(p) => Arc::new(p),
        Err(e) => return End::Setup(e.to_string()),
    };
    let ctx = Arc::new(TaskContext::default().with_session_config(SessionConfig::new().with_batch_size(cfg.batch_size.max(1) as usize)));
    let multi = cfg.flavor == Flavor::Multi;
    let r = rt.block_on(async {
        let fut = async {
            let mut streams: Vec<Option<SendableRecordBatchStream>> = vec![];
            for p in 0..n_out {
                match plan.execute(p, ctx.clone()) {
                    Ok(s) => streams.push(Some(s)),
                    Err(e) => return Err(e.to_string()),
                }
            }
            let mut rows = vec![0usize; n_out];
            let mut errored = vec![false; n_out];
            // phase 1: poll every stream until the rows of the first `before` batches have arrived
            // (bounded number of rounds; every stream is polled at least once)
            let want = before * br;
            let mut got = 0;
            for round in 0..400 {
                for p in 0..n_out {
                    if let Some(s) = streams[p].as_mut() {
                        while let Some(item) = s.next().now_or_never() {
                            match item {
                                Some(Ok(b)) => {
                                    rows[p] += b.num_rows();
                                    got += b.num_rows();
                                }
                                Some(Err(_)) => {
                                    errored[p] = true;
                                    streams[p] = None;
                                    break;
                                }
                                None => {
                                    streams[p] = None;
                                    break;
                                }
                            }
                        }
                    }
                }
                if got >= want && round >= 2 {
                    break;
                }
                if multi {
                    tokio::time::sleep(Duration::from_millis(1)).await;
                } else {
                    for _ in 0..10 {
                        tokio::task::yield_now().await;
                    }
                }
            }
            // drop the chosen consumers
            let mut out_rows: Vec<Option<usize>> = rows.iter().map(|r| Some(*r)).collect();
            for p in 0..n_out {
                if drop[p] {
                    streams[p] = None;
                    out_rows[p] = None;
                }
            }
            // let the source continue (and fail)
            gate.open();
            for p in 0..n_out {
                if let Some(mut s) = streams[p].take() {
                    loop {
                        match s.next().await {
                            Some(Ok(b)) => rows[p] += b.num_rows(),
                            Some(Err(_)) => {
                                errored[p] = true;
                                break;
                            }
                            None => break,
                        }
                    }
                    out_rows[p] = Some(rows[p]);
                }
            }
            Ok((out_rows, errored))
        };
        tokio::time::timeout(Duration::from_secs(20), fut).await.ok()
    });
    std::mem::drop(plan);
    rt.shutdown_timeout(Duration::from_secs(2));
    match r {
        None => End::Timeout,
        Some(Err(m)) => End::Setup(m),
        Some(Ok((rows, errored))) => End::Done(Scenario { rows, errored, source_errors: counters.errors.load(Ordering::SeqCst) }),
    }
}

pub fn run(case: &Case) -> CaseResult {
    let FaultKind::PartDrop { hash, n_out, drop_mask, before, after } = case.fault else {
        return CaseResult::discard("not a PartDrop case");
    };
    let n_out = (n_out as usize).clamp(2, 8);
    let mut drop: Vec<bool> = (0..n_out).map(|p| drop_mask >> p & 1 == 1).collect();
    if drop.iter().all(|d| *d) {
        drop[n_out - 1] = false;
    }
    if !drop.iter().any(|d| *d) {
        drop[0] = true;
    }
    let (before, after) = (before as usize, after as usize);
    let labels = vec![
        case.fault.label(),
        format!("flavor={:?}", case.cfg.flavor),
        format!("out-partitions={n_out}"),
        format!("dropped={}", drop.iter().filter(|d| **d).count()),
    ];
    let done = |r: CaseResult| r.labels(labels.iter().cloned());
    // fault-free variant: rows every surviving partition gets when the source runs to its end
    let ff = match scenario(case, hash, n_out, &drop, before, after, false) {
        End::Done(s) => s,
        End::Timeout => return done(CaseResult::inconclusive("fault-free partition-drop scenario timed out")),
        End::Setup(m) => return done(CaseResult::discard(format!("setup: {m}"))),
    };
    if ff.errored.iter().any(|e| *e) {
        return done(CaseResult::inconclusive("fault-free partition-drop scenario failed"));
    }
    FAULT_POINTS.fetch_add(TRIALS as u64, Ordering::Relaxed);
    let mut reached = false;
    let mut surfaced = 0;
    for trial in 0..TRIALS {
        let s = match scenario(case, hash, n_out, &drop, before, after, true) {
            End::Done(s) => s,
            End::Timeout => return done(CaseResult::inconclusive("partition-drop scenario timed out (20 s)")),
            End::Setup(m) => return done(CaseResult::discard(format!("setup: {m}"))),
        };
        if s.source_errors > 0 {
            reached = true;
            REACHED_POINTS.fetch_add(1, Ordering::Relaxed);
        }
        for p in 0..n_out {
            let (Some(got), Some(want)) = (s.rows[p], ff.rows[p]) else { continue };
            if s.errored[p] {
                surfaced += 1;
                continue;
            }
            if got < want {
                return done(CaseResult::violation(format!(
                    "output partition {p} of RepartitionExec ({}, {n_out} outputs) ended successfully with {got} rows although the input failed (fault-free: {want} rows); \
                     dropped consumers {:?} after {before} source batches, source error in place of batch {} (reached: {}); trial {trial}; rows per partition {:?}, errored {:?}",
                    if hash { "hash" } else { "round-robin" },
                    drop.iter().enumerate().filter(|(_, d)| **d).map(|(i, _)| i).collect::<Vec<_>>(),
                    before + after,
                    s.source_errors > 0,
                    s.rows,
                    s.errored
                )));
            }
        }
    }
    let mut r = CaseResult::pass().nontrivial(reached && surfaced > 0);
    if surfaced > 0 {
        r = r.label("error-surfaced");
    }
    if !reached {
        r = r.label("no-point-reached");
    }
    done(r)
}
