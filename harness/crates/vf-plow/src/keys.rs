//! Small plain-data → Arrow helpers shared by C13 and C21: a column type tag (`KT`), a pool of
//! logically distinct values per type addressed by a small index, and array construction with optional
//! padding+slicing and dictionary-layout variation.
use arrow::array::*;
use arrow::buffer::NullBuffer;
use arrow::datatypes::*;
use serde::{Deserialize, Serialize};
use std::sync::Arc;

#[derive(Clone, Copy, Debug, Serialize, Deserialize, PartialEq, Eq)]
pub enum DK {
    I8,
    I16,
    I32,
    I64,
    U8,
    U16,
    U32,
    U64,
}

#[derive(Clone, Debug, Serialize, Deserialize, PartialEq, Eq)]
pub enum KT {
    I8,
    I16,
    I32,
    I64,
    U8,
    U16,
    U32,
    U64,
    F16,
    F32,
    F64,
    Date32,
    Date64,
    Time32S,
    Time32Ms,
    Time64Us,
    Time64Ns,
    TsS,
    TsMs,
    TsUs,
    TsNs,
    TsNsTz,
    DurS,
    DurMs,
    DurUs,
    DurNs,
    IntYM,
    IntDT,
    IntMDN,
    Dec64,
    Dec128,
    Dec256,
    Bool,
    Utf8,
    LargeUtf8,
    Utf8View,
    Binary,
    LargeBinary,
    BinaryView,
    Fsb1,
    Fsb5,
    Fsb16,
    /// dictionary over a non-nested value type
    Dict(DK, Box<KT>),
    ListI32,
    LargeListUtf8,
    StructIS,
    FslI64,
    /// Map<Utf8, Int32> (C21 only)
    MapSI,
    /// List<Utf8View> (C21 only: views inside a container)
    ListView,
}

pub const WIDE: usize = 106;

impl KT {
    /// number of logically distinct values in the pool of this type
    pub fn pool(&self) -> usize {
        match self {
            KT::Bool => 2,
            KT::ListI32 | KT::LargeListUtf8 | KT::StructIS | KT::FslI64 | KT::MapSI | KT::ListView => 6,
            KT::Dict(_, v) => v.pool(),
            _ => WIDE,
        }
    }
    pub fn is_nested(&self) -> bool {
        matches!(self, KT::ListI32 | KT::LargeListUtf8 | KT::StructIS | KT::FslI64 | KT::MapSI | KT::ListView)
    }
    pub fn is_view(&self) -> bool {
        match self {
            KT::Utf8View | KT::BinaryView | KT::ListView => true,
            KT::Dict(_, v) => v.is_view(),
            _ => false,
        }
    }
    pub fn name(&self) -> String {
        match self {
            KT::Dict(k, v) => format!("Dict({k:?},{})", v.name()),
            o => format!("{o:?}"),
        }
    }
    pub fn data_type(&self) -> DataType {
        use DataType as D;
        match self {
            KT::I8 => D::Int8,
            KT::I16 => D::Int16,
            KT::I32 => D::Int32,
            KT::I64 => D::Int64,
            KT::U8 => D::UInt8,
            KT::U16 => D::UInt16,
            KT::U32 => D::UInt32,
            KT::U64 => D::UInt64,
            KT::F16 => D::Float16,
            KT::F32 => D::Float32,
            KT::F64 => D::Float64,
            KT::Date32 => D::Date32,
            KT::Date64 => D::Date64,
            KT::Time32S => D::Time32(TimeUnit::Second),
            KT::Time32Ms => D::Time32(TimeUnit::Millisecond),
            KT::Time64Us => D::Time64(TimeUnit::Microsecond),
            KT::Time64Ns => D::Time64(TimeUnit::Nanosecond),
            KT::TsS => D::Timestamp(TimeUnit::Second, None),
            KT::TsMs => D::Timestamp(TimeUnit::Millisecond, None),
            KT::TsUs => D::Timestamp(TimeUnit::Microsecond, None),
            KT::TsNs => D::Timestamp(TimeUnit::Nanosecond, None),
            KT::TsNsTz => D::Timestamp(TimeUnit::Nanosecond, Some("+05:30".into())),
            KT::DurS => D::Duration(TimeUnit::Second),
            KT::DurMs => D::Duration(TimeUnit::Millisecond),
            KT::DurUs => D::Duration(TimeUnit::Microsecond),
            KT::DurNs => D::Duration(TimeUnit::Nanosecond),
            KT::IntYM => D::Interval(IntervalUnit::YearMonth),
            KT::IntDT => D::Interval(IntervalUnit::DayTime),
            KT::IntMDN => D::Interval(IntervalUnit::MonthDayNano),
            KT::Dec64 => D::Decimal64(10, 2),
            KT::Dec128 => D::Decimal128(20, 3),
            KT::Dec256 => D::Decimal256(50, 5),
            KT::Bool => D::Boolean,
            KT::Utf8 => D::Utf8,
            KT::LargeUtf8 => D::LargeUtf8,
            KT::Utf8View => D::Utf8View,
            KT::Binary => D::Binary,
            KT::LargeBinary => D::LargeBinary,
            KT::BinaryView => D::BinaryView,
            KT::Fsb1 => D::FixedSizeBinary(1),
            KT::Fsb5 => D::FixedSizeBinary(5),
            KT::Fsb16 => D::FixedSizeBinary(16),
            KT::Dict(k, v) => D::Dictionary(Box::new(dk_type(*k)), Box::new(v.data_type())),
            KT::ListI32 => D::List(Arc::new(Field::new("item", D::Int32, true))),
            KT::LargeListUtf8 => D::LargeList(Arc::new(Field::new("item", D::Utf8, true))),
            KT::StructIS => D::Struct(struct_fields()),
            KT::FslI64 => D::FixedSizeList(Arc::new(Field::new("item", D::Int64, true)), 2),
            KT::MapSI => D::Map(Arc::new(Field::new("entries", D::Struct(map_fields()), false)), false),
            KT::ListView => D::List(Arc::new(Field::new("item", D::Utf8View, true))),
        }
    }
}

fn struct_fields() -> Fields {
    Fields::from(vec![Field::new("a", DataType::Int32, true), Field::new("b", DataType::Utf8, true)])
}
fn map_fields() -> Fields {
    Fields::from(vec![Field::new("keys", DataType::Utf8, false), Field::new("values", DataType::Int32, true)])
}

pub fn dk_type(k: DK) -> DataType {
    match k {
        DK::I8 => DataType::Int8,
        DK::I16 => DataType::Int16,
        DK::I32 => DataType::Int32,
        DK::I64 => DataType::Int64,
        DK::U8 => DataType::UInt8,
        DK::U16 => DataType::UInt16,
        DK::U32 => DataType::UInt32,
        DK::U64 => DataType::UInt64,
    }
}

/// clamp a generated choice onto the pool of a type (monotone, shrink-friendly)
pub fn norm(kt: &KT, c: u8) -> usize {
    (c as usize).min(kt.pool() - 1)
}

/// the i-th integer of a range: 0, 1, -1 (or max-1), min (or 3), max, 2, then 7..
fn iv(i: usize, min: i128, max: i128) -> i128 {
    match i {
        0 => 0,
        1 => 1,
        2 => {
            if min < 0 {
                -1
            } else {
                max - 1
            }
        }
        3 => {
            if min < 0 {
                min
            } else {
                3
            }
        }
        4 => max,
        5 => 2,
        k => k as i128 + 1,
    }
}

fn fv(i: usize) -> f64 {
    match i {
        0 => 0.0,
        1 => 1.5,
        2 => -2.25,
        3 => f64::NAN,
        4 => f64::INFINITY,
        5 => f64::NEG_INFINITY,
        k => k as f64 * 0.5,
    }
}

pub fn sv(i: usize) -> String {
    match i {
        0 => String::new(),
        1 => "a".into(),
        2 => "ab".into(),
        3 => "hello world!".into(),  // 12 bytes: the longest inline view
        4 => "hello world!!".into(), // 13 bytes: buffer-backed, shares the 4-byte prefix
        5 => "hello world!?".into(),
        6 => "a-much-longer-string-value-that-goes-well-beyond-the-inline-limit-é".into(),
        k if k % 2 == 0 => format!("k{k}"),
        k => format!("key-number-{k:03}-with-padding"),
    }
}

pub fn bv(i: usize) -> Vec<u8> {
    match i {
        1 => vec![0xff],
        2 => vec![0x00, 0xff],
        k => sv(k).into_bytes(),
    }
}

fn fsb(i: usize, w: usize) -> Vec<u8> {
    (0..w).map(|j| if j == 0 { i as u8 } else { (i as u8).wrapping_mul(j as u8 + 1).wrapping_add(0x80) }).collect()
}

macro_rules! prim {
    ($T:ty, $idxs:expr, $f:expr) => {{
        let v: Vec<Option<<$T as ArrowPrimitiveType>::Native>> = $idxs.iter().map(|o| o.map(|i| $f(i))).collect();
        PrimitiveArray::<$T>::from(v)
    }};
}
macro_rules! int_arr {
    ($T:ty, $idxs:expr, $min:expr, $max:expr) => {
        prim!($T, $idxs, |i: usize| iv(i, $min as i128, $max as i128) as <$T as ArrowPrimitiveType>::Native)
    };
}

/// Build an array of `kt` whose i-th element is pool value `idxs[i]` (None = NULL). `rot` varies the
/// dictionary layout (value order, one duplicated value, one unused value).
pub fn value_array(kt: &KT, idxs: &[Option<usize>], rot: usize) -> ArrayRef {
    let dt = kt.data_type();
    match kt {
        KT::I8 => Arc::new(int_arr!(Int8Type, idxs, i8::MIN, i8::MAX)),
        KT::I16 => Arc::new(int_arr!(Int16Type, idxs, i16::MIN, i16::MAX)),
        KT::I32 => Arc::new(int_arr!(Int32Type, idxs, i32::MIN, i32::MAX)),
        KT::I64 => Arc::new(int_arr!(Int64Type, idxs, i64::MIN, i64::MAX)),
        KT::U8 => Arc::new(int_arr!(UInt8Type, idxs, 0, u8::MAX)),
        KT::U16 => Arc::new(int_arr!(UInt16Type, idxs, 0, u16::MAX)),
        KT::U32 => Arc::new(int_arr!(UInt32Type, idxs, 0, u32::MAX)),
        KT::U64 => Arc::new(int_arr!(UInt64Type, idxs, 0, u64::MAX)),
        KT::F16 => {
            type H = <Float16Type as ArrowPrimitiveType>::Native;
            Arc::new(prim!(Float16Type, idxs, |i: usize| H::from_f64(fv(i))))
        }
        KT::F32 => Arc::new(prim!(Float32Type, idxs, |i: usize| fv(i) as f32)),
        KT::F64 => Arc::new(prim!(Float64Type, idxs, fv)),
        KT::Date32 => Arc::new(int_arr!(Date32Type, idxs, i32::MIN, i32::MAX)),
        KT::Date64 => Arc::new(int_arr!(Date64Type, idxs, i64::MIN, i64::MAX)),
        KT::Time32S => Arc::new(int_arr!(Time32SecondType, idxs, 0, 86_399)),
        KT::Time32Ms => Arc::new(int_arr!(Time32MillisecondType, idxs, 0, 86_399_999)),
        KT::Time64Us => Arc::new(int_arr!(Time64MicrosecondType, idxs, 0, 86_399_999_999i64)),
        KT::Time64Ns => Arc::new(int_arr!(Time64NanosecondType, idxs, 0, 86_399_999_999_999i64)),
        KT::TsS => Arc::new(int_arr!(TimestampSecondType, idxs, i64::MIN, i64::MAX)),
        KT::TsMs => Arc::new(int_arr!(TimestampMillisecondType, idxs, i64::MIN, i64::MAX)),
        KT::TsUs => Arc::new(int_arr!(TimestampMicrosecondType, idxs, i64::MIN, i64::MAX)),
        KT::TsNs => Arc::new(int_arr!(TimestampNanosecondType, idxs, i64::MIN, i64::MAX)),
        KT::TsNsTz => Arc::new(int_arr!(TimestampNanosecondType, idxs, i64::MIN, i64::MAX).with_data_type(dt)),
        KT::DurS => Arc::new(int_arr!(DurationSecondType, idxs, i64::MIN, i64::MAX)),
        KT::DurMs => Arc::new(int_arr!(DurationMillisecondType, idxs, i64::MIN, i64::MAX)),
        KT::DurUs => Arc::new(int_arr!(DurationMicrosecondType, idxs, i64::MIN, i64::MAX)),
        KT::DurNs => Arc::new(int_arr!(DurationNanosecondType, idxs, i64::MIN, i64::MAX)),
        KT::IntYM => Arc::new(int_arr!(IntervalYearMonthType, idxs, i32::MIN, i32::MAX)),
        KT::IntDT => Arc::new(prim!(IntervalDayTimeType, idxs, |i: usize| IntervalDayTimeType::make_value(i as i32 - 3, (i * 7) as i32))),
        KT::IntMDN => Arc::new(prim!(IntervalMonthDayNanoType, idxs, |i: usize| IntervalMonthDayNanoType::make_value(i as i32 - 3, (i * 2) as i32, i as i64 * 1000))),
        KT::Dec64 => Arc::new(int_arr!(Decimal64Type, idxs, -9_999_999_999i64, 9_999_999_999i64).with_data_type(dt)),
        KT::Dec128 => Arc::new(int_arr!(Decimal128Type, idxs, -99_999_999_999_999_999_999i128, 99_999_999_999_999_999_999i128).with_data_type(dt)),
        KT::Dec256 => {
            let m = 10i128.pow(38) - 1;
            Arc::new(prim!(Decimal256Type, idxs, |i: usize| i256::from_i128(iv(i, -m, m))).with_data_type(dt))
        }
        KT::Bool => Arc::new(BooleanArray::from(idxs.iter().map(|o| o.map(|i| i > 0)).collect::<Vec<_>>())),
        KT::Utf8 => Arc::new(StringArray::from(idxs.iter().map(|o| o.map(sv)).collect::<Vec<_>>())),
        KT::LargeUtf8 => Arc::new(LargeStringArray::from(idxs.iter().map(|o| o.map(sv)).collect::<Vec<_>>())),
        KT::Utf8View => {
            // small block size so that long values spread over several data buffers
            let mut b = StringViewBuilder::new().with_fixed_block_size(64);
            for o in idxs {
                match o {
                    Some(i) => b.append_value(sv(*i)),
                    None => b.append_null(),
                }
            }
            Arc::new(b.finish())
        }
        KT::Binary => Arc::new(BinaryArray::from_iter(idxs.iter().map(|o| o.map(bv)))),
        KT::LargeBinary => Arc::new(LargeBinaryArray::from_iter(idxs.iter().map(|o| o.map(bv)))),
        KT::BinaryView => {
            let mut b = BinaryViewBuilder::new().with_fixed_block_size(64);
            for o in idxs {
                match o {
                    Some(i) => b.append_value(bv(*i)),
                    None => b.append_null(),
                }
            }
            Arc::new(b.finish())
        }
        KT::Fsb1 | KT::Fsb5 | KT::Fsb16 => {
            let w = match kt {
                KT::Fsb1 => 1,
                KT::Fsb5 => 5,
                _ => 16,
            };
            let mut b = FixedSizeBinaryBuilder::with_capacity(idxs.len(), w as i32);
            for o in idxs {
                match o {
                    Some(i) => b.append_value(fsb(*i, w)).expect("fsb width"),
                    None => b.append_null(),
                }
            }
            Arc::new(b.finish())
        }
        KT::Dict(k, v) => dict_array(*k, v, idxs, rot),
        KT::ListI32 => {
            let mut b = ListBuilder::new(Int32Builder::new());
            for o in idxs {
                match o {
                    None => b.append_null(),
                    Some(i) => {
                        let items: &[Option<i32>] = match i {
                            0 => &[],
                            1 => &[Some(1)],
                            2 => &[Some(1), Some(2)],
                            3 => &[None],
                            4 => &[Some(1), None],
                            _ => &[Some(2)],
                        };
                        for it in items {
                            b.values().append_option(*it);
                        }
                        b.append(true);
                    }
                }
            }
            Arc::new(b.finish())
        }
        KT::LargeListUtf8 => {
            let mut b = LargeListBuilder::new(StringBuilder::new());
            for o in idxs {
                match o {
                    None => b.append_null(),
                    Some(i) => {
                        let items: &[Option<&str>] = match i {
                            0 => &[],
                            1 => &[Some("a")],
                            2 => &[Some("a"), Some("b")],
                            3 => &[None],
                            4 => &[Some("ab")],
                            _ => &[Some("a"), None],
                        };
                        for it in items {
                            b.values().append_option(*it);
                        }
                        b.append(true);
                    }
                }
            }
            Arc::new(b.finish())
        }
        KT::ListView => {
            let mut b = ListBuilder::new(StringViewBuilder::new().with_fixed_block_size(64));
            for o in idxs {
                match o {
                    None => b.append_null(),
                    Some(i) => {
                        let items: Vec<Option<String>> = match i {
                            0 => vec![],
                            1 => vec![Some(sv(1))],
                            2 => vec![Some(sv(4)), Some(sv(6))],
                            3 => vec![None],
                            4 => vec![Some(sv(5)), None, Some(sv(3))],
                            _ => vec![Some(sv(6)), Some(sv(6))],
                        };
                        for it in items {
                            b.values().append_option(it);
                        }
                        b.append(true);
                    }
                }
            }
            Arc::new(b.finish())
        }
        KT::StructIS => {
            let a: Vec<Option<i32>> = idxs
                .iter()
                .map(|o| match o {
                    Some(0) | Some(1) | Some(5) => Some(1),
                    Some(4) => Some(2),
                    _ => None,
                })
                .collect();
            let b: Vec<Option<&str>> = idxs
                .iter()
                .map(|o| match o {
                    Some(0) | Some(2) | Some(4) => Some("x"),
                    Some(5) => Some("y"),
                    _ => None,
                })
                .collect();
            let nulls = NullBuffer::from(idxs.iter().map(|o| o.is_some()).collect::<Vec<bool>>());
            Arc::new(StructArray::new(struct_fields(), vec![Arc::new(Int32Array::from(a)) as ArrayRef, Arc::new(StringArray::from(b)) as ArrayRef], Some(nulls)))
        }
        KT::FslI64 => {
            let mut b = FixedSizeListBuilder::new(Int64Builder::new(), 2);
            for o in idxs {
                match o {
                    None => {
                        b.values().append_null();
                        b.values().append_null();
                        b.append(false);
                    }
                    Some(i) => {
                        let items: [Option<i64>; 2] = match i {
                            0 => [Some(0), Some(0)],
                            1 => [Some(0), Some(1)],
                            2 => [Some(1), Some(0)],
                            3 => [None, Some(0)],
                            4 => [Some(0), None],
                            _ => [None, None],
                        };
                        b.values().append_option(items[0]);
                        b.values().append_option(items[1]);
                        b.append(true);
                    }
                }
            }
            Arc::new(b.finish())
        }
        KT::MapSI => {
            let mut b = MapBuilder::new(None, StringBuilder::new(), Int32Builder::new());
            for o in idxs {
                match o {
                    None => b.append(false).expect("map append"),
                    Some(i) => {
                        let items: &[(&str, Option<i32>)] = match i {
                            0 => &[],
                            1 => &[("a", Some(1))],
                            2 => &[("a", Some(1)), ("b", Some(2))],
                            3 => &[("a", None)],
                            4 => &[("b", Some(1))],
                            _ => &[("hello world!!", Some(-1)), ("", None)],
                        };
                        for (k, v) in items {
                            b.keys().append_value(k);
                            b.values().append_option(*v);
                        }
                        b.append(true).expect("map append");
                    }
                }
            }
            Arc::new(b.finish())
        }
    }
}

fn dict_array(k: DK, v: &KT, idxs: &[Option<usize>], rot: usize) -> ArrayRef {
    let mut distinct: Vec<usize> = idxs.iter().flatten().copied().collect();
    distinct.sort_unstable();
    distinct.dedup();
    if !distinct.is_empty() {
        let r = rot % distinct.len();
        distinct.rotate_left(r);
    }
    let mut values = distinct.clone();
    let dup = if rot % 3 != 0 && !distinct.is_empty() {
        values.push(distinct[0]); // a duplicated value: two keys for the same logical value
        Some(values.len() - 1)
    } else {
        None
    };
    if rot % 2 == 1 {
        values.push(v.pool() - 1); // a value no key refers to (or yet another duplicate)
    }
    let keys: Vec<Option<usize>> = idxs
        .iter()
        .enumerate()
        .map(|(row, o)| {
            o.map(|i| {
                let p = distinct.iter().position(|x| *x == i).unwrap_or(0);
                match dup {
                    Some(d) if p == 0 && row % 2 == 1 => d,
                    _ => p,
                }
            })
        })
        .collect();
    let vals = value_array(v, &values.iter().map(|x| Some(*x)).collect::<Vec<_>>(), 0);
    macro_rules! mk {
        ($K:ty) => {{
            let ka = PrimitiveArray::<$K>::from(keys.iter().map(|o| o.map(|p| p as <$K as ArrowPrimitiveType>::Native)).collect::<Vec<_>>());
            Arc::new(DictionaryArray::<$K>::try_new(ka, vals).expect("dictionary")) as ArrayRef
        }};
    }
    match k {
        DK::I8 => mk!(Int8Type),
        DK::I16 => mk!(Int16Type),
        DK::I32 => mk!(Int32Type),
        DK::I64 => mk!(Int64Type),
        DK::U8 => mk!(UInt8Type),
        DK::U16 => mk!(UInt16Type),
        DK::U32 => mk!(UInt32Type),
        DK::U64 => mk!(UInt64Type),
    }
}

/// `value_array` of `idxs`, optionally built with `pad` leading junk rows and one trailing junk row and
/// then sliced, so that the array has a non-zero offset.
pub fn column(kt: &KT, idxs: &[Option<usize>], pad: usize, rot: usize, nullable: bool) -> ArrayRef {
    if pad == 0 {
        return value_array(kt, idxs, rot);
    }
    let mut all: Vec<Option<usize>> = (0..pad).map(|j| if j % 2 == 0 || !nullable { Some((j + 1).min(kt.pool() - 1)) } else { None }).collect();
    all.extend_from_slice(idxs);
    all.push(Some(1.min(kt.pool() - 1)));
    value_array(kt, &all, rot).slice(pad, idxs.len())
}

// ---------------------------------------------------------------------------------------------
// strategies

use proptest::prelude::*;

pub fn scalar_kt() -> BoxedStrategy<KT> {
    prop::sample::select(vec![
        KT::I8,
        KT::I16,
        KT::I32,
        KT::I64,
        KT::U8,
        KT::U16,
        KT::U32,
        KT::U64,
        KT::F16,
        KT::F32,
        KT::F64,
        KT::Date32,
        KT::Date64,
        KT::Time32S,
        KT::Time32Ms,
        KT::Time64Us,
        KT::Time64Ns,
        KT::TsS,
        KT::TsMs,
        KT::TsUs,
        KT::TsNs,
        KT::TsNsTz,
        KT::DurS,
        KT::DurMs,
        KT::DurUs,
        KT::DurNs,
        KT::IntYM,
        KT::IntDT,
        KT::IntMDN,
        KT::Dec64,
        KT::Dec128,
        KT::Dec256,
        KT::Bool,
        KT::Bool,
        KT::Utf8,
        KT::Utf8,
        KT::LargeUtf8,
        KT::Utf8View,
        KT::Utf8View,
        KT::Utf8View,
        KT::Binary,
        KT::LargeBinary,
        KT::BinaryView,
        KT::BinaryView,
        KT::Fsb1,
        KT::Fsb5,
        KT::Fsb16,
    ])
    .boxed()
}

pub fn dict_kt() -> BoxedStrategy<KT> {
    let k = prop::sample::select(vec![DK::I8, DK::I16, DK::I32, DK::I64, DK::U8, DK::U16, DK::U32, DK::U64]);
    let v = prop_oneof![
        3 => prop::sample::select(vec![KT::Utf8, KT::Utf8View, KT::I32, KT::Binary, KT::LargeUtf8, KT::F64, KT::Bool, KT::Fsb5, KT::Dec128, KT::TsNsTz, KT::BinaryView]),
        1 => scalar_kt(),
    ];
    (k, v).prop_map(|(k, v)| KT::Dict(k, Box::new(v))).boxed()
}

pub fn nested_kt() -> BoxedStrategy<KT> {
    prop::sample::select(vec![KT::ListI32, KT::LargeListUtf8, KT::StructIS, KT::FslI64]).boxed()
}
