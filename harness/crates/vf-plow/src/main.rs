mod c11;
mod c14;

fn main() {
    vf_kit::dispatch! {
        "c11" => c11::C11::default(),
        "c14" => c14::C14,
    }
}
