mod c11;
mod c13;
mod c14;
mod c21;
mod keys;

fn main() {
    // hidden sub-command: the fault-injection child of C21 (RLIMIT_FSIZE applies to this process only)
    if std::env::args().nth(1).as_deref() == Some("c21-child") {
        std::process::exit(c21::child_main());
    }
    vf_kit::dispatch! {
        "c11" => c11::C11::default(),
        "c13" => c13::C13,
        "c14" => c14::C14,
        "c21" => c21::C21 { local: false },
    }
}
