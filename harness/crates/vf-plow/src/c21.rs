//! C21 — spill files round-trip exactly and disk usage accounting stays exact.  Level: fault_enumeration.
//!
//! Case = column types (1–4 of: every primitive, bool, decimals, strings/binaries incl. views,
//! fixed-size binary, dictionaries of any key width, List, LargeList, Struct, FixedSizeList, Map,
//! List<Utf8View>, timestamps with tz), codec {uncompressed, lz4_frame, zstd},
//! `batch_read_buffer_capacity`, buffered/unbuffered reader, current-thread or multi-thread runtime, an
//! optional disk quota (`DiskManagerBuilder::with_max_temp_directory_size`), an optional OS file-size
//! limit, and a history over several spill files:
//! `Create` (`SpillManager::create_in_progress_file`), `Append` (`InProgressSpillFile::append_batch`),
//! `Flush`, `Finish`, `Read` (`read_spill_as_stream{,_unbuffered}` — also on an in-progress file after
//! `Flush`, which is what the spill pool does), `Drop`, `SpillAll`
//! (`spill_record_batch_and_finish`), `SetQuota` (`DiskManager::set_max_temp_directory_size`).
//! Batches are 0–50 rows (× 8 when `rep`), columns optionally padded+sliced (`bigpad`: 1 200 junk rows in
//! front, so view arrays exceed the 10 KB GC threshold and really get compacted).
//!
//! Faults: (b) quota rejections at whatever write the generated quota cuts; (d) *real* `EFBIG` write
//! errors: cases with `fsize` set are sent to a worker process — the harness binary re-executed with the
//! hidden sub-command `c21-child`, one per shard thread, one case (JSON) per stdin line, one result per
//! stdout line; the worker sets its *soft* `RLIMIT_FSIZE` to `fsize` for the duration of the case,
//! ignores `SIGXFSZ` and runs the same history, so every `write(2)` that would grow a spill file beyond
//! `fsize` bytes fails with EFBIG. Only the workers carry the limit; the parent and the other shards are
//! unaffected. (Deviation from DESIGN.md §3.8d: a persistent worker instead of one child per case —
//! process start-up dominated otherwise.)
//!
//! Oracle after every step: `used_disk_space()` = Σ `SpillFile::size()` over live files; as long as no OS
//! write error happened also = Σ on-disk length (stat) of the live files; after a *successful* write step
//! `used_disk_space()` ≤ the quota in force; `active_files_count` = number of live files; read-back
//! batches (empty batches ignored on both sides) equal the written ones one by one (schema equal to
//! the SpillManager's, columns logically equal by `ArrayData` equality — dictionary / view re-encoding
//! allowed); after the last release `used_disk_space()` = 0 and `active_files_count` = 0, including
//! after failed or rejected writes. A file whose append/flush/finish failed is only dropped afterwards
//! (its IPC writer state is undefined). Not demanded: that a rejected write really did not fit.
//!
//! Every history is completed by `Finish` on each file still in progress and `Read` of every readable file.
//!
//! Non-trivial = a read-back of ≥ 2 non-empty batches, or of a view/dictionary/nested column, or a
//! failed/rejected write followed by the release of that file.
//!
//! GENUINE DEFECT (reproduced, DESIGN.md §9 item 2): `FileSpillWriter::write` adds `len` to the global
//! `used_disk_space` before `file.write_all`; when the OS write fails the global counter is not rolled
//! back (the per-file counter is not advanced), so `used_disk_space()` ≠ Σ size() right after the failed
//! append and ≠ 0 after everything is released. Replay: /verif/regressions/C21/c21/efbig-leak.json,
//! proposed repair /verif/fixes/C21-rollback-on-write-error.diff. Until repaired the run continues behind
//! it via `known_signature` = "os-write-error" for every case with `fsize` set (known_findings.json).
//!
//! Verification of the repair: `mutrun fixes/C21-rollback-on-write-error.diff -- env VERIF_IGNORE_KNOWN=C21
//! ./check C21 quick` exits 0 with nothing excluded (729 worker cases, 170 with a real EFBIG); the same
//! command on the unchanged tree exits 1. Residual after the repair: bytes of a *partially* written buffer
//! stay on disk uncounted until the file is released (not checked: stat is skipped after an OS fault).
//!
//! Sensitivity probes (mkpatch + mutrun, `./check C21 quick`):
//!  1. disk_manager.rs: no `fetch_sub` when a write is rejected by the quota   -> VIOLATION (9 cases)
//!  2. spill/mod.rs `SpillReaderStream`: the leftover bytes of a chunk are dropped after a batch is yielded
//!     -> VIOLATION ("0 non-empty batches read back, 1 were written", 8 cases)
//!  3. spill/mod.rs `gc_array_children`: rebuilt parent loses its validity (`.nulls(None)`)
//!     -> VIOLATION (List(Utf8View): a NULL list read back as an empty list) — shows that the GC of views
//!     nested in containers is reached (needs > 10 KB of view data: `bigpad` / `rep`)
//!  (an `.offset(0)` mutant in `gc_array_children` stayed green and is equivalent: `to_data()` of list /
//!  struct / dictionary arrays always has offset 0 in arrow 59)
//!  The probe patches are kept in harness/crates/vf-plow/probes/.
use crate::keys::*;
use arrow::array::{Array, ArrayRef, RecordBatch, RecordBatchOptions};
use arrow::datatypes::{Field, Schema, SchemaRef};
use datafusion_common::config::SpillCompression;
use datafusion_execution::disk_manager::{DiskManagerBuilder, DiskManagerMode};
use datafusion_execution::runtime_env::RuntimeEnvBuilder;
use datafusion_execution::spill_file::SpillFile;
use datafusion_physical_plan::SpillManager;
use datafusion_physical_plan::metrics::{ExecutionPlanMetricsSet, SpillMetrics};
use futures::StreamExt;
use proptest::prelude::*;
use serde::{Deserialize, Serialize};
use std::io::{BufRead, Write};
use std::sync::Arc;
use std::time::Duration;
use vf_kit::engine::*;

pub struct C21 {
    /// true inside the `c21-child` process: never spawn another child
    pub local: bool,
}

#[derive(Clone, Debug, Serialize, Deserialize)]
pub struct BatchSpec {
    pub rows: Vec<Vec<Option<u8>>>,
    pub pad: u8,
    pub rot: u8,
    /// repeat the rows 8 times
    pub rep: bool,
    /// 1 200 junk rows in front of the slice
    pub bigpad: bool,
}

#[derive(Clone, Debug, Serialize, Deserialize)]
pub enum Op {
    Create,
    Append { file: u8, batch: BatchSpec },
    Flush { file: u8 },
    Finish { file: u8 },
    Read { file: u8 },
    Drop { file: u8 },
    SpillAll { batches: Vec<BatchSpec> },
    SetQuota(u64),
}

#[derive(Clone, Debug, Serialize, Deserialize)]
pub struct Case {
    pub cols: Vec<KT>,
    /// 0 uncompressed, 1 lz4_frame, 2 zstd
    pub codec: u8,
    pub read_buf: u8,
    pub buffered: bool,
    /// multi-thread runtime (the buffered reader only spawns its task there)
    pub mt: bool,
    pub quota: Option<u64>,
    /// RLIMIT_FSIZE of the child process (bytes per file); None = no OS fault injection
    pub fsize: Option<u64>,
    pub ops: Vec<Op>,
}

/// One fault-injection worker per shard thread: `<harness binary> c21-child`, one case per line in,
/// one result per line out. It dies with the parent (EOF on stdin).
struct Worker {
    child: std::process::Child,
    stdin: std::process::ChildStdin,
    stdout: std::io::BufReader<std::process::ChildStdout>,
}

impl Worker {
    fn spawn() -> Result<Worker, String> {
        let exe = std::env::current_exe().map_err(|e| format!("cannot locate the harness binary: {e}"))?;
        let mut child = std::process::Command::new(exe)
            .arg("c21-child")
            .stdin(std::process::Stdio::piped())
            .stdout(std::process::Stdio::piped())
            .stderr(std::process::Stdio::null())
            .spawn()
            .map_err(|e| format!("cannot spawn the fault-injection worker: {e}"))?;
        let stdin = child.stdin.take().ok_or("worker without stdin")?;
        let stdout = std::io::BufReader::new(child.stdout.take().ok_or("worker without stdout")?);
        Ok(Worker { child, stdin, stdout })
    }
    fn ask(&mut self, case_json: &str) -> Result<String, String> {
        self.stdin.write_all(case_json.as_bytes()).and_then(|_| self.stdin.write_all(b"\n")).and_then(|_| self.stdin.flush()).map_err(|e| format!("worker stdin: {e}"))?;
        loop {
            let mut line = String::new();
            match self.stdout.read_line(&mut line) {
                Ok(0) => return Err("worker closed its stdout".into()),
                Ok(_) if line.starts_with('{') => return Ok(line),
                Ok(_) => continue,
                Err(e) => return Err(format!("worker stdout: {e}")),
            }
        }
    }
}

thread_local! {
    static WORKER: std::cell::RefCell<Option<Worker>> = const { std::cell::RefCell::new(None) };
}

#[derive(Serialize, Deserialize)]
struct ChildResult {
    outcome: String,
    msg: String,
    labels: Vec<String>,
    nontrivial: bool,
}

fn batch_spec(nc: usize, max_rows: usize) -> BoxedStrategy<BatchSpec> {
    let cell = prop_oneof![2 => Just(None), 5 => (0u8..8).prop_map(Some), 3 => any::<u8>().prop_map(Some)];
    (prop::collection::vec(prop::collection::vec(cell, nc..=nc), 0..=max_rows), prop_oneof![2 => Just(0u8), 1 => 1u8..5], any::<u8>(), prop::bool::weighted(0.15), prop::bool::weighted(0.15))
        .prop_map(|(rows, pad, rot, rep, bigpad)| BatchSpec { rows, pad, rot, rep, bigpad })
        .boxed()
}

fn c21_kt() -> BoxedStrategy<KT> {
    prop_oneof![
        6 => scalar_kt(),
        2 => dict_kt(),
        2 => nested_kt(),
        1 => Just(KT::MapSI),
        1 => Just(KT::ListView),
        1 => Just(KT::Utf8View),
    ]
    .boxed()
}

enum St<F> {
    InProgress(F),
    Finished(Arc<dyn SpillFile>),
    /// finished without any batch: no file exists
    FinishedEmpty,
    /// a write on it failed; only Drop is legal now
    Failed(Option<F>),
    Dropped,
}

struct Slot<F> {
    st: St<F>,
    /// successfully appended batches
    written: Vec<RecordBatch>,
    flushed: bool,
}

fn cols_equal(a: &RecordBatch, b: &RecordBatch) -> Option<String> {
    if a.num_columns() != b.num_columns() || a.num_rows() != b.num_rows() {
        return Some(format!("shape {}x{} vs {}x{}", a.num_rows(), a.num_columns(), b.num_rows(), b.num_columns()));
    }
    for c in 0..a.num_columns() {
        let (x, y) = (a.column(c), b.column(c));
        if x.data_type() != y.data_type() {
            return Some(format!("column {c}: type {} vs {}", x.data_type(), y.data_type()));
        }
        if x.to_data() != y.to_data() {
            let row = (0..x.len()).find(|r| x.slice(*r, 1).to_data() != y.slice(*r, 1).to_data());
            return Some(format!(
                "column {c} ({}) differs at row {row:?}: read {:?}, written {:?}",
                x.data_type(),
                row.map(|r| format!("{:?}", x.slice(r, 1))),
                row.map(|r| format!("{:?}", y.slice(r, 1)))
            ));
        }
    }
    None
}

impl C21 {
    fn make_batch(&self, schema: &SchemaRef, cols: &[KT], spec: &BatchSpec) -> Result<RecordBatch, String> {
        let mut rows: Vec<&Vec<Option<u8>>> = spec.rows.iter().collect();
        if spec.rep {
            let base = rows.clone();
            for _ in 0..7 {
                rows.extend(base.iter().copied());
            }
        }
        let pad = if spec.bigpad { 1200 } else { spec.pad as usize };
        let arrays: Vec<ArrayRef> = cols
            .iter()
            .enumerate()
            .map(|(ci, kt)| {
                let idxs: Vec<Option<usize>> = rows.iter().map(|r| r.get(ci).copied().flatten().map(|c| norm(kt, c))).collect();
                column(kt, &idxs, pad, spec.rot as usize, true)
            })
            .collect();
        RecordBatch::try_new_with_options(Arc::clone(schema), arrays, &RecordBatchOptions::new().with_row_count(Some(rows.len()))).map_err(|e| e.to_string())
    }

    /// Send the case to this shard thread's fault-injection worker (a re-executed harness binary that
    /// applies the case's RLIMIT_FSIZE to itself) and read the verdict back.
    fn run_in_child(&self, case: &Case) -> CaseResult {
        let text = match serde_json::to_string(case) {
            Ok(t) => t,
            Err(e) => return CaseResult::inconclusive(format!("cannot serialise the case: {e}")),
        };
        let mut last_err = String::new();
        for _attempt in 0..2 {
            let line = WORKER.with(|w| -> Result<String, String> {
                let mut w = w.borrow_mut();
                if w.is_none() {
                    *w = Some(Worker::spawn()?);
                }
                let res = w.as_mut().map(|wk| wk.ask(&text)).unwrap_or_else(|| Err("no worker".into()));
                if res.is_err() {
                    if let Some(mut dead) = w.take() {
                        let _ = dead.child.kill();
                        let _ = dead.child.wait();
                    }
                }
                res
            });
            match line {
                Ok(l) => match serde_json::from_str::<ChildResult>(&l) {
                    Ok(r) => {
                        let base = match r.outcome.as_str() {
                            "pass" => CaseResult::pass(),
                            "violation" => CaseResult::violation(r.msg),
                            "discard" => CaseResult::discard(r.msg),
                            _ => CaseResult::inconclusive(r.msg),
                        };
                        return base.nontrivial(r.nontrivial).labels(r.labels).label("child-process");
                    }
                    Err(e) => last_err = format!("unreadable answer {:?}: {e}", truncate(&l, 200)),
                },
                Err(e) => last_err = e,
            }
        }
        CaseResult::inconclusive(format!("fault-injection worker gave no result: {last_err}"))
    }

    /// The history, in this process.
    pub fn run_local(&self, case: &Case) -> CaseResult {
        if case.cols.is_empty() || case.cols.len() > 4 {
            return CaseResult::discard("outside domain: 0 or more than 4 columns");
        }
        let rt = if case.mt {
            tokio::runtime::Builder::new_multi_thread().worker_threads(1).enable_all().build()
        } else {
            tokio::runtime::Builder::new_current_thread().enable_all().build()
        };
        let rt = match rt {
            Ok(r) => r,
            Err(e) => return CaseResult::inconclusive(format!("cannot build a tokio runtime: {e}")),
        };
        let dir = match tempfile::tempdir() {
            Ok(d) => d,
            Err(e) => return CaseResult::inconclusive(format!("cannot create a temp dir: {e}")),
        };
        let r = self.history(case, &rt, dir.path());
        drop(rt);
        drop(dir);
        r
    }

    fn history(&self, case: &Case, rt: &tokio::runtime::Runtime, dir: &std::path::Path) -> CaseResult {
        let schema: SchemaRef = Arc::new(Schema::new(case.cols.iter().enumerate().map(|(i, k)| Field::new(format!("c{i}"), k.data_type(), true)).collect::<Vec<_>>()));
        let mut dmb = DiskManagerBuilder::default().with_mode(DiskManagerMode::Directories(vec![dir.to_path_buf()]));
        if let Some(q) = case.quota {
            dmb = dmb.with_max_temp_directory_size(q);
        }
        let env = match RuntimeEnvBuilder::new().with_disk_manager_builder(dmb).build_arc() {
            Ok(e) => e,
            Err(e) => return CaseResult::inconclusive(format!("cannot build the runtime env: {e}")),
        };
        let dm = Arc::clone(&env.disk_manager);
        let codec = match case.codec {
            0 => SpillCompression::Uncompressed,
            1 => SpillCompression::Lz4Frame,
            _ => SpillCompression::Zstd,
        };
        let sm = SpillManager::new(Arc::clone(&env), SpillMetrics::new(&ExecutionPlanMetricsSet::new(), 0), Arc::clone(&schema))
            .with_compression_type(codec)
            .with_batch_read_buffer_capacity(case.read_buf.max(1) as usize);

        let mut labels: Vec<String> = vec![format!("codec={codec:?}").to_lowercase(), format!("cols={}", case.cols.len())];
        for k in &case.cols {
            labels.push(format!("type={}", match k {
                KT::Dict(dk, _) => format!("Dict({dk:?})"),
                o => o.name(),
            }));
        }
        if case.quota.is_some() {
            labels.push("quota-set".into());
        }
        if case.fsize.is_some() {
            labels.push("fsize-limit".into());
        }
        if case.mt {
            labels.push("multi-thread-rt".into());
        }
        let interesting_cols = case.cols.iter().any(|k| k.is_view() || k.is_nested() || matches!(k, KT::Dict(..)));
        let mut nontrivial = false;
        let mut os_fault = false;
        let mut quota_now: u64 = dm.max_temp_directory_size();
        let mut slots = Vec::new();

        macro_rules! bad {
            ($($t:tt)*) => {{
                labels.sort();
                labels.dedup();
                return CaseResult::violation(format!($($t)*)).labels(labels.clone())
            }};
        }
        // classify a write error
        macro_rules! write_failed {
            ($e:expr, $what:expr, $step:expr) => {{
                let msg = $e.to_string();
                if msg.contains("exceeded the allowable limit") {
                    labels.push("quota-reject".into());
                    labels.push(format!("quota-reject@{}", $what));
                } else if case.fsize.is_some() && (msg.contains("File too large") || msg.contains("os error 27")) {
                    os_fault = true;
                    labels.push("efbig".into());
                    labels.push(format!("efbig@{}", $what));
                } else {
                    bad!("step {}: {} failed with an error that is neither the quota nor the injected fault: {msg}", $step, $what);
                }
            }};
        }
        // used_disk_space() == sum of size() (== sum of stat while no OS fault) and active file count
        macro_rules! check_accounting {
            ($step:expr, $wrote_ok:expr) => {{
                let mut sizes: u64 = 0;
                let mut on_disk: u64 = 0;
                let mut live = 0usize;
                let mut stat_ok = true;
                for s in slots.iter() {
                    let s: &Slot<_> = s;
                    let f: Option<Arc<dyn SpillFile>> = match &s.st {
                        St::InProgress(p) => p.file().cloned(),
                        St::Failed(Some(p)) => p.file().cloned(),
                        St::Finished(f) => Some(Arc::clone(f)),
                        _ => None,
                    };
                    if let Some(f) = f {
                        live += 1;
                        sizes += f.size().unwrap_or(0);
                        match f.path().and_then(|p| std::fs::metadata(p).ok()) {
                            Some(m) => on_disk += m.len(),
                            None => stat_ok = false,
                        }
                    }
                }
                // in multi-thread mode a just-dropped reader task may still hold a file for a moment
                let mut used = dm.used_disk_space();
                let mut active = dm.spilling_progress().active_files_count;
                if case.mt && (used != sizes || active != live) {
                    for _ in 0..5000 {
                        std::thread::sleep(Duration::from_millis(1));
                        used = dm.used_disk_space();
                        active = dm.spilling_progress().active_files_count;
                        if used == sizes && active == live {
                            break;
                        }
                    }
                }
                if used != sizes {
                    bad!("step {}: used_disk_space() = {used} but the {live} live spill files report {sizes} bytes in total (os write error so far: {os_fault})", $step);
                }
                if !os_fault && stat_ok && used != on_disk {
                    bad!("step {}: used_disk_space() = {used} but the {live} live spill files hold {on_disk} bytes on disk", $step);
                }
                if active != live {
                    bad!("step {}: active_files_count = {active} but {live} spill files are live", $step);
                }
                if $wrote_ok && used > quota_now {
                    bad!("step {}: a write was admitted although used_disk_space() = {used} exceeds the limit {quota_now}", $step);
                }
            }};
        }
        // the file choice addresses the slots an op can act on: 0 = in progress, 1 = readable, 2 = not yet dropped
        macro_rules! slot_index {
            ($file:expr, $kind:expr) => {{
                let cands: Vec<usize> = slots
                    .iter()
                    .enumerate()
                    .filter(|(_, s)| {
                        let s: &Slot<_> = s;
                        match $kind {
                            0 => matches!(s.st, St::InProgress(_)),
                            1 => matches!(s.st, St::Finished(_)) || (matches!(s.st, St::InProgress(_)) && s.flushed && s.written.iter().any(|b| b.num_rows() > 0)),
                            _ => !matches!(s.st, St::Dropped),
                        }
                    })
                    .map(|(i, _)| i)
                    .collect();
                if cands.is_empty() {
                    continue;
                }
                cands[pick_index(($file as u16) << 8, cands.len())]
            }};
        }

        // every history ends by finishing whatever is still in progress and reading every readable file back
        let mut ops = case.ops.clone();
        for _ in 0..6 {
            ops.push(Op::Finish { file: 0 });
        }
        for f in [0u8, 43, 86, 128, 171, 214] {
            ops.push(Op::Read { file: f });
        }
        for (step, op) in ops.iter().enumerate() {
            let mut wrote_ok = false;
            match op {
                Op::Create => {
                    if slots.len() >= 6 {
                        continue;
                    }
                    match sm.create_in_progress_file("c21") {
                        Ok(f) => slots.push(Slot { st: St::InProgress(f), written: vec![], flushed: false }),
                        Err(e) => bad!("step {step}: create_in_progress_file failed: {e}"),
                    }
                    labels.push("op=create".into());
                }
                Op::Append { file, batch } => {
                    let i = slot_index!(*file, 0);
                    let b = match self.make_batch(&schema, &case.cols, batch) {
                        Ok(b) => b,
                        Err(e) => return CaseResult::discard(format!("harness: cannot build batch: {e}")),
                    };
                    let slot: &mut Slot<_> = &mut slots[i];
                    let St::InProgress(f) = &mut slot.st else { continue };
                    match f.append_batch(&b) {
                        Ok(_) => {
                            slot.written.push(b);
                            slot.flushed = false;
                            wrote_ok = true;
                            labels.push("op=append".into());
                            if batch.bigpad {
                                labels.push("bigpad-slice".into());
                            }
                        }
                        Err(e) => {
                            write_failed!(e, "append", step);
                            let old = std::mem::replace(&mut slot.st, St::Dropped);
                            if let St::InProgress(f) = old {
                                slot.st = St::Failed(Some(f));
                            }
                        }
                    }
                }
                Op::Flush { file } => {
                    let i = slot_index!(*file, 0);
                    let slot: &mut Slot<_> = &mut slots[i];
                    let St::InProgress(f) = &mut slot.st else { continue };
                    match f.flush() {
                        Ok(()) => {
                            slot.flushed = true;
                            labels.push("op=flush".into());
                        }
                        Err(e) => {
                            write_failed!(e, "flush", step);
                            let old = std::mem::replace(&mut slot.st, St::Dropped);
                            if let St::InProgress(f) = old {
                                slot.st = St::Failed(Some(f));
                            }
                        }
                    }
                }
                Op::Finish { file } => {
                    let i = slot_index!(*file, 0);
                    let slot: &mut Slot<_> = &mut slots[i];
                    let St::InProgress(f) = &mut slot.st else { continue };
                    match f.finish() {
                        Ok(Some(sf)) => {
                            if slot.written.is_empty() {
                                bad!("step {step}: finish returned a file although nothing was appended");
                            }
                            slot.st = St::Finished(sf);
                            wrote_ok = true;
                            labels.push("op=finish".into());
                        }
                        Ok(None) => {
                            if !slot.written.is_empty() {
                                bad!("step {step}: finish returned None although {} batches were appended", slot.written.len());
                            }
                            slot.st = St::FinishedEmpty;
                            labels.push("op=finish-empty".into());
                        }
                        Err(e) => {
                            write_failed!(e, "finish", step);
                            let old = std::mem::replace(&mut slot.st, St::Dropped);
                            if let St::InProgress(f) = old {
                                slot.st = St::Failed(Some(f));
                            }
                        }
                    }
                }
                Op::SpillAll { batches } => {
                    if slots.len() >= 6 {
                        continue;
                    }
                    let mut bs = vec![];
                    for spec in batches {
                        match self.make_batch(&schema, &case.cols, spec) {
                            Ok(b) => bs.push(b),
                            Err(e) => return CaseResult::discard(format!("harness: cannot build batch: {e}")),
                        }
                    }
                    match sm.spill_record_batch_and_finish(&bs, "c21-all") {
                        Ok(Some(sf)) => {
                            if bs.is_empty() {
                                bad!("step {step}: spill_record_batch_and_finish returned a file for no batches");
                            }
                            slots.push(Slot { st: St::Finished(sf), written: bs, flushed: true });
                            wrote_ok = true;
                            labels.push("op=spill-all".into());
                        }
                        Ok(None) => {
                            if !bs.is_empty() {
                                bad!("step {step}: spill_record_batch_and_finish returned None for {} batches", bs.len());
                            }
                        }
                        Err(e) => {
                            // the in-progress file was dropped inside the call: everything it held must be released
                            write_failed!(e, "spill-all", step);
                            labels.push("fault-then-release".into());
                            nontrivial = true;
                        }
                    }
                }
                Op::Read { file } => {
                    let i = slot_index!(*file, 1);
                    let slot: &Slot<_> = &slots[i];
                    let (sf, in_progress): (Arc<dyn SpillFile>, bool) = match &slot.st {
                        St::Finished(f) => (Arc::clone(f), false),
                        // the spill pool reads a file that is still being written, after a flush
                        St::InProgress(p) if slot.flushed && !slot.written.is_empty() => match p.file() {
                            Some(f) => (Arc::clone(f), true),
                            None => continue,
                        },
                        _ => continue,
                    };
                    let want: Vec<&RecordBatch> = slot.written.iter().filter(|b| b.num_rows() > 0).collect();
                    if in_progress && want.is_empty() {
                        continue;
                    }
                    let n_want = want.len();
                    let stream = if case.buffered { sm.read_spill_as_stream(sf, None) } else { sm.read_spill_as_stream_unbuffered(sf, None) };
                    let res: Result<Result<Vec<RecordBatch>, String>, _> = rt.block_on(async {
                        tokio::time::timeout(Duration::from_secs(30), async {
                            let mut stream = stream.map_err(|e| e.to_string())?;
                            let mut got = vec![];
                            let mut nonempty = 0usize;
                            while let Some(item) = stream.next().await {
                                let b = item.map_err(|e| e.to_string())?;
                                if b.num_rows() > 0 {
                                    nonempty += 1;
                                }
                                got.push(b);
                                // an unfinished file has no end-of-stream marker: stop after what was written
                                if in_progress && nonempty == n_want {
                                    break;
                                }
                            }
                            Ok(got)
                        })
                        .await
                    });
                    let got = match res {
                        Err(_) => return CaseResult::inconclusive(format!("step {step}: reading the spill file back did not finish within 30s")),
                        Ok(Err(e)) => bad!("step {step}: reading the spill file back failed: {e}"),
                        Ok(Ok(g)) => g,
                    };
                    for b in &got {
                        if b.schema() != schema {
                            bad!("step {step}: a batch read back has schema {:?}, written with {:?}", b.schema(), schema);
                        }
                    }
                    let got: Vec<&RecordBatch> = got.iter().filter(|b| b.num_rows() > 0).collect();
                    if got.len() != want.len() {
                        bad!(
                            "step {step}: {} non-empty batches read back, {} were written (rows read {:?}, rows written {:?})",
                            got.len(),
                            want.len(),
                            got.iter().map(|b| b.num_rows()).collect::<Vec<_>>(),
                            want.iter().map(|b| b.num_rows()).collect::<Vec<_>>()
                        );
                    }
                    for (bi, (g, w)) in got.iter().zip(want.iter()).enumerate() {
                        if let Some(d) = cols_equal(g, w) {
                            bad!("step {step}: batch {bi} read back differs from what was written: {d}");
                        }
                    }
                    labels.push(if in_progress { "op=read-in-progress".into() } else { "op=read".into() });
                    labels.push(if case.buffered { "reader=buffered".into() } else { "reader=unbuffered".into() });
                    if want.len() >= 2 || (interesting_cols && !want.is_empty()) {
                        nontrivial = true;
                    }
                    if want.len() >= 2 {
                        labels.push("read>=2-batches".into());
                    }
                }
                Op::Drop { file } => {
                    let i = slot_index!(*file, 2);
                    let slot: &mut Slot<_> = &mut slots[i];
                    let old = std::mem::replace(&mut slot.st, St::Dropped);
                    match old {
                        St::Failed(_) => {
                            labels.push("fault-then-release".into());
                            nontrivial = true;
                        }
                        St::InProgress(_) => labels.push("op=drop-in-progress".into()),
                        St::Finished(_) => labels.push("op=drop".into()),
                        _ => {}
                    }
                    slot.written.clear();
                }
                Op::SetQuota(q) => {
                    if let Err(e) = dm.set_max_temp_directory_size(*q) {
                        bad!("step {step}: set_max_temp_directory_size({q}) failed: {e}");
                    }
                    quota_now = *q;
                    if dm.max_temp_directory_size() != *q {
                        bad!("step {step}: max_temp_directory_size() = {} after setting {q}", dm.max_temp_directory_size());
                    }
                    labels.push("op=set-quota".into());
                }
            }
            check_accounting!(step, wrote_ok);
        }
        // release everything
        let had_failed = slots.iter().any(|s: &Slot<_>| matches!(s.st, St::Failed(_)));
        for s in slots.iter_mut() {
            s.st = St::Dropped;
            s.written.clear();
        }
        if had_failed {
            labels.push("fault-then-release".into());
            nontrivial = true;
        }
        check_accounting!("final (everything released)", false);
        if dm.used_disk_space() != 0 {
            bad!("after releasing every spill file used_disk_space() = {}", dm.used_disk_space());
        }
        drop(slots);
        labels.sort();
        labels.dedup();
        CaseResult::pass().nontrivial(nontrivial).labels(labels)
    }
}

/// Entry of the hidden `c21-child` sub-command: a worker loop — one case (JSON) per stdin line, one
/// result (JSON) per stdout line. For each case the *soft* RLIMIT_FSIZE of this process is set to the
/// case's `fsize` (the hard limit stays unlimited so it can be lifted again) and SIGXFSZ is ignored, so
/// `write(2)` beyond the limit fails with EFBIG instead of killing the process.
pub fn child_main() -> i32 {
    install_panic_hook();
    // SAFETY: plain libc calls on this single-purpose process
    unsafe {
        libc::signal(libc::SIGXFSZ, libc::SIG_IGN);
    }
    let set_limit = |cur: libc::rlim_t| -> bool {
        let lim = libc::rlimit { rlim_cur: cur, rlim_max: libc::RLIM_INFINITY };
        // SAFETY: see above
        unsafe { libc::setrlimit(libc::RLIMIT_FSIZE, &lim) == 0 }
    };
    let stdin = std::io::stdin();
    let mut line = String::new();
    let p = C21 { local: true };
    loop {
        line.clear();
        match std::io::BufRead::read_line(&mut stdin.lock(), &mut line) {
            Ok(0) | Err(_) => return 0,
            Ok(_) => {}
        }
        if line.trim().is_empty() {
            continue;
        }
        let out = match serde_json::from_str::<Case>(&line) {
            Err(e) => ChildResult { outcome: "inconclusive".into(), msg: format!("worker cannot parse the case: {e}"), labels: vec![], nontrivial: false },
            Ok(case) => {
                let limited = match case.fsize {
                    Some(l) => set_limit(l as libc::rlim_t),
                    None => true,
                };
                let r = if !limited {
                    CaseResult::inconclusive("setrlimit(RLIMIT_FSIZE) failed")
                } else {
                    match run_guarded(&p, &case) {
                        Ok(r) => r,
                        Err(h) => CaseResult::inconclusive(format!("harness panic in the worker: {h}")),
                    }
                };
                set_limit(libc::RLIM_INFINITY);
                let (outcome, msg) = match &r.outcome {
                    Outcome::Pass => ("pass", String::new()),
                    Outcome::Violation(m) => ("violation", m.clone()),
                    Outcome::Discard(m) => ("discard", m.clone()),
                    Outcome::Inconclusive(m) => ("inconclusive", m.clone()),
                };
                ChildResult { outcome: outcome.into(), msg, labels: r.labels.clone(), nontrivial: r.nontrivial }
            }
        };
        let mut so = std::io::stdout().lock();
        if writeln!(so, "{}", serde_json::to_string(&out).unwrap_or_default()).and_then(|_| so.flush()).is_err() {
            return 0;
        }
    }
}

impl Property for C21 {
    type Case = Case;
    fn id(&self) -> &'static str {
        "C21"
    }
    fn sub(&self) -> &'static str {
        "c21"
    }
    fn level(&self) -> &'static str {
        "fault_enumeration"
    }
    fn strategy(&self, tier: Tier) -> BoxedStrategy<Case> {
        let max_rows = tier.pick(30usize, 50);
        let max_ops = tier.pick(14usize, 30);
        let head = (
            prop::collection::vec(c21_kt(), 1..=4),
            0u8..3,
            1u8..4,
            any::<bool>(),
            prop::bool::weighted(0.2),
            prop_oneof![4 => Just(None), 1 => (200u64..6000).prop_map(Some), 1 => (6000u64..60_000).prop_map(Some)],
            prop_oneof![5 => Just(None), 1 => (100u64..4000).prop_map(Some), 1 => (4000u64..40_000).prop_map(Some)],
        );
        head.prop_flat_map(move |(cols, codec, read_buf, buffered, mt, quota, fsize)| {
            let nc = cols.len();
            let op = prop_oneof![
                2 => Just(Op::Create),
                8 => (any::<u8>(), batch_spec(nc, max_rows)).prop_map(|(file, batch)| Op::Append { file, batch }),
                2 => any::<u8>().prop_map(|file| Op::Flush { file }),
                3 => any::<u8>().prop_map(|file| Op::Finish { file }),
                4 => any::<u8>().prop_map(|file| Op::Read { file }),
                2 => any::<u8>().prop_map(|file| Op::Drop { file }),
                2 => prop::collection::vec(batch_spec(nc, max_rows), 0..=4).prop_map(|batches| Op::SpillAll { batches }),
                1 => prop_oneof![(0u64..8000), (8000u64..100_000), Just(u64::MAX)].prop_map(Op::SetQuota),
            ];
            // every history starts with a file so that the early ops have a target
            prop::collection::vec(op, 1..=max_ops).prop_map(move |mut ops| {
                ops.insert(0, Op::Create);
                Case { cols: cols.clone(), codec, read_buf, buffered, mt, quota, fsize, ops }
            })
        })
        .boxed()
    }
    fn budget(&self, tier: Tier) -> Budget {
        Budget::new(tier.pick(2_000, 100_000), tier.pick(8, 16)).min_nontrivial(tier.pick(300, 10_000)).case_timeout(180)
    }
    fn rule(&self) -> String {
        "1-4 columns over the spillable type set, codec x reader x runtime flavour, optional disk quota and (1 in 3.5) an OS file-size limit applied in a re-executed child process, \
         history of <= 15/31 ops Create / Append(0-30/0-50 rows, x8, padded+sliced) / Flush / Finish / Read / Drop / SpillAll / SetQuota over <= 6 files; \
         non-trivial = a read-back of >= 2 non-empty batches or of a view/dictionary/nested column, or a failed/rejected write followed by the release of that file; distinct by case JSON"
            .into()
    }
    fn assumptions(&self) -> Vec<String> {
        vec![
            "arrow's ArrayData equality is the logical comparison of written and read-back columns".into(),
            "a spill file whose append/flush/finish failed is only dropped afterwards".into(),
            "RLIMIT_FSIZE + ignored SIGXFSZ in a child process is a faithful stand-in for ENOSPC-like write errors".into(),
            "spurious quota rejections (a rejected write that would have fitted) are not checked".into(),
        ]
    }
    fn known_signature(&self, case: &Case) -> Option<String> {
        // every real OS write failure leaks the bytes of the failed write (see header); the whole
        // OS-fault sub-family is excluded while the finding is open
        if std::env::var("VERIF_IGNORE_KNOWN").map(|v| v.split(',').any(|x| x == "C21")).unwrap_or(false) {
            return None; // used with mutrun to check a candidate repair against the whole fault family
        }
        case.fsize.map(|_| "os-write-error".to_string())
    }
    fn run(&self, case: &Case) -> CaseResult {
        if self.local || case.fsize.is_none() { self.run_local(case) } else { self.run_in_child(case) }
    }
}
