//! C14 — join hash table lookups return exactly the matching build rows.
//!
//! Everything needed is public: `datafusion_physical_plan::joins::join_hash_map::{JoinHashMapU32,
//! JoinHashMapU64, JoinHashMapType}` (`MapOffset` is a crate-private *alias* of `(usize, Option<u64>)`,
//! so the tuple type is used directly). No hook needed.
//!
//! Domain: a pool of 1–6 hash values (biased to values that share hashbrown's control byte / bucket
//! bits: 0, 1, 2^32, 2^57, u64::MAX …), a build side of 0–64 (quick) / 0–200 (thorough) rows drawn
//! from the pool (→ long chains) with some rows marked NULL-key (= never inserted, as
//! `update_hash` does under NullEqualsNothing), inserted through `update_from_iter` in 1–4 batches
//! with ascending row offsets (the hash join's order; descending at low weight), each batch in
//! forward or reversed (`fifo_hashmap`) row order; capacity = rows (+ optional slack); `U32` and `U64`
//! maps; probe side of 0–32/0–100 hashes from pool ∪ misses with an optional validity mask; a cycled
//! sequence of page limits ≥ 1; optional `deleted_offset` > 0 (rows numbered from the offset; only the
//! iterator form `get_matched_indices(.., Some(offset))` supports it, so the paged API is skipped then).
//!
//! Oracle (model = linear scan): unpaged `get_matched_indices_with_limit_offset` (limit 2^20) returns,
//! for every unmasked probe row, exactly the inserted build rows with an equal hash (multiset per
//! probe row; nothing for masked rows; probe indices non-decreasing) and `None`; paging with any limit
//! sequence, resuming from every returned offset, concatenates to the *same sequence*, each page holds
//! ≤ limit pairs and the page count is bounded (termination); `contain_hashes` ⇔ some inserted row has
//! the hash; `len()` = distinct inserted hashes, `is_empty()`; `get_matched_indices` (iterator form,
//! `None` / `Some(offset)`) agrees as a multiset.
//!
//! Non-trivial = a page boundary cut a chain (a returned offset `(i, Some(next))` with next ≠ 0).
//! Guards: limit ≥ 1 (callers pass batch_size ≥ 1), "unlimited" is 2^20, not usize::MAX (`start + limit`
//! would overflow; real callers pass a batch size).
//!
//! Sensitivity probes (patches kept in harness/crates/vf-plow/probes/; mkpatch + mutrun, `./check C14 quick`; all detected within 40 cases):
//!  1. join_hash_map.rs `(idx, Some(0)) => idx + 1` → `=> idx` (finished probe row processed again)
//!     -> VIOLATION "paged lookup did not finish within N pages"
//!  2. join_hash_map.rs unique-key fast path tests `valid.is_null(i)` instead of `valid.is_null(start + i)`
//!     -> VIOLATION "concatenated pages differ from the unpaged lookup" (masked row matched on a later page)
//!  3. chain.rs `if is_last_input && next == zero` → `if next == zero` (lookup ends early when a chain ends
//!     exactly on the page limit) -> VIOLATION (panic: `remaining -= 1` underflows on the resumed call)
use arrow::array::Array;
use arrow::buffer::NullBuffer;
use datafusion_physical_plan::joins::join_hash_map::{JoinHashMapType, JoinHashMapU32, JoinHashMapU64};
use proptest::prelude::*;
use serde::{Deserialize, Serialize};
use std::collections::BTreeSet;
use vf_kit::engine::*;

pub struct C14;

#[derive(Clone, Debug, Serialize, Deserialize)]
pub struct Case {
    /// JoinHashMapU64 instead of U32
    pub wide: bool,
    /// distinct-ish hash values the build side draws from
    pub pool: Vec<u64>,
    /// hash values only the probe side may use (misses, unless equal to a pool value)
    pub miss: Vec<u64>,
    /// build rows: index into `pool` (monotone u16 choice); None = NULL key, row not inserted
    pub build: Vec<Option<u16>>,
    /// batch cut points (monotone u16 choices over 0..=rows)
    pub cuts: Vec<u16>,
    /// insert each batch through `iter.rev()` (the hash join's fifo_hashmap = true)
    pub rev_rows: bool,
    /// visit the batches from the highest offset to the lowest
    pub desc_batches: bool,
    /// capacity = rows + slack
    pub slack: u8,
    /// rows are numbered from this offset (deleted_offset of update_from_iter)
    pub doff: u8,
    /// probe rows: (choice into pool ++ miss, valid)
    pub probe: Vec<(u16, bool)>,
    /// pass a validity mask at all
    pub masked: bool,
    /// page limits (each mapped to 1..=pairs+2, cycled)
    pub limits: Vec<u16>,
    /// all build rows get distinct hashes (pool[0] + row * odd step), none is NULL, no slack: the map takes
    /// the unique-key fast path; probe choices then select a build row's hash (or a miss)
    #[serde(default)]
    pub unique: bool,
}

fn pool_value() -> BoxedStrategy<u64> {
    let special = prop::sample::select(vec![
        0u64,
        1,
        2,
        3,
        1 << 7,
        1 << 32,
        1 << 57,
        (1 << 57) + 1,
        1 << 63,
        u64::MAX,
        u64::MAX - 1,
        0x0101_0101_0101_0101,
        0xfe00_0000_0000_0000,
        0xfe00_0000_0000_0001,
        10,
        20,
    ]);
    prop_oneof![3 => special, 1 => any::<u64>()].boxed()
}

const BIG: usize = 1 << 20;

impl Property for C14 {
    type Case = Case;
    fn id(&self) -> &'static str {
        "C14"
    }
    fn sub(&self) -> &'static str {
        "c14"
    }
    fn strategy(&self, tier: Tier) -> BoxedStrategy<Case> {
        let max_build = tier.pick(64usize, 200);
        let max_probe = tier.pick(32usize, 100);
        (
            (any::<bool>(), prop::collection::vec(pool_value(), 1..=6), prop::collection::vec(pool_value(), 0..=2)),
            prop::collection::vec(prop::option::weighted(0.9, any::<u16>()), 0..=max_build),
            (prop::collection::vec(any::<u16>(), 0..=3), any::<bool>(), prop::bool::weighted(0.15), prop_oneof![4 => Just(0u8), 1 => 0u8..4], prop_oneof![9 => Just(0u8), 1 => 1u8..20]),
            prop::collection::vec((any::<u16>(), prop::bool::weighted(0.8)), 0..=max_probe),
            prop::bool::weighted(0.6),
            (prop::collection::vec(any::<u16>(), 1..=4), prop::bool::weighted(0.2)),
        )
            .prop_map(|((wide, pool, miss), build, (cuts, rev_rows, desc_batches, slack, doff), probe, masked, (limits, unique))| Case {
                wide,
                pool,
                miss,
                build,
                cuts,
                rev_rows,
                desc_batches,
                slack,
                doff,
                probe,
                masked,
                limits,
                unique,
            })
            .boxed()
    }
    fn budget(&self, tier: Tier) -> Budget {
        Budget::new(tier.pick(300_000, 12_000_000), tier.pick(8, 16)).min_nontrivial(tier.pick(50_000, 1_000_000))
    }
    fn rule(&self) -> String {
        "build side 0-64/0-200 rows over a pool of <= 6 hash values (long chains, NULL-key rows skipped) inserted via update_from_iter in 1-4 batches (forward/reversed rows), U32/U64 map, \
         probe 0-32/0-100 hashes with optional validity mask, cycled page limits >= 1; non-trivial = some page boundary cut a chain (returned offset (i, Some(next != 0))); distinct by case JSON"
            .into()
    }
    fn assumptions(&self) -> Vec<String> {
        vec![
            "every build row is inserted at most once with its own row number (what update_hash does)".into(),
            "page limit >= 1; 'unlimited' is 2^20".into(),
            "the order of build indices within one probe row's matches is not part of the property (compared as a multiset), the paged concatenation is compared to the unpaged call as a sequence".into(),
        ]
    }
    fn run(&self, case: &Case) -> CaseResult {
        if case.pool.is_empty() || case.limits.is_empty() {
            return CaseResult::discard("outside domain: empty pool / no limits");
        }
        let n = case.build.len();
        let doff = case.doff as usize;
        let build: Vec<Option<u64>> = if case.unique {
            let step = case.miss.first().copied().unwrap_or(1) | 1;
            (0..n).map(|r| Some(case.pool[0].wrapping_add((r as u64).wrapping_mul(step)))).collect()
        } else {
            case.build.iter().map(|b| b.map(|c| case.pool[pick_index(c, case.pool.len())])).collect()
        };
        let mut probe_src: Vec<u64> = if case.unique { build.iter().flatten().copied().collect() } else { case.pool.clone() };
        if probe_src.is_empty() {
            probe_src.push(case.pool[0]);
        }
        probe_src.extend_from_slice(&case.miss);
        let probe: Vec<u64> = case.probe.iter().map(|(c, _)| probe_src[pick_index(*c, probe_src.len())]).collect();
        let valid: Vec<bool> = case.probe.iter().map(|(_, v)| !case.masked || *v).collect();
        let cap = if case.unique { n } else { n + case.slack as usize };

        // ---- build
        let mut map: Box<dyn JoinHashMapType> = if case.wide { Box::new(JoinHashMapU64::with_capacity(cap)) } else { Box::new(JoinHashMapU32::with_capacity(cap)) };
        let mut bounds: Vec<usize> = case.cuts.iter().map(|c| pick_index(*c, n + 1)).collect();
        bounds.push(0);
        bounds.push(n);
        bounds.sort_unstable();
        bounds.dedup();
        let mut batches: Vec<(usize, usize)> = bounds.windows(2).map(|w| (w[0], w[1])).collect();
        if case.desc_batches {
            batches.reverse();
        }
        // hash values of each batch live in their own Vec, as the hashes_buffer of update_hash does
        for (s, e) in &batches {
            let hashes: Vec<u64> = (*s..*e).map(|r| build[r].unwrap_or(0)).collect();
            map.extend_zero(e - s);
            let it = hashes.iter().enumerate().filter(|(i, _)| build[s + i].is_some()).map(|(i, h)| (i + s + doff, h));
            if case.rev_rows {
                map.update_from_iter(Box::new(it.rev()), doff);
            } else {
                map.update_from_iter(Box::new(it), doff);
            }
        }

        // ---- model
        let inserted: Vec<(usize, u64)> = build.iter().enumerate().filter_map(|(r, h)| h.map(|h| (r, h))).collect();
        let distinct: BTreeSet<u64> = inserted.iter().map(|x| x.1).collect();
        let expect_for = |h: u64| -> Vec<u64> { inserted.iter().filter(|x| x.1 == h).map(|x| x.0 as u64).collect() };

        let mut labels: Vec<String> = vec![if case.wide { "u64".into() } else { "u32".into() }];
        let mut lab = |s: &str| labels.push(s.to_string());
        if n == 0 {
            lab("empty-build");
        }
        if probe.is_empty() {
            lab("empty-probe");
        }
        if batches.len() > 1 {
            lab("multi-batch");
        }
        if case.rev_rows {
            lab("rev-rows");
        }
        if case.desc_batches && batches.len() > 1 {
            lab("desc-batches");
        }
        if build.iter().any(|b| b.is_none()) {
            lab("null-build-rows");
        }
        if case.slack > 0 {
            lab("slack-capacity");
        }
        if distinct.len() == cap {
            lab("unique-fast-path");
        }
        if case.masked && valid.iter().any(|v| !v) {
            lab("masked-rows");
        }
        if case.masked && !valid.is_empty() && valid.iter().all(|v| !v) {
            lab("all-masked");
        }
        if probe.iter().any(|h| !distinct.contains(h)) {
            lab("probe-miss");
        }
        let longest = distinct.iter().map(|h| expect_for(*h).len()).max().unwrap_or(0);
        if longest >= 8 {
            lab("chain>=8");
        }
        if doff > 0 {
            lab("deleted-offset");
        }

        macro_rules! bad {
            ($($t:tt)*) => {
                return CaseResult::violation(format!($($t)*)).labels(labels.clone())
            };
        }

        // ---- len / is_empty / contain_hashes
        if map.len() != distinct.len() {
            bad!("len() = {} but {} distinct hashes were inserted", map.len(), distinct.len());
        }
        if map.is_empty() != distinct.is_empty() {
            bad!("is_empty() = {} with {} distinct hashes", map.is_empty(), distinct.len());
        }
        let ch = map.contain_hashes(&probe);
        if ch.len() != probe.len() || ch.null_count() != 0 {
            bad!("contain_hashes returned {} values ({} nulls) for {} hashes", ch.len(), ch.null_count(), probe.len());
        }
        for (i, h) in probe.iter().enumerate() {
            if ch.value(i) != distinct.contains(h) {
                bad!("contain_hashes[{i}] = {} for hash {h}, model says {}", ch.value(i), distinct.contains(h));
            }
        }

        // ---- iterator form
        for d in [None, Some(doff)] {
            if d.is_none() && doff > 0 {
                continue;
            }
            let (pi, bi) = map.get_matched_indices(Box::new(probe.iter().enumerate()), d);
            if pi.len() != bi.len() {
                bad!("get_matched_indices returned {} probe and {} build indices", pi.len(), bi.len());
            }
            let mut got: Vec<(u32, u64)> = pi.iter().copied().zip(bi.iter().copied()).collect();
            got.sort_unstable();
            let mut want: Vec<(u32, u64)> = vec![];
            for (i, h) in probe.iter().enumerate() {
                for b in expect_for(*h) {
                    want.push((i as u32, b));
                }
            }
            want.sort_unstable();
            if got != want {
                bad!("get_matched_indices(deleted_offset={d:?}) returned pairs {got:?}, expected {want:?} (build {build:?}, probe {probe:?})");
            }
        }
        if doff > 0 {
            // the paged API has no deleted_offset parameter
            return CaseResult::pass().labels(labels);
        }

        // ---- unpaged lookup
        let nulls = if case.masked { Some(NullBuffer::from(valid.clone())) } else { None };
        let mut pi: Vec<u32> = vec![7, 7, 7]; // must be cleared by the call
        let mut bi: Vec<u64> = vec![9];
        let next = map.get_matched_indices_with_limit_offset(&probe, nulls.as_ref(), BIG, (0, None), &mut pi, &mut bi);
        if next.is_some() {
            bad!("unpaged lookup (limit {BIG}) returned a continuation offset {next:?}");
        }
        if pi.len() != bi.len() {
            bad!("lookup returned {} probe and {} build indices", pi.len(), bi.len());
        }
        let full: Vec<(u32, u64)> = pi.iter().copied().zip(bi.iter().copied()).collect();
        if full.windows(2).any(|w| w[0].0 > w[1].0) {
            bad!("probe indices of the lookup are not non-decreasing: {full:?}");
        }
        let mut pos = 0usize;
        let mut total = 0usize;
        for (i, h) in probe.iter().enumerate() {
            let mut want = if valid[i] { expect_for(*h) } else { vec![] };
            let mut got: Vec<u64> = vec![];
            while pos < full.len() && full[pos].0 as usize == i {
                got.push(full[pos].1);
                pos += 1;
            }
            got.sort_unstable();
            want.sort_unstable();
            total += want.len();
            if got != want {
                bad!(
                    "probe row {i} (hash {h}, valid={}) matched build rows {got:?}, expected {want:?} (build {build:?}, probe {probe:?}, mask {:?})",
                    valid[i],
                    if case.masked { Some(&valid) } else { None }
                );
            }
        }
        if pos != full.len() {
            bad!("lookup returned pairs for probe indices outside 0..{}: {:?}", probe.len(), &full[pos..]);
        }

        // ---- paged lookup
        let max_pages = total + probe.len() + 2;
        let mut offset: (usize, Option<u64>) = (0, None);
        let mut paged: Vec<(u32, u64)> = vec![];
        let mut pages = 0usize;
        let mut chain_cut = false;
        let mut resumed_at_chain_end = false;
        let mut empty_page = false;
        loop {
            let limit = 1 + pick_index(case.limits[pages % case.limits.len()], total + 2);
            let next = map.get_matched_indices_with_limit_offset(&probe, nulls.as_ref(), limit, offset, &mut pi, &mut bi);
            pages += 1;
            if pi.len() != bi.len() {
                bad!("page {pages}: {} probe and {} build indices", pi.len(), bi.len());
            }
            if pi.len() > limit {
                bad!("page {pages} holds {} pairs, limit was {limit}", pi.len());
            }
            if pi.is_empty() {
                empty_page = true;
            }
            paged.extend(pi.iter().copied().zip(bi.iter().copied()));
            match next {
                None => break,
                Some(o) => {
                    match o.1 {
                        Some(0) => resumed_at_chain_end = true,
                        Some(_) => chain_cut = true,
                        None => {}
                    }
                    if o.0 >= probe.len() {
                        bad!("page {pages}: continuation offset {o:?} points past the {} probe rows", probe.len());
                    }
                    offset = o;
                }
            }
            if pages > max_pages {
                bad!("paged lookup did not finish within {max_pages} pages (limits {:?}, last offset {offset:?}; build {build:?}, probe {probe:?})", case.limits);
            }
        }
        if paged != full {
            bad!(
                "concatenated pages differ from the unpaged lookup: paged {paged:?}, unpaged {full:?} (limits {:?}, build {build:?}, probe {probe:?}, mask {:?})",
                case.limits,
                if case.masked { Some(&valid) } else { None }
            );
        }
        let mut lab = |s: &str| labels.push(s.to_string());
        if chain_cut {
            lab("chain-cut");
        }
        if resumed_at_chain_end {
            lab("resume-at-chain-end");
        }
        if empty_page {
            lab("empty-page");
        }
        if pages > 1 {
            lab("multi-page");
        }
        if total == 0 {
            lab("no-matches");
        }
        CaseResult::pass().nontrivial(chain_cut).labels(labels)
    }
}
