//! C11 — hash partition index equals `hash mod partition count`.
//!
//! Two layers in one case type.
//!  * `Hook`: `repartition::verif_hooks::strength_reduced_remainder(h, d)` (hook H3, the same
//!    `StrengthReducedU64::new` + mask / `quotient` code the partitioner runs) against Rust's `h % d`
//!    for every divisor 1..=u64::MAX. A case is ONE divisor and up to 64 (quick) / 256 (thorough)
//!    hashes; for every generated hash `h` the neighbours `q*d`, `q*d-1`, `q*d+d-1` (q = h / d) are
//!    checked too, so one case is 4 pairs per hash. Divisors and hashes are boundary-biased
//!    (2^k, 2^k±1, 3·2^k, primes next to 2^32 / 2^63 / 2^64, u64::MAX, small, random; hashes 0, d−1,
//!    d, d+1, q·d−1, q·d, q·d+1, 2^64−d, u64::MAX, random).
//!  * `Public`: a UInt64 key column + a row-index column go through
//!    `BatchPartitioner::new_hash_partitioner([col v], d)` + `partition_iter` for d ≤ 65 536; the row
//!    hashes are recomputed with the public `create_hashes(.., REPARTITION_RANDOM_STATE)` (exactly
//!    what `partition_iter` does) and every input row must come out exactly once, in partition
//!    `hash % d`, with its key value intact. This covers `partition_indices` + `partition_grouped_take`.
//!  * `extra`: deterministic sweep of all divisors 1..=65 536 (quick; 1..=2^20 thorough) × 14
//!    boundary hashes through the hook.
//!
//! Oracle: `%` of the Rust language. Non-trivial = divisor not a power of two and some hash ≥ divisor.
//! Pair counters (`pairs_checked`, `pairs_nontrivial`) are reported in the evidence coverage.
//!
//! Deviations from DESIGN.md: no libFuzzer target (thorough is the proptest runner only); thorough
//! explores 10^6 cases ≈ 5·10^8 pairs instead of 2·10^9.
//!
//! Sensitivity probes (patches kept in harness/crates/vf-plow/probes/; mkpatch + mutrun, `./check C11 quick`; all three detected within 2 cases):
//!  1. reciprocal without the `+ 1` (`u128::MAX / u128::from(divisor)`)   -> VIOLATION (d=3, h=u64::MAX gives 3)
//!  2. carry from the low half only (`(low_product >> 64) >> 64`)          -> VIOLATION (d=3, h=u64::MAX)
//!  3. `PowerOfTwo { mask: divisor }`                                       -> VIOLATION (d=1, h=u64::MAX gives 1)
use arrow::array::{Array, ArrayRef, UInt32Array, UInt64Array};
use arrow::datatypes::{DataType, Field, Schema};
use arrow::record_batch::RecordBatch;
use datafusion_physical_expr::expressions::Column;
use datafusion_physical_plan::PhysicalExpr;
use datafusion_physical_plan::hash_utils::create_hashes;
use datafusion_physical_plan::metrics::Time;
use datafusion_physical_plan::repartition::verif_hooks::strength_reduced_remainder;
use datafusion_physical_plan::repartition::{BatchPartitioner, REPARTITION_RANDOM_STATE};
use proptest::prelude::*;
use serde::{Deserialize, Serialize};
use serde_json::json;
use std::sync::Arc;
use std::sync::atomic::{AtomicU64, Ordering};
use vf_kit::engine::*;

#[derive(Default)]
pub struct C11 {
    pairs: AtomicU64,
    pairs_nt: AtomicU64,
    public_rows: AtomicU64,
}

#[derive(Clone, Debug, Serialize, Deserialize)]
pub enum Path {
    Hook,
    Public,
}

#[derive(Clone, Debug, Serialize, Deserialize)]
pub struct Case {
    pub path: Path,
    /// divisor / partition count (>= 1; <= 65 536 on the public path)
    pub d: u64,
    /// hook path: hash values; public path: key values of the UInt64 column (their hashes are what is reduced)
    pub hs: Vec<u64>,
    /// public path: batches are cut into pieces of this many rows (0 = one batch) so the partitioner's
    /// reused buffers are exercised across calls
    pub cut: usize,
}

const PRIMES: [u64; 10] = [
    4_294_967_291,              // 2^32 - 5
    4_294_967_311,              // 2^32 + 15
    2_147_483_647,              // 2^31 - 1
    9_223_372_036_854_775_783,  // 2^63 - 25
    9_223_372_036_854_775_837,  // 2^63 + 29
    18_446_744_073_709_551_557, // 2^64 - 59
    18_446_744_073_709_551_533, // 2^64 - 83
    6_148_914_691_236_517_205,  // (2^64-1)/3
    12_297_829_382_473_034_411, // ~ 2/3 * 2^64
    65_537,
];

fn divisor(max: u64) -> BoxedStrategy<u64> {
    let clamp = move |d: u64| d.clamp(1, max);
    let pow = (0u32..64).prop_map(|k| 1u64 << k);
    let pow_pm = ((0u32..64), prop::bool::ANY).prop_map(|(k, up)| if up { (1u64 << k).wrapping_add(1) } else { (1u64 << k).wrapping_sub(1) });
    let three = (0u32..63).prop_map(|k| 3u64.wrapping_shl(k));
    let primes = prop::sample::select(PRIMES.to_vec());
    let top = (0u64..64).prop_map(|k| u64::MAX - k);
    let small = 1u64..=64;
    let mid = 1u64..=65_536;
    let near32 = (1u64 << 31)..=(1u64 << 33);
    let bits = (any::<u64>(), 0u32..64).prop_map(|(v, s)| v >> s);
    let any = any::<u64>();
    prop_oneof![
        2 => pow, 3 => pow_pm, 2 => three, 2 => primes, 1 => top, 2 => small, 2 => mid, 1 => near32, 2 => any, 2 => bits
    ]
    .prop_map(clamp)
    .boxed()
}

/// partition counts for the public path (1..=65536)
fn divisor_public() -> BoxedStrategy<u64> {
    let pow = (0u32..=16).prop_map(|k| 1u64 << k);
    let pow_pm = ((1u32..=16), prop::bool::ANY).prop_map(|(k, up)| if up { (1u64 << k) + 1 } else { (1u64 << k) - 1 });
    let three = (0u32..=14).prop_map(|k| 3u64 << k);
    prop_oneof![1 => pow, 2 => pow_pm, 1 => three, 2 => 1u64..=64, 4 => 1u64..=65_536].prop_map(|d| d.clamp(1, 65_536)).boxed()
}

fn hash_for(d: u64) -> BoxedStrategy<u64> {
    let fixed = prop::sample::select(vec![
        0u64,
        1,
        d - 1,
        d,
        d.wrapping_add(1),
        u64::MAX,
        u64::MAX - 1,
        0u64.wrapping_sub(d),
        0u64.wrapping_sub(d).wrapping_sub(1),
        0u64.wrapping_sub(d).wrapping_add(1),
        (u64::MAX / d) * d,
        ((u64::MAX / d) * d).wrapping_sub(1),
        1u64 << 63,
        (1u64 << 63) - 1,
        1u64 << 32,
        (1u64 << 32) - 1,
    ]);
    // q*d + delta for random q
    let multiple = (any::<u64>(), 0u32..64, -1i64..=1).prop_map(move |(q, s, delta)| {
        let q = (q >> s) % (u64::MAX / d).max(1);
        q.wrapping_mul(d).wrapping_add(delta as u64)
    });
    let bits = (any::<u64>(), 0u32..64).prop_map(|(v, s)| v >> s);
    let any = any::<u64>();
    prop_oneof![3 => fixed, 4 => multiple, 2 => any, 2 => bits].boxed()
}

fn check_pair(h: u64, d: u64) -> Result<(), String> {
    let got = strength_reduced_remainder(h, d);
    let want = h % d;
    if got != want { Err(format!("strength-reduced remainder of hash {h} by divisor {d} is {got}, expected {h} % {d} = {want}")) } else { Ok(()) }
}

impl C11 {
    fn run_hook(&self, case: &Case) -> CaseResult {
        let d = case.d;
        let mut n = 0u64;
        let mut nt = 0u64;
        let pow2 = d.is_power_of_two();
        for &h in &case.hs {
            let q = h / d;
            let base = q * d; // no overflow: q*d <= h
            let cands = [h, base, base.wrapping_sub(1), base.checked_add(d - 1).unwrap_or(h)];
            for c in cands {
                if let Err(m) = check_pair(c, d) {
                    return CaseResult::violation(m).label("hook");
                }
                n += 1;
                if !pow2 && c >= d {
                    nt += 1;
                }
            }
        }
        self.pairs.fetch_add(n, Ordering::Relaxed);
        self.pairs_nt.fetch_add(nt, Ordering::Relaxed);
        let mut r = CaseResult::pass().nontrivial(nt > 0).label("hook");
        r = r.label(if pow2 { "d=pow2" } else if d > u32::MAX as u64 { "d>2^32" } else if d > 65_536 { "d:2^16..2^32" } else { "d<=2^16,non-pow2" });
        if d > (1u64 << 63) {
            r = r.label("d>2^63");
        }
        if case.hs.iter().any(|&h| h == u64::MAX) {
            r = r.label("h=max");
        }
        r
    }

    fn run_public(&self, case: &Case) -> CaseResult {
        let d = case.d as usize;
        let schema = Arc::new(Schema::new(vec![Field::new("v", DataType::UInt64, false), Field::new("i", DataType::UInt32, false)]));
        let exprs: Vec<Arc<dyn PhysicalExpr>> = vec![Arc::new(Column::new("v", 0))];
        let mut part = match BatchPartitioner::new_hash_partitioner(exprs, d, Time::new()) {
            Ok(p) => p,
            Err(e) => return CaseResult::violation(format!("new_hash_partitioner({d}) failed: {e}")).label("public"),
        };
        let n = case.hs.len();
        let cut = if case.cut == 0 { n.max(1) } else { case.cut };
        let mut seen = vec![false; n];
        let mut nt = 0u64;
        let mut start = 0usize;
        let mut nbatches = 0;
        while start < n || (n == 0 && nbatches == 0) {
            let end = (start + cut).min(n);
            let vals: Vec<u64> = case.hs[start..end].to_vec();
            let v: ArrayRef = Arc::new(UInt64Array::from(vals.clone()));
            let idx: ArrayRef = Arc::new(UInt32Array::from((start as u32..end as u32).collect::<Vec<u32>>()));
            let mut hashes = vec![0u64; vals.len()];
            if let Err(e) = create_hashes(&[Arc::clone(&v)], REPARTITION_RANDOM_STATE.random_state(), &mut hashes) {
                return CaseResult::violation(format!("create_hashes failed: {e}")).label("public");
            }
            let batch = match RecordBatch::try_new(Arc::clone(&schema), vec![v, idx]) {
                Ok(b) => b,
                Err(e) => return CaseResult::discard(format!("harness: cannot build batch: {e}")),
            };
            let it = match part.partition_iter(batch) {
                Ok(it) => it,
                Err(e) => return CaseResult::violation(format!("partition_iter failed: {e}")).label("public"),
            };
            let mut out_rows = 0usize;
            for item in it {
                let (p, b) = match item {
                    Ok(x) => x,
                    Err(e) => return CaseResult::violation(format!("partition_iter item failed: {e}")).label("public"),
                };
                if p >= d {
                    return CaseResult::violation(format!("partition index {p} >= partition count {d}")).label("public");
                }
                let (Some(vs), Some(is)) = (b.column(0).as_any().downcast_ref::<UInt64Array>(), b.column(1).as_any().downcast_ref::<UInt32Array>()) else {
                    return CaseResult::violation("output batch has the wrong column types").label("public");
                };
                for r in 0..b.num_rows() {
                    let i = is.value(r) as usize;
                    if i < start || i >= end || vs.is_null(r) {
                        return CaseResult::violation(format!("output row index {i} is not a row of the input batch {start}..{end}")).label("public");
                    }
                    if seen[i] {
                        return CaseResult::violation(format!("input row {i} delivered twice")).label("public");
                    }
                    seen[i] = true;
                    if vs.value(r) != case.hs[i] {
                        return CaseResult::violation(format!("row {i}: key value changed from {} to {}", case.hs[i], vs.value(r))).label("public");
                    }
                    let h = hashes[i - start];
                    let want = (h % d as u64) as usize;
                    if p != want {
                        return CaseResult::violation(format!(
                            "row {i} (key {}, hash {h}) was sent to partition {p} of {d}, expected hash % count = {want}",
                            case.hs[i]
                        ))
                        .label("public");
                    }
                    if !(d as u64).is_power_of_two() && h >= d as u64 {
                        nt += 1;
                    }
                    out_rows += 1;
                }
            }
            if out_rows != end - start {
                return CaseResult::violation(format!("{} of {} rows of the batch {start}..{end} were delivered", out_rows, end - start)).label("public");
            }
            nbatches += 1;
            start = end;
            if n == 0 {
                break;
            }
        }
        self.public_rows.fetch_add(n as u64, Ordering::Relaxed);
        self.pairs.fetch_add(n as u64, Ordering::Relaxed);
        self.pairs_nt.fetch_add(nt, Ordering::Relaxed);
        let mut r = CaseResult::pass().nontrivial(nt > 0).label("public");
        r = r.label(if (d as u64).is_power_of_two() { "public:d=pow2" } else { "public:d=non-pow2" });
        if nbatches > 1 {
            r = r.label("public:multi-batch");
        }
        if d > n {
            r = r.label("public:more-partitions-than-rows");
        }
        r
    }
}

impl Property for C11 {
    type Case = Case;
    fn id(&self) -> &'static str {
        "C11"
    }
    fn sub(&self) -> &'static str {
        "c11"
    }
    fn strategy(&self, tier: Tier) -> BoxedStrategy<Case> {
        let max_h = tier.pick(64usize, 256);
        let hook = divisor(u64::MAX)
            .prop_flat_map(move |d| prop::collection::vec(hash_for(d), 1..=max_h).prop_map(move |hs| Case { path: Path::Hook, d, hs, cut: 0 }));
        let max_rows = tier.pick(512usize, 2048);
        let public = (divisor_public(), prop::collection::vec(prop_oneof![any::<u64>(), 0u64..64], 0..=max_rows), prop_oneof![Just(0usize), 1usize..200])
            .prop_map(|(d, hs, cut)| Case { path: Path::Public, d, hs, cut });
        prop_oneof![60 => hook, 1 => public].boxed()
    }
    fn budget(&self, tier: Tier) -> Budget {
        Budget::new(tier.pick(60_000, 1_000_000), tier.pick(8, 16)).min_nontrivial(tier.pick(10_000, 100_000))
    }
    fn rule(&self) -> String {
        "a case is one divisor (boundary-biased over 1..=2^64-1) with up to 64/256 boundary-biased hashes, each checked together with the neighbouring multiples q*d, q*d-1, q*d+d-1 \
         through the H3 hook, or (1 in 61) a UInt64 batch of up to 512/2048 rows partitioned by BatchPartitioner with 1..=65536 partitions; \
         non-trivial = divisor not a power of two and some hash >= divisor; distinct by case JSON; coverage.pairs_checked counts (hash, divisor) pairs"
            .into()
    }
    fn assumptions(&self) -> Vec<String> {
        vec![
            "Rust's u64 % is the reference".into(),
            "the hook strength_reduced_remainder mirrors partition_indices (same new()/quotient()); partition_indices itself is covered only for divisors <= 65536".into(),
            "exploration only: 2^128 pairs are not enumerable, exactness for all pairs needs a proof".into(),
        ]
    }
    fn run(&self, case: &Case) -> CaseResult {
        if case.d == 0 {
            return CaseResult::discard("outside domain: divisor 0");
        }
        match case.path {
            Path::Hook => self.run_hook(case),
            Path::Public => {
                if case.d > 65_536 {
                    return CaseResult::discard("outside domain: public path with more than 65536 partitions");
                }
                self.run_public(case)
            }
        }
    }
    fn extra(&self, tier: Tier, _seed: u64) -> Result<serde_json::Value, (String, Case)> {
        let top: u64 = tier.pick(1 << 16, 1 << 20);
        let mut n = 0u64;
        for d in 1..=top {
            let m = (u64::MAX / d) * d;
            let hs = [0, d - 1, d, d + 1, 2 * d - 1, 2 * d, m, m - 1, m.wrapping_add(d - 1), u64::MAX, u64::MAX - d, 0u64.wrapping_sub(d), (1 << 63) + d, (1u64 << 32).wrapping_mul(d).wrapping_sub(1)];
            for h in hs {
                if let Err(msg) = check_pair(h, d) {
                    return Err((msg, Case { path: Path::Hook, d, hs: vec![h], cut: 0 }));
                }
                n += 1;
            }
        }
        Ok(json!({
            "exhaustive_divisors": format!("1..={top} x 14 boundary hashes"),
            "exhaustive_pairs": n,
            "pairs_checked": self.pairs.load(Ordering::Relaxed) + n,
            "pairs_nontrivial": self.pairs_nt.load(Ordering::Relaxed),
            "public_path_rows": self.public_rows.load(Ordering::Relaxed),
        }))
    }
}
