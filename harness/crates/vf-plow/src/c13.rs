//! C13 — group key interning numbers distinct keys densely and consistently.
//!
//! Entry point: the public `aggregates::group_values::new_group_values(schema, &GroupOrdering)` (module
//! and function are public; no hook). Implementations reached (label `impl=…`, mirrored from the
//! dispatch in `new_group_values`): `GroupValuesPrimitive<T>` (every primitive incl. dates, times,
//! timestamps ± tz, durations, intervals, Decimal64/128/256, Float16/32/64), `GroupValuesBytes<i32|i64>`
//! (Utf8/LargeUtf8/Binary/LargeBinary), `GroupValuesBytesView` (Utf8View/BinaryView),
//! `GroupValuesBoolean`, `GroupValuesColumn<false|true>` (2–4 columns, or a single FixedSizeBinary /
//! Dictionary / nested column) with the primitive (nullable and non-nullable), bytes, bytes-view,
//! boolean, fixed-size-binary, dictionary and row-backed (`RowsGroupColumn`: List, LargeList, Struct,
//! FixedSizeList) column builders, and `GroupValuesRows` (forced by a Decimal64 column next to
//! others — Decimal64 is outside the `GroupColumn` allow-list but supported by the row format).
//! The `<true>` (streaming, scalarized intern) variant is selected with `GroupOrdering::Full`.
//!
//! Case: 1–4 typed key columns (nullable or not), a history of ≤ 25 (quick) / ≤ 60 (thorough) ops:
//! `Intern` (0–20 / 0–120 rows; cells are NULL or an index into the per-type pool of logically distinct
//! values — 106 values for scalar types, short/long/inline-boundary strings sharing prefixes; arrays
//! optionally built padded and sliced, dictionary layouts rotated with duplicate and unused values),
//! `EmitFirst(n)` (1 ≤ n ≤ len, optionally followed by re-interning every remaining key), `EmitAll`,
//! `Clear(n)` (= emit(All) if non-empty, then `clear_shrink(n)`: what the aggregation streams do) and
//! `ClearRaw(n)` (`clear_shrink(n)` on whatever the store holds). Emits are only executed on a non-empty store (the aggregation streams guard every
//! `emit` with `is_empty()`); `EmitFirst(n)` only with 1 ≤ n ≤ len.
//!
//! Oracle: model `Vec<Key>` indexed by group id. After `Intern`: a key already in the model must get the
//! model's id; keys not in the model must get ids that are distinct per key and together exactly
//! `old_len..new_len` (order among new keys free — `vectorized_intern` documents that it does not follow
//! input order); `len()`/`is_empty()` after every op; emitted arrays have the field's data type and are
//! logically equal (`ArrayData` equality: dictionary layout, offsets, view buffers irrelevant) to the
//! model's keys in id order; the remaining keys are renumbered from 0 (checked by later interns against
//! the shifted model, by optional immediate re-interning, and by a final re-intern-everything + EmitAll).
//!
//! Non-trivial = the history has an `EmitFirst(n)` with 0 < n < len that is followed by an `Intern`
//! mixing keys that survived the emit with keys that are new.
//!
//! Guards: floats use one NaN pattern and no −0.0. A row-based store asked to emit a dictionary over
//! Boolean / Duration / Interval values answers with arrow's clean "Unsupported output type for dictionary
//! packing" error: such schemas are not generated for `impl=rows` (and are a discard on replay).
//!
//! GENUINE DEFECTS found on the unchanged tree (each with a regression case under
//! /verif/regressions/C13/c13/, an `open` entry in known_findings.json and a `known_signature` that
//! excludes exactly its sub-shape; `VERIF_IGNORE_KNOWN=C13` disables the exclusion — with both repair
//! patches applied `VERIF_IGNORE_KNOWN=C13 ./check C13 quick` exits 0 with nothing excluded):
//!  F5 (reachable): `GroupValuesColumn<false>::emit(EmitTo::First(n))` compacts `group_index_lists` in place
//!     while `HashTable::retain` walks the buckets in table order; a surviving list written to slot
//!     `next_new_list_offset` can overwrite the list of a bucket not visited yet, whose groups then lose
//!     their map entry — the same key is later interned again as a NEW group (duplicate output groups).
//!     Needs ≥ 2 hash values each shared by ≥ 2 groups; NULLs are skipped when row hashes are combined, so
//!     (x, NULL, v) / (x, v, NULL) or NULL-list / empty-list keys collide without any 64-bit accident.
//!     Replay column-emit-first-colliding-buckets.json; repair /verif/fixes/C13-emit-first-group-index-lists.diff.
//!  F1–F3 (latent): `clear_shrink` on a store that still holds groups does not clear everything:
//!     `GroupValuesPrimitive` keeps `null_group`, `GroupValuesBytes` / `GroupValuesBytesView` keep `num_groups`.
//!  F4 (latent): `GroupValuesColumn::emit(EmitTo::All)` installs fresh column builders ("immediately reusable"
//!     says its comment) but leaves `map` / `group_index_lists` populated: the next `intern` compares against
//!     rows that no longer exist (index-out-of-bounds panic or wrong ids).
//!     F1–F4 are unreachable from today's aggregation streams (they only clear an emptied store and always
//!     clear after emitting everything) but violate the property as stated and the trait's rustdoc;
//!     repair /verif/fixes/C13-reset-on-clear-and-emit-all.diff.
//!
//! Sensitivity probes (patches kept in harness/crates/vf-plow/probes/; mkpatch + mutrun, `./check C13 quick`):
//!  1. single_group_by/boolean.rs: `true_group` index not shifted down after `emit(First(n))`  -> VIOLATION (1 089 cases)
//!  2. null_builder.rs `take_n`: remaining validity bits copied from `i - n` instead of `i`       -> VIOLATION (8 cases)
//!  3. multi_group_by/bytes.rs `take_n`: remaining offsets not rebased — the mutant feeds inconsistent
//!     offsets to `new_unchecked` and the process crashes (exit 2), so this one is not counted.
//!  Not reachable: `ByteViewGroupValueBuilder::take_n` buffer-index shifting needs > 2 MB of long strings
//!  (its block size is not configurable from outside).
use crate::keys::*;
use arrow::array::{Array, ArrayRef};
use arrow::datatypes::{Field, Schema};
use datafusion_expr::EmitTo;
use datafusion_physical_plan::InputOrderMode;
use datafusion_physical_plan::aggregates::group_values::{GroupValues, new_group_values};
use datafusion_physical_plan::aggregates::order::GroupOrdering;
use proptest::prelude::*;
use serde::{Deserialize, Serialize};
use std::collections::BTreeMap;
use std::sync::Arc;
use vf_kit::engine::*;

pub struct C13;

#[derive(Clone, Debug, Serialize, Deserialize)]
pub struct Col {
    pub kt: KT,
    pub nullable: bool,
}

#[derive(Clone, Debug, Serialize, Deserialize)]
pub enum Op {
    /// rows × columns of cells; a cell is None (NULL) or a pool choice
    Intern { rows: Vec<Vec<Option<u8>>>, pad: u8, rot: u8 },
    EmitAll,
    /// n is mapped monotonically onto 1..=len
    EmitFirst { n: u16, verify: bool },
    /// what the aggregation streams do: emit(All) if anything is live, then clear_shrink(n)
    Clear(u8),
    /// clear_shrink(n) on whatever the store holds
    ClearRaw(u8),
}

#[derive(Clone, Debug, Serialize, Deserialize)]
pub struct Case {
    pub cols: Vec<Col>,
    /// GroupOrdering::Full instead of None (selects GroupValuesColumn<true> where applicable)
    pub streaming: bool,
    pub ops: Vec<Op>,
}

type Key = Vec<Option<usize>>;

fn impl_label(cols: &[Col]) -> String {
    if cols.len() == 1 {
        match &cols[0].kt {
            KT::Bool => return "impl=boolean-single".into(),
            KT::Utf8 | KT::LargeUtf8 | KT::Binary | KT::LargeBinary => return "impl=bytes-single".into(),
            KT::Utf8View | KT::BinaryView => return "impl=bytes-view-single".into(),
            KT::Fsb1 | KT::Fsb5 | KT::Fsb16 | KT::Dict(..) => {}
            k if k.is_nested() => {}
            _ => return "impl=primitive-single".into(),
        }
    }
    if cols.iter().any(|c| matches!(c.kt, KT::Dec64) || matches!(&c.kt, KT::Dict(_, v) if **v == KT::Dec64)) {
        "impl=rows".into()
    } else {
        "impl=column".into()
    }
}

/// Normalised shapes of the open findings (see the module header): `clear_shrink` on a store that still
/// holds groups, for the three single-column implementations that do not fully reset. Computed by
/// replaying the history on a first-seen-order model, which is exact for the single-column
/// implementations (their ids follow input order).
fn signature(case: &Case) -> Option<String> {
    if case.cols.is_empty() {
        return None;
    }
    let imp = impl_label(&case.cols);
    if imp == "impl=column" {
        // F4 (syntactic): Intern(>=1 row) .. EmitAll .. Intern(>=1 row) with no Clear/ClearRaw after the EmitAll
        let mut interned = false;
        let mut emitted_all = false;
        for op in &case.ops {
            match op {
                Op::Intern { rows, .. } if !rows.is_empty() => {
                    if emitted_all {
                        return Some("column:intern-after-emit-all".into());
                    }
                    interned = true;
                }
                Op::EmitAll if interned => emitted_all = true,
                Op::Clear(_) | Op::ClearRaw(_) => {
                    emitted_all = false;
                    interned = false;
                }
                _ => {}
            }
        }
        if !case.streaming && case.cols.len() > 1 {
            // F5: an EmitFirst while two or more hash values are each shared by two or more distinct keys
            // (NULLs are skipped when row hashes are combined, so (x, NULL, v) / (x, v, NULL), a NULL / empty
            // list, or skipped NULL list elements give equal hashes for distinct keys). Over-approximated
            // on the keys interned since the store was last emptied.
            let mut keys: Vec<Key> = vec![];
            for op in &case.ops {
                match op {
                    Op::Intern { rows, .. } => {
                        for r in rows {
                            let k = key_of_row(&case.cols, r);
                            if !keys.contains(&k) {
                                keys.push(k);
                            }
                        }
                    }
                    Op::EmitAll | Op::Clear(_) | Op::ClearRaw(_) => keys.clear(),
                    Op::EmitFirst { .. } => {
                        if colliding_buckets(&case.cols, &keys) >= 2 {
                            return Some("column:emit-first-with-several-colliding-buckets".into());
                        }
                    }
                }
            }
        }
        return None;
    }
    if case.cols.len() != 1 {
        return None;
    }
    if !matches!(imp.as_str(), "impl=primitive-single" | "impl=bytes-single" | "impl=bytes-view-single") {
        return None;
    }
    let mut live: Vec<Option<usize>> = vec![];
    for op in &case.ops {
        match op {
            Op::Intern { rows, .. } => {
                for r in rows {
                    let k = match r.first().copied().flatten() {
                        Some(c) => Some(norm(&case.cols[0].kt, c)),
                        None if case.cols[0].nullable => None,
                        None => Some(0),
                    };
                    if !live.contains(&k) {
                        live.push(k);
                    }
                }
            }
            Op::EmitAll | Op::Clear(_) => live.clear(),
            Op::EmitFirst { n, .. } => {
                if !live.is_empty() {
                    let n = 1 + pick_index(*n, live.len());
                    live.drain(..n);
                }
            }
            Op::ClearRaw(_) => {
                if imp == "impl=primitive-single" {
                    if live.contains(&None) {
                        return Some("clear-nonempty:primitive-single-null-group".into());
                    }
                } else if !live.is_empty() {
                    return Some(format!("clear-nonempty:{}", &imp[5..]));
                }
                live.clear();
            }
        }
    }
    None
}

fn key_of_row(cols: &[Col], row: &[Option<u8>]) -> Key {
    cols.iter()
        .enumerate()
        .map(|(ci, c)| match row.get(ci).copied().flatten() {
            Some(ch) => Some(norm(&c.kt, ch)),
            None if c.nullable => None,
            None => Some(0),
        })
        .collect()
}

/// number of 64-bit row hashes shared by two or more of the given distinct keys (same hashing as
/// `GroupValuesColumn`: `create_hashes` with the aggregation seed)
fn colliding_buckets(cols: &[Col], keys: &[Key]) -> usize {
    if keys.len() < 4 {
        return 0;
    }
    let arrays: Vec<ArrayRef> = cols.iter().enumerate().map(|(ci, c)| value_array(&c.kt, &keys.iter().map(|k| k[ci]).collect::<Vec<_>>(), 0)).collect();
    let mut hashes = vec![0u64; keys.len()];
    let seed = datafusion_common::hash_utils::RandomState::with_seed(15395726432021054657);
    if datafusion_common::hash_utils::create_hashes(&arrays, &seed, &mut hashes).is_err() {
        return 0;
    }
    let mut count: BTreeMap<u64, usize> = BTreeMap::new();
    for h in hashes {
        *count.entry(h).or_default() += 1;
    }
    count.values().filter(|c| **c >= 2).count()
}

/// arrow's cast cannot build dictionaries over Boolean / Duration / Interval values; the row-based
/// stores report that as a clean error when emitting such a key
fn unsupported(e: &datafusion_common::DataFusionError) -> bool {
    e.to_string().contains("Unsupported output type for dictionary packing")
}

fn col_class(kt: &KT) -> &'static str {
    match kt {
        KT::Bool => "col=boolean",
        KT::Utf8 | KT::LargeUtf8 | KT::Binary | KT::LargeBinary => "col=bytes",
        KT::Utf8View | KT::BinaryView => "col=bytes-view",
        KT::Fsb1 | KT::Fsb5 | KT::Fsb16 => "col=fixed-size-binary",
        KT::Dict(..) => "col=dictionary",
        k if k.is_nested() => "col=row-backed",
        _ => "col=primitive",
    }
}

fn cell(tier_wide: bool) -> BoxedStrategy<Option<u8>> {
    if tier_wide {
        prop_oneof![1 => Just(None), 5 => (0u8..7).prop_map(Some), 3 => any::<u8>().prop_map(Some)].boxed()
    } else {
        prop_oneof![1 => Just(None), 6 => (0u8..7).prop_map(Some), 2 => any::<u8>().prop_map(Some)].boxed()
    }
}

fn cols_strategy() -> BoxedStrategy<Vec<Col>> {
    let col = |kt: BoxedStrategy<KT>| (kt, prop::bool::weighted(0.8)).prop_map(|(kt, nullable)| Col { kt, nullable });
    let any_kt = || prop_oneof![6 => scalar_kt(), 2 => dict_kt(), 2 => nested_kt()].boxed();
    let single = col(any_kt()).prop_map(|c| vec![c]);
    let multi = prop::collection::vec(col(any_kt()), 2..=4);
    // a Decimal64 column forces the GroupValuesRows fallback for a multi-column key
    // (arrow cannot re-pack Boolean / Duration / Interval values into a dictionary, which the row-based
    // store needs on emit: those dictionary value types are replaced there)
    let rows = (prop::collection::vec(col(any_kt()), 1..=3), any::<bool>()).prop_map(|(mut v, nullable)| {
        v.push(Col { kt: KT::Dec64, nullable });
        v
    });
    prop_oneof![5 => single, 5 => multi, 2 => rows]
        .prop_map(|mut v| {
            if impl_label(&v) == "impl=rows" {
                for c in v.iter_mut() {
                    if let KT::Dict(k, val) = &c.kt {
                        if matches!(**val, KT::Bool | KT::DurS | KT::DurMs | KT::DurUs | KT::DurNs | KT::IntYM | KT::IntDT | KT::IntMDN) {
                            c.kt = KT::Dict(*k, Box::new(KT::Utf8));
                        }
                    }
                }
            }
            v
        })
        .boxed()
}

impl Property for C13 {
    type Case = Case;
    fn id(&self) -> &'static str {
        "C13"
    }
    fn sub(&self) -> &'static str {
        "c13"
    }
    fn strategy(&self, tier: Tier) -> BoxedStrategy<Case> {
        let max_rows = tier.pick(20usize, 120);
        let max_ops = tier.pick(25usize, 60);
        let wide = tier == Tier::Thorough;
        (cols_strategy(), prop::bool::weighted(0.3))
            .prop_flat_map(move |(cols, streaming)| {
                let nc = cols.len();
                let intern = (prop::collection::vec(prop::collection::vec(cell(wide), nc..=nc), 0..=max_rows), prop_oneof![2 => Just(0u8), 1 => 1u8..5], any::<u8>())
                    .prop_map(|(rows, pad, rot)| Op::Intern { rows, pad, rot });
                let op = prop_oneof![
                    24 => intern,
                    12 => (any::<u16>(), prop::bool::weighted(0.3)).prop_map(|(n, verify)| Op::EmitFirst { n, verify }),
                    1 => Just(Op::EmitAll),
                    4 => (0u8..40).prop_map(Op::Clear),
                    1 => (0u8..40).prop_map(Op::ClearRaw),
                ];
                prop::collection::vec(op, 1..=max_ops).prop_map(move |ops| Case { cols: cols.clone(), streaming, ops })
            })
            .boxed()
    }
    fn budget(&self, tier: Tier) -> Budget {
        Budget::new(tier.pick(40_000, 600_000), tier.pick(8, 16)).min_nontrivial(tier.pick(3_000, 50_000))
    }
    fn rule(&self) -> String {
        "1-4 typed key columns (every primitive, bool, bytes, views, fixed-size binary, dictionary, nested row-backed, Decimal64 forcing GroupValuesRows), GroupOrdering None/Full, \
         history of <= 25/60 ops Intern(0-20/0-120 rows from small value pools, padded+sliced arrays, rotated dictionaries) / EmitFirst(1..=len) / EmitAll / Clear (drained) / ClearRaw; \
         non-trivial = an EmitFirst(n) with 0<n<len is followed by an Intern mixing surviving and new keys; distinct by case JSON"
            .into()
    }
    fn assumptions(&self) -> Vec<String> {
        vec![
            "arrow's ArrayData equality is the logical comparison of emitted keys".into(),
            "emit is only called on a non-empty store and EmitFirst(n) with 1 <= n <= len (what the aggregation streams do)".into(),
            "one NaN bit pattern, no -0.0 (their equality is not part of the statement)".into(),
        ]
    }
    fn known_signature(&self, case: &Case) -> Option<String> {
        if std::env::var("VERIF_IGNORE_KNOWN").map(|v| v.split(',').any(|x| x == "C13")).unwrap_or(false) {
            return None; // used with mutrun to check candidate repairs against the excluded sub-shapes
        }
        signature(case)
    }
    fn run(&self, case: &Case) -> CaseResult {
        if case.cols.is_empty() || case.cols.len() > 4 {
            return CaseResult::discard("outside domain: 0 or more than 4 key columns");
        }
        let schema = Arc::new(Schema::new(case.cols.iter().enumerate().map(|(i, c)| Field::new(format!("k{i}"), c.kt.data_type(), c.nullable)).collect::<Vec<_>>()));
        let ordering = if case.streaming {
            match GroupOrdering::try_new(&InputOrderMode::Sorted) {
                Ok(o) => o,
                Err(e) => return CaseResult::discard(format!("GroupOrdering::try_new failed: {e}")),
            }
        } else {
            GroupOrdering::None
        };
        let mut gv: Box<dyn GroupValues> = match new_group_values(Arc::clone(&schema), &ordering) {
            Ok(g) => g,
            Err(e) => return CaseResult::discard(format!("new_group_values rejected the schema: {e}")),
        };
        let mut labels: Vec<String> = vec![impl_label(&case.cols), format!("cols={}", case.cols.len())];
        if case.streaming {
            labels.push("ordering=full".into());
        }
        for c in &case.cols {
            match &c.kt {
                KT::Dict(k, v) => {
                    labels.push(format!("type=Dict({k:?})"));
                    labels.push(format!("dict-value={}", v.name()));
                }
                o => labels.push(format!("type={}", o.name())),
            }
            if case.cols.len() > 1 || labels[0] == "impl=column" {
                labels.push(col_class(&c.kt).into());
            }
            if !c.nullable {
                labels.push("non-nullable-col".into());
            }
        }
        macro_rules! bad {
            ($($t:tt)*) => {{
                labels.sort();
                labels.dedup();
                return CaseResult::violation(format!($($t)*)).labels(labels.clone())
            }};
        }

        let mut model: Vec<Key> = vec![];
        let mut ids: BTreeMap<Key, usize> = BTreeMap::new();
        // set by an EmitFirst(0<n<len); consumed by the next Intern
        let mut survivors_pending = false;
        let mut nontrivial = false;
        let mut groups: Vec<usize> = vec![];

        let to_arrays = |keys: &[Key], pad: usize, rot: usize| -> Vec<ArrayRef> {
            case.cols
                .iter()
                .enumerate()
                .map(|(ci, c)| {
                    let idxs: Vec<Option<usize>> = keys.iter().map(|k| k[ci]).collect();
                    column(&c.kt, &idxs, pad, rot, c.nullable)
                })
                .collect()
        };
        let key_of = |row: &Vec<Option<u8>>| -> Key { key_of_row(&case.cols, row) };

        // one intern step against the model; returns (had_old, had_new)
        macro_rules! intern {
            ($keys:expr, $pad:expr, $rot:expr, $step:expr) => {{
                let keys: &Vec<Key> = $keys;
                let arrays = to_arrays(keys, $pad, $rot);
                groups.clear();
                groups.push(usize::MAX); // intern must overwrite whatever is in the vector
                if let Err(e) = gv.intern(&arrays, &mut groups) {
                    bad!("step {}: intern failed: {e}", $step);
                }
                if std::env::var_os("VF_DEBUG").is_some() {
                    eprintln!("step {}: intern keys {:?} -> groups {:?}", $step, keys, groups);
                }
                if groups.len() != keys.len() {
                    bad!("step {}: intern returned {} group ids for {} rows", $step, groups.len(), keys.len());
                }
                let old_len = model.len();
                let mut n_new = 0usize;
                for k in keys.iter() {
                    if !ids.contains_key(k) {
                        ids.insert(k.clone(), usize::MAX);
                        n_new += 1;
                    }
                }
                let new_len = old_len + n_new;
                model.resize(new_len, vec![]);
                let mut filled = vec![false; n_new];
                let mut had_old = false;
                for (r, k) in keys.iter().enumerate() {
                    let g = groups[r];
                    let want = ids[k];
                    if want != usize::MAX {
                        if want < old_len {
                            had_old = true;
                        }
                        if g != want {
                            bad!("step {}: row {r} key {k:?} got group id {g}, but that key has id {want} (group count before the call {old_len}, after {new_len})", $step);
                        }
                    } else {
                        if g < old_len || g >= new_len {
                            bad!("step {}: row {r} has a new key {k:?} and got group id {g}; new keys must receive ids in {old_len}..{new_len}", $step);
                        }
                        if filled[g - old_len] {
                            bad!("step {}: row {r} new key {k:?} got group id {g}, already given to the different key {:?}", $step, model[g]);
                        }
                        filled[g - old_len] = true;
                        model[g] = k.clone();
                        ids.insert(k.clone(), g);
                    }
                }
                (had_old, n_new > 0)
            }};
        }
        macro_rules! check_len {
            ($step:expr) => {
                if gv.len() != model.len() || gv.is_empty() != model.is_empty() {
                    bad!("step {}: len() = {}, is_empty() = {}, but {} distinct keys are live", $step, gv.len(), gv.is_empty(), model.len());
                }
            };
        }
        macro_rules! check_emitted {
            ($out:expr, $keys:expr, $step:expr) => {{
                let out: Vec<ArrayRef> = $out;
                let keys: &[Key] = $keys;
                if out.len() != case.cols.len() {
                    bad!("step {}: emit returned {} arrays for {} key columns", $step, out.len(), case.cols.len());
                }
                let exp = to_arrays(keys, 0, 0);
                for (ci, (a, e)) in out.iter().zip(exp.iter()).enumerate() {
                    if a.len() != keys.len() {
                        bad!("step {}: emitted column {ci} has {} rows, {} groups were requested", $step, a.len(), keys.len());
                    }
                    if a.data_type() != e.data_type() {
                        bad!("step {}: emitted column {ci} has type {}, the schema says {}", $step, a.data_type(), e.data_type());
                    }
                    if a.to_data() != e.to_data() {
                        let row = (0..keys.len()).find(|r| a.slice(*r, 1).to_data() != e.slice(*r, 1).to_data());
                        bad!(
                            "step {}: emitted column {ci} ({}) differs from the interned keys in id order at group {:?}: emitted {:?}, expected {:?}",
                            $step,
                            case.cols[ci].kt.name(),
                            row,
                            row.map(|r| format!("{:?}", a.slice(r, 1))),
                            row.map(|r| format!("{:?}", e.slice(r, 1)))
                        );
                    }
                }
            }};
        }

        for (step, op) in case.ops.iter().enumerate() {
            match op {
                Op::Intern { rows, pad, rot } => {
                    let keys: Vec<Key> = rows.iter().map(key_of).collect();
                    let (had_old, had_new) = intern!(&keys, *pad as usize, *rot as usize, step);
                    if survivors_pending && had_old && had_new {
                        nontrivial = true;
                    }
                    if !keys.is_empty() {
                        survivors_pending = false;
                    }
                    if *pad > 0 {
                        labels.push("sliced-input".into());
                    }
                    labels.push("op=intern".into());
                }
                Op::EmitAll => {
                    if model.is_empty() {
                        continue;
                    }
                    let out = match gv.emit(EmitTo::All) {
                        Ok(o) => o,
                        Err(e) if unsupported(&e) => return CaseResult::discard(format!("engine rejects the key type: {e}")),
                        Err(e) => bad!("step {step}: emit(All) failed: {e}"),
                    };
                    let keys = std::mem::take(&mut model);
                    ids.clear();
                    check_emitted!(out, &keys, step);
                    survivors_pending = false;
                    labels.push("op=emit-all".into());
                }
                Op::EmitFirst { n, verify } => {
                    if model.is_empty() {
                        continue;
                    }
                    let n = 1 + pick_index(*n, model.len());
                    let out = match gv.emit(EmitTo::First(n)) {
                        Ok(o) => o,
                        Err(e) if unsupported(&e) => return CaseResult::discard(format!("engine rejects the key type: {e}")),
                        Err(e) => bad!("step {step}: emit(First({n})) failed: {e}"),
                    };
                    let head: Vec<Key> = model.drain(..n).collect();
                    ids.clear();
                    for (i, k) in model.iter().enumerate() {
                        ids.insert(k.clone(), i);
                    }
                    check_emitted!(out, &head, step);
                    if !model.is_empty() {
                        survivors_pending = true;
                        labels.push("op=emit-first-partial".into());
                    } else {
                        labels.push("op=emit-first-everything".into());
                    }
                    check_len!(step);
                    if *verify && !model.is_empty() {
                        let keys = model.clone();
                        let _ = intern!(&keys, 0, 0, format!("{step} (re-intern of the remaining keys)"));
                        labels.push("verify-after-emit".into());
                    }
                }
                Op::Clear(n) => {
                    if !model.is_empty() {
                        let out = match gv.emit(EmitTo::All) {
                            Ok(o) => o,
                            Err(e) if unsupported(&e) => return CaseResult::discard(format!("engine rejects the key type: {e}")),
                            Err(e) => bad!("step {step}: emit(All) failed: {e}"),
                        };
                        let keys = std::mem::take(&mut model);
                        ids.clear();
                        check_emitted!(out, &keys, step);
                    }
                    gv.clear_shrink(*n as usize);
                    survivors_pending = false;
                    labels.push("op=emit-all+clear".into());
                }
                Op::ClearRaw(n) => {
                    if !model.is_empty() {
                        labels.push("op=clear-nonempty".into());
                    } else {
                        labels.push("op=clear-empty".into());
                    }
                    gv.clear_shrink(*n as usize);
                    model.clear();
                    ids.clear();
                    survivors_pending = false;
                }
            }
            check_len!(step);
        }
        // final: every remaining key keeps its id; emit everything
        if !model.is_empty() {
            let keys = model.clone();
            let _ = intern!(&keys, 1, 1, "final (re-intern of all live keys)");
            check_len!("final");
            let out = match gv.emit(EmitTo::All) {
                Ok(o) => o,
                Err(e) if unsupported(&e) => return CaseResult::discard(format!("engine rejects the key type: {e}")),
                Err(e) => bad!("final emit(All) failed: {e}"),
            };
            check_emitted!(out, &keys, "final");
            model.clear();
            if gv.len() != 0 || !gv.is_empty() {
                bad!("after the final emit(All): len() = {}, is_empty() = {}", gv.len(), gv.is_empty());
            }
        }
        let _ = gv.size();
        labels.sort();
        labels.dedup();
        CaseResult::pass().nontrivial(nontrivial).labels(labels)
    }
}
