#!/usr/bin/env python3
"""shrink.py <sub> <replay.json> [needle] — greedy structural minimiser for ops/rows (development aid)."""
import json, subprocess, sys, copy, os
sub, path = sys.argv[1], sys.argv[2]
needle = sys.argv[3] if len(sys.argv) > 3 else None
BIN = os.environ.get('CARGO_TARGET_DIR', '/verif/harness/target-vf-plow') + '/debug/vf-plow'
TMP = path + '.tmp.json'
def fails(c):
    json.dump(c, open(TMP, 'w'))
    r = subprocess.run([BIN, sub, '--replay', TMP], capture_output=True, text=True)
    ok = r.returncode == 1 and (needle is None or needle in r.stdout)
    return ok
case = json.load(open(path))
assert fails(case)
changed = True
while changed:
    changed = False
    # drop ops
    i = 0
    while i < len(case['ops']):
        c = copy.deepcopy(case); del c['ops'][i]
        if fails(c): case = c; changed = True
        else: i += 1
    # drop rows
    for oi, op in enumerate(case['ops']):
        if isinstance(op, dict) and 'Intern' in op:
            rows = op['Intern']['rows']; j = 0
            while j < len(rows):
                c = copy.deepcopy(case); del c['ops'][oi]['Intern']['rows'][j]
                if fails(c): case = c; rows = case['ops'][oi]['Intern']['rows']; changed = True
                else: j += 1
            for k in ('pad', 'rot'):
                if op['Intern'][k] != 0:
                    c = copy.deepcopy(case); c['ops'][oi]['Intern'][k] = 0
                    if fails(c): case = c; changed = True
    # drop columns
    if 'cols' in case and len(case['cols']) > 1:
        for ci in range(len(case['cols'])):
            c = copy.deepcopy(case); del c['cols'][ci]
            for op in c['ops']:
                if isinstance(op, dict) and 'Intern' in op:
                    for r in op['Intern']['rows']: del r[ci]
            if fails(c): case = c; changed = True; break
os.remove(TMP)
print(json.dumps(case))
