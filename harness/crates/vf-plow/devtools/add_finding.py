#!/usr/bin/env python3
"""add_finding.py <property> <sub> <signature> <case-rel-path> <what>  — idempotent insert into /verif/known_findings.json"""
import json, sys, os, fcntl
p = '/verif/known_findings.json'
prop, sub, sig, case, what = sys.argv[1:6]
with open(p, 'r+') as f:
    fcntl.flock(f, fcntl.LOCK_EX)
    d = json.load(f)
    fs = [x for x in d.get('findings', []) if not (x.get('property') == prop and x.get('signature') == sig)]
    fs.append({"property": prop, "sub": sub, "status": "open", "signature": sig, "what": what, "case": case})
    d['findings'] = fs
    out = '{\n "findings": [\n' + ',\n'.join('  ' + json.dumps(x, ensure_ascii=False) for x in fs) + '\n ]\n}\n'
    f.seek(0); f.truncate(); f.write(out)
