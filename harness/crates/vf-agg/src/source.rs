//! A harness-owned leaf `ExecutionPlan`: fixed batches per partition, an optionally declared output
//! ordering (the caller guarantees it is true), optional `Pending` returns between batches.
use arrow::datatypes::SchemaRef;
use arrow::record_batch::RecordBatch;
use datafusion_common::Result;
use datafusion_common::tree_node::TreeNodeRecursion;
use datafusion_execution::{RecordBatchStream, SendableRecordBatchStream, TaskContext};
use datafusion_physical_expr::{EquivalenceProperties, LexOrdering, Partitioning, PhysicalExpr};
use datafusion_physical_plan::execution_plan::{Boundedness, EmissionType};
use datafusion_physical_plan::{DisplayAs, DisplayFormatType, ExecutionPlan, PlanProperties};
use futures::Stream;
use std::fmt;
use std::pin::Pin;
use std::sync::Arc;
use std::task::{Context, Poll};

#[derive(Debug)]
pub struct SrcExec {
    schema: SchemaRef,
    partitions: Vec<Vec<RecordBatch>>,
    /// every `jitter`-th poll returns Pending (after waking itself); 0 = never
    jitter: u8,
    cache: Arc<PlanProperties>,
}

impl SrcExec {
    pub fn new(schema: SchemaRef, partitions: Vec<Vec<RecordBatch>>, ordering: Option<LexOrdering>, jitter: u8) -> Self {
        let mut eq = EquivalenceProperties::new(Arc::clone(&schema));
        if let Some(o) = ordering {
            eq.add_ordering(o);
        }
        let n = partitions.len().max(1);
        let cache = PlanProperties::new(eq, Partitioning::UnknownPartitioning(n), EmissionType::Incremental, Boundedness::Bounded);
        let mut partitions = partitions;
        if partitions.is_empty() {
            partitions.push(vec![]);
        }
        SrcExec { schema, partitions, jitter, cache: Arc::new(cache) }
    }
}

impl DisplayAs for SrcExec {
    fn fmt_as(&self, _t: DisplayFormatType, f: &mut fmt::Formatter) -> fmt::Result {
        write!(f, "SrcExec: partitions={}", self.partitions.len())
    }
}

impl ExecutionPlan for SrcExec {
    fn name(&self) -> &str {
        "SrcExec"
    }
    fn properties(&self) -> &Arc<PlanProperties> {
        &self.cache
    }
    fn children(&self) -> Vec<&Arc<dyn ExecutionPlan>> {
        vec![]
    }
    fn apply_expressions(&self, _f: &mut dyn FnMut(&Arc<dyn PhysicalExpr>) -> Result<TreeNodeRecursion>) -> Result<TreeNodeRecursion> {
        Ok(TreeNodeRecursion::Continue)
    }
    fn with_new_children(self: Arc<Self>, _children: Vec<Arc<dyn ExecutionPlan>>) -> Result<Arc<dyn ExecutionPlan>> {
        Ok(self)
    }
    fn execute(&self, partition: usize, _context: Arc<TaskContext>) -> Result<SendableRecordBatchStream> {
        let batches = self.partitions.get(partition).cloned().unwrap_or_default();
        Ok(Box::pin(SrcStream { schema: Arc::clone(&self.schema), batches, next: 0, polls: 0, jitter: self.jitter }))
    }
}

struct SrcStream {
    schema: SchemaRef,
    batches: Vec<RecordBatch>,
    next: usize,
    polls: u32,
    jitter: u8,
}

impl Stream for SrcStream {
    type Item = Result<RecordBatch>;
    fn poll_next(mut self: Pin<&mut Self>, cx: &mut Context<'_>) -> Poll<Option<Self::Item>> {
        self.polls += 1;
        if self.jitter > 0 && self.polls % (self.jitter as u32 + 1) == 1 {
            cx.waker().wake_by_ref();
            return Poll::Pending;
        }
        if self.next < self.batches.len() {
            let b = self.batches[self.next].clone();
            self.next += 1;
            Poll::Ready(Some(Ok(b)))
        } else {
            Poll::Ready(None)
        }
    }
}

impl RecordBatchStream for SrcStream {
    fn schema(&self) -> SchemaRef {
        Arc::clone(&self.schema)
    }
}
