//! C08 — sorting, merging and TopK return correctly ordered results.
//!
//! Domain: 0–N rows (quick N=120, thorough N=700) with 1–3 sort-key columns drawn from
//! {i8,i32,i64,u64,f32,f64 (NaN, ±0.0, ±inf), utf8, utf8view, binary, dictionary(utf8), bool, date32,
//! decimal128, struct<i32,utf8>} × asc/desc × nulls first/last, a unique non-null `id` payload and a
//! string payload; rows are assigned to 1–8 partitions and cut into batches (empty batches
//! included); columns are rendered with physical-encoding variations (sliced arrays, dictionaries
//! with permuted / duplicate / NULL entries). Operators:
//!   * `SortExec` (fetch none / 1 / k / ≥ n; preserve_partitioning; input declared sorted on a
//!     prefix of the keys → TopK prefix early termination, or on all keys → pass-through / limit),
//!   * `SortPreservingMergeExec` over pre-sorted partitions (fetch, round-robin tie breaker on/off),
//!   * `PartialSortExec` (common sorted prefix, fetch, preserve_partitioning),
//!   * `PartitionedTopKExec` (row_number / rank / dense_rank, k ≥ 1),
//!   * external sort: memory-limited pools (greedy / fair) with `sort_spill_reservation_bytes`,
//!     `sort_in_place_threshold_bytes`, `max_spill_merge_fan_in` ∈ {default, 2, 3}, spill
//!     compression, batch sizes {1,2,7,8192}.
//!
//! Oracle (validity predicate, stability NOT demanded): every output row is an input row of the
//! right input partition set (matched by the unique id, all columns equal), no row twice; without
//! fetch the output is a permutation; with fetch k exactly min(k,n) rows whose key multiset equals
//! the key multiset of the first k rows of the reference order (tie-aware top-k); adjacent output
//! rows are ordered under the harness comparator (ints/strings/bytes natural order, floats
//! `total_cmp` — so -0.0 < 0.0 and NaN greatest —, NULL placement per option, struct keys field by
//! field under the same options). PartitionedTopK: per partition-key group the retained rows are
//! exactly those the documented rule of the `WindowFnKind` keeps (row_number: tie-aware top-k;
//! rank: all rows ≤ the k-th row's key; dense_rank: rows within the k smallest distinct keys), and
//! the output is ordered by (partition keys, order keys).
//!
//! `ResourcesExhausted` → inconclusive; clean NotImplemented → discard; timeout → inconclusive.
//!
//! Model correction (found by the first run): `SortExec` with `preserve_partitioning = true` and a
//! fetch shares ONE TopK threshold (`TopKDynamicFilters::shared_threshold`) between its output
//! partitions by design, so a partition may drop rows that cannot be in the *global* top-k. For
//! that shape the predicate is: each partition returns ≤ min(k, n_p) of its own rows, sorted, no
//! duplicates, and the union of the partitions contains a valid (tie-aware) global top-k.
//!
//! Genuine findings (now FIXED in /repo — commit 7d7b2775 — and no longer excluded; entry in /verif/known_findings.json, regression cases under
//! /verif/regressions/C08/c08/, proposed repair /verif/fixes/C08-topk-filter-sort-order-mismatch.diff —
//! verified with mutrun: seeds 0-2 pass with the exclusions switched off through VF_C08_NO_KNOWN=1):
//!   1. `topk-filter:struct-key:child-null-order` — TopK (SortExec + fetch) pre-filters every later
//!      batch with a predicate built from its heap (`col < threshold` …). For struct keys the
//!      comparison kernels order NULL *fields* in one fixed way, not per the key's options: with ASC
//!      NULLS LAST / DESC NULLS FIRST rows sorting before the threshold are dropped. SQL repro: two
//!      single-row inserts {a:1,b:NULL}, {a:NULL,b:NULL}; `ORDER BY s DESC NULLS FIRST` lists
//!      {NULL,NULL} first, `… LIMIT 1` returns {1,NULL}.
//!      Observation (not a known finding, SQL-equal values): the same predicate treats -0.0 = 0.0
//!      while the sort order separates them (`ORDER BY x DESC` → 0.0, -0.0; `… LIMIT 1` → -0.0);
//!      -0.0 is therefore not generated on the TopK path. The proposed repair covers it as well.
//!
//! Sensitivity probes (mutrun, quick tier, all detected):
//!   * topk/mod.rs `batch_prefix_exceeds_heap_boundary`: `>` → `>=` (early termination on an equal
//!     sorted prefix) → VIOLATION "position 0 of the top-1 holds keys … reference has …" after 771 cases.
//!   * sorts/merge.rs `update_loser_tree`, round-robin branch `(None, _)`: dropped the
//!     `update_winner` call (exhausted cursor stays winner) → VIOLATION "1 rows returned, 2 expected"
//!     on the first case.
//!   * independently seeded defect /verif/seeded/C08-a (TopK `build_filter_expression`: the null-safe
//!     prefix equality `col IS NULL OR col = NULL` only for NULLS FIRST keys): first MISSED by the
//!     quick tier — the k-th reference row was almost never NULL on a non-last NULLS LAST key
//!     (cells 17 % NULL, fetch uniform in 1..max_rows, mostly beyond the table). Generator
//!     strengthened generally: per-key NULL density drawn from {14 %, 50 %, 80 %}, fetch drawn relative
//!     to the generated row count (uniform in 1..=n plus a band near n); coverage labels
//!     `topk:kth-row-null-on-nulls-{last,first}-prefix-key` (~100 each per quick run). Now VIOLATION
//!     "position 85 of the top-111 holds keys [Null, Null, 2] … reference [Null, Null, 1]" after 892
//!     cases; unchanged tree exits 0 on seeds 0-4 and 21-24.
//!   * seeded defect /verif/seeded/C28-a (sorts/cursor.rs `CursorValues for StringViewArray::compare`:
//!     inline-key fast path taken when only ONE side has no data buffers): first MISSED — the string
//!     pool had no short (≤ 12 byte) value sharing a 4+ byte prefix with a long one. Pools for
//!     utf8 / utf8view / dictionary and binary / binaryview now hold "item", "item-1", "item-2"
//!     next to "item-10-of-the-long-kind", "item-1-of-the-long-kind!", … (long values already at
//!     domain 5, so all-short batches meet batches with buffers); BinaryView added to the key types.
//!     Now VIOLATION "output not ordered: item-10-of-the-long-kind before item-1" after 1030 cases;
//!     unchanged tree exits 0 on seeds 0-4 and 41 (C06 and C08).
//!
//! Deviations from DESIGN.md: fetch = 0 is only generated for the paths that accept it
//! (SortPreservingMergeExec, pass-through SortExec, PartialSortExec); `SortExec::with_fetch(Some(0))`
//! on unsorted input reaches `TopKHeap::new` which asserts `k > 0` — the SQL planner never builds
//! that (LIMIT 0 is folded away) so it is treated as documented misuse, not generated. The
//! self-tightening dynamic filter of TopK is built by SortExec but nothing consumes it at operator
//! level (that interaction belongs to C31).
use crate::data::*;
use crate::run::*;
use crate::source::SrcExec;
use arrow::compute::SortOptions;
use arrow::datatypes::{DataType, Field, Schema, SchemaRef};
use arrow::record_batch::RecordBatch;
use datafusion_physical_expr::expressions::Column;
use datafusion_physical_expr::{LexOrdering, PhysicalSortExpr};
use datafusion_physical_plan::ExecutionPlan;
use datafusion_physical_plan::coalesce_partitions::CoalescePartitionsExec;
use datafusion_physical_plan::sorts::partial_sort::PartialSortExec;
use datafusion_physical_plan::sorts::partitioned_topk::{PartitionedTopKExec, WindowFnKind};
use datafusion_physical_plan::sorts::sort::SortExec;
use datafusion_physical_plan::sorts::sort_preserving_merge::SortPreservingMergeExec;
use proptest::prelude::*;
use serde::{Deserialize, Serialize};
use std::cmp::Ordering;
use std::sync::Arc;
use vf_kit::engine::*;

pub struct C08;

#[derive(Clone, Debug, Serialize, Deserialize)]
pub struct KeySpec {
    pub ty: ColType,
    pub desc: bool,
    pub nulls_first: bool,
    pub enc: Enc,
}

#[derive(Clone, Debug, Serialize, Deserialize)]
pub struct Row {
    pub k: Vec<Option<u8>>,
    pub part: u8,
}

#[derive(Clone, Debug, Serialize, Deserialize)]
pub enum Op {
    /// `presorted`: number of leading sort keys the input is (and is declared) sorted on
    Sort { fetch: Option<u16>, preserve: bool, presorted: u8 },
    Spm { fetch: Option<u16>, round_robin: bool },
    PartialSort { prefix: u8, fetch: Option<u16>, preserve: bool },
    /// kind: 0 row_number, 1 rank, 2 dense_rank
    PartTopK { prefix: u8, k: u16, kind: u8 },
}

#[derive(Clone, Debug, Serialize, Deserialize)]
pub struct Case {
    pub keys: Vec<KeySpec>,
    pub rows: Vec<Row>,
    pub parts: u8,
    pub cuts: Vec<u8>,
    pub op: Op,
    pub opts: ExecOpts,
    pub jitter: u8,
}

const KEY_TYPES: [ColType; 15] = [
    ColType::I8,
    ColType::I32,
    ColType::I64,
    ColType::U64,
    ColType::F32,
    ColType::F64,
    ColType::Utf8,
    ColType::Utf8View,
    ColType::Binary,
    ColType::BinaryView,
    ColType::DictUtf8,
    ColType::Bool,
    ColType::Date32,
    ColType::Dec128,
    ColType::StructI32Utf8,
];

fn enc_strategy() -> impl Strategy<Value = Enc> {
    (prop_oneof![3 => Just(0u8), 1 => 1u8..4], 0u8..10, prop::bool::weighted(0.2)).prop_map(|(pad, dict_rot, dict_null_value)| Enc { pad, dict_rot, dict_null_value })
}

fn key_strategy() -> impl Strategy<Value = KeySpec> {
    (0u16..=u16::MAX, any::<bool>(), any::<bool>(), enc_strategy()).prop_map(|(t, desc, nulls_first, enc)| KeySpec { ty: KEY_TYPES[pick_index(t, KEY_TYPES.len())], desc, nulls_first, enc })
}

/// `nullw`: NULL weight against 6 for a value (1 → 14 %, 6 → 50 %, 24 → 80 % NULLs)
fn cell_strategy(domain: u8, nullw: u32) -> impl Strategy<Value = Option<u8>> {
    prop_oneof![nullw => Just(None), 6 => (0u8..domain).prop_map(Some)]
}

/// fetch values ≥ FRAC are resolved against the generated row count n: k = 1 + (choice · n) >> 15,
/// so that the limit falls inside the table (and near its end) instead of mostly beyond it
const FRAC: u16 = 0x8000;
fn resolve_fetch(f: Option<u16>, n: usize) -> Option<u16> {
    match f {
        Some(v) if v >= FRAC => Some(1 + ((((v - FRAC) as usize) * n.max(1)) >> 15) as u16),
        other => other,
    }
}

fn opts_strategy(tier: Tier, spill: bool) -> BoxedStrategy<ExecOpts> {
    let batch = prop_oneof![Just(1u16), Just(2u16), Just(7u16), Just(8192u16), Just(8192u16)];
    let threads = match tier {
        Tier::Quick => Just(1u8).boxed(),
        Tier::Thorough => prop_oneof![6 => Just(1u8), 1 => Just(2u8)].boxed(),
    };
    if !spill {
        return (batch, threads).prop_map(|(batch_size, threads)| ExecOpts { batch_size, threads, ..ExecOpts::default() }).boxed();
    }
    (
        batch,
        threads,
        prop_oneof![Just(3_000u32), Just(5_000u32), Just(8_000u32), Just(12_000u32), Just(20_000u32), Just(40_000u32), Just(100_000u32)],
        any::<bool>(),
        prop_oneof![Just(0u8), Just(2u8), Just(3u8)],
        prop_oneof![2 => Just(0u32), 2 => Just(512u32), 1 => Just(2048u32), 1 => Just(8192u32)],
        prop_oneof![Just(0u32), Just(1024u32), Just(1_048_576u32)],
        prop_oneof![4 => Just("uncompressed"), 1 => Just("lz4_frame"), 1 => Just("zstd")],
    )
        .prop_map(|(batch_size, threads, mem, fair_pool, fan_in, reserve, in_place, comp)| ExecOpts {
            batch_size,
            threads,
            mem_limit: Some(mem),
            fair_pool,
            fan_in,
            settings: vec![
                ("datafusion.execution.sort_spill_reservation_bytes".into(), reserve.to_string()),
                ("datafusion.execution.sort_in_place_threshold_bytes".into(), in_place.to_string()),
                ("datafusion.execution.spill_compression".into(), comp.to_string()),
            ],
        })
        .boxed()
}

fn fetch_strategy(max_rows: usize) -> impl Strategy<Value = Option<u16>> {
    prop_oneof![
        3 => Just(None),
        1 => Just(Some(1u16)),
        1 => (1u16..(max_rows as u16 + 2)).prop_map(Some),
        3 => (FRAC..=u16::MAX).prop_map(Some),
        1 => ((FRAC + 0x7000)..=u16::MAX).prop_map(Some),
        1 => Just(Some(max_rows as u16 + 5)),
    ]
}

fn fetch0_strategy(max_rows: usize) -> impl Strategy<Value = Option<u16>> {
    prop_oneof![1 => Just(Some(0u16)), 12 => fetch_strategy(max_rows)]
}

impl C08 {
    fn case_strategy(tier: Tier) -> BoxedStrategy<Case> {
        let max_rows: usize = tier.pick(120, 700);
        (1usize..=3, prop_oneof![2 => Just(3u8), 2 => Just(5u8), 1 => Just(10u8)], 1u8..=8, 0u8..6)
            .prop_flat_map(move |(nk, domain, parts, opk)| {
                let keys = prop::collection::vec(key_strategy(), nk);
                let rows = prop::collection::vec(prop_oneof![3 => Just(1u32), 2 => Just(6u32), 1 => Just(24u32)], nk).prop_flat_map(move |nullw| {
                    let cells: Vec<_> = nullw.iter().map(|w| cell_strategy(domain, *w)).collect();
                    prop::collection::vec((cells, 0u8..parts).prop_map(|(k, part)| Row { k, part }), 0..=max_rows)
                });
                let cuts = prop::collection::vec(prop_oneof![1 => Just(0u8), 2 => 1u8..4, 3 => 4u8..60], 1..6);
                let op: BoxedStrategy<(Op, bool)> = match opk {
                    // plain / top-k sort
                    0 | 1 => (fetch_strategy(max_rows), any::<bool>(), prop_oneof![3 => Just(0u8), 2 => 1u8..=(nk as u8)]).prop_map(|(fetch, preserve, presorted)| (Op::Sort { fetch, preserve, presorted }, false)).boxed(),
                    // external sort under a memory limit
                    2 => (any::<bool>()).prop_map(|preserve| (Op::Sort { fetch: None, preserve, presorted: 0 }, true)).boxed(),
                    3 => (fetch0_strategy(max_rows), any::<bool>()).prop_map(|(fetch, round_robin)| (Op::Spm { fetch, round_robin }, false)).boxed(),
                    4 => {
                        if nk >= 2 {
                            (1u8..(nk as u8), fetch0_strategy(max_rows), any::<bool>()).prop_map(|(prefix, fetch, preserve)| (Op::PartialSort { prefix, fetch, preserve }, false)).boxed()
                        } else {
                            (fetch_strategy(max_rows), any::<bool>()).prop_map(|(fetch, preserve)| (Op::Sort { fetch, preserve, presorted: 0 }, false)).boxed()
                        }
                    }
                    _ => {
                        if nk >= 2 {
                            (1u8..(nk as u8), prop_oneof![2 => 1u16..4, 1 => 4u16..40], 0u8..3).prop_map(|(prefix, k, kind)| (Op::PartTopK { prefix, k, kind }, false)).boxed()
                        } else {
                            (fetch_strategy(max_rows), any::<bool>()).prop_map(|(fetch, round_robin)| (Op::Spm { fetch, round_robin }, false)).boxed()
                        }
                    }
                };
                (keys, rows, cuts, op, prop_oneof![3 => Just(0u8), 1 => 1u8..4], Just(parts))
            })
            .prop_flat_map(move |(keys, rows, cuts, (op, spill), jitter, parts)| (Just(keys), Just(rows), Just(cuts), Just(op), opts_strategy(tier, spill), Just(jitter), Just(parts)))
            .prop_map(|(keys, rows, cuts, op, opts, jitter, parts)| {
                let n = rows.len();
                let op = match op {
                    Op::Sort { fetch, preserve, presorted } => Op::Sort { fetch: resolve_fetch(fetch, n), preserve, presorted },
                    Op::Spm { fetch, round_robin } => Op::Spm { fetch: resolve_fetch(fetch, n), round_robin },
                    Op::PartialSort { prefix, fetch, preserve } => Op::PartialSort { prefix, fetch: resolve_fetch(fetch, n), preserve },
                    other => other,
                };
                Case { keys, rows, parts, cuts, op, opts, jitter }
            })
            .boxed()
    }
}

/// plain row: key values, then id, then payload
struct PRow {
    keys: Vec<Val>,
    id: i64,
}

fn lex_cmp(a: &[Val], b: &[Val], keys: &[KeySpec]) -> Ordering {
    for (i, k) in keys.iter().enumerate() {
        let c = sort_cmp(&a[i], &b[i], k.desc, k.nulls_first);
        if c != Ordering::Equal {
            return c;
        }
    }
    Ordering::Equal
}

fn payload(id: i64) -> String {
    format!("row-{id}-{}", "x".repeat((id % 5) as usize * 4))
}

fn schema_of(keys: &[KeySpec]) -> SchemaRef {
    let mut fields: Vec<Field> = keys.iter().enumerate().map(|(i, k)| Field::new(format!("k{i}"), k.ty.data_type(), true)).collect();
    fields.push(Field::new("id", DataType::Int64, false));
    fields.push(Field::new("p", DataType::Utf8, true));
    Arc::new(Schema::new(fields))
}

fn build_batches(schema: &SchemaRef, keys: &[KeySpec], rows: &[&PRow], cuts: &[u8]) -> Result<Vec<RecordBatch>, String> {
    let mk = |chunk: &[&PRow]| -> Result<RecordBatch, String> {
        let mut cols = vec![];
        for (i, k) in keys.iter().enumerate() {
            let vals: Vec<Val> = chunk.iter().map(|r| r.keys[i].clone()).collect();
            cols.push(build_array(k.ty, &vals, k.enc));
        }
        cols.push(Arc::new(arrow::array::Int64Array::from(chunk.iter().map(|r| r.id).collect::<Vec<_>>())) as arrow::array::ArrayRef);
        cols.push(Arc::new(arrow::array::StringArray::from(chunk.iter().map(|r| Some(payload(r.id))).collect::<Vec<_>>())) as arrow::array::ArrayRef);
        RecordBatch::try_new(Arc::clone(schema), cols).map_err(|e| format!("harness batch: {e}"))
    };
    let mut out = vec![];
    if rows.is_empty() {
        if cuts.first() == Some(&0) {
            out.push(mk(&[])?);
        }
        return Ok(out);
    }
    let all_zero = cuts.iter().all(|c| *c == 0);
    let mut pos = 0usize;
    let mut ci = 0usize;
    let mut empties = 0usize;
    while pos < rows.len() {
        let want = if all_zero || cuts.is_empty() { rows.len() } else { cuts[ci % cuts.len()] as usize };
        ci += 1;
        if want == 0 {
            if empties < 6 {
                empties += 1;
                out.push(mk(&[])?);
            }
            continue;
        }
        let take = want.min(rows.len() - pos);
        out.push(mk(&rows[pos..pos + take])?);
        pos += take;
    }
    Ok(out)
}

fn sort_exprs(keys: &[KeySpec], n: usize) -> Vec<PhysicalSortExpr> {
    keys.iter().take(n).enumerate().map(|(i, k)| PhysicalSortExpr::new(Arc::new(Column::new(&format!("k{i}"), i)), SortOptions { descending: k.desc, nulls_first: k.nulls_first })).collect()
}

struct Checked {
    ties: bool,
    distinct_keys: usize,
    special: bool,
}

/// The validity predicate for one output partition against its input rows.
fn check_sorted(out: &[Vec<Val>], input: &[&PRow], keys: &[KeySpec], fetch: Option<usize>, loose: bool, what: &str) -> Result<Checked, String> {
    let nk = keys.len();
    // 1. identity / integrity
    let mut seen = std::collections::BTreeSet::new();
    for r in out {
        let id = match &r[nk] {
            Val::Int(i) => *i as i64,
            other => return Err(format!("{what}: id column holds {other:?}")),
        };
        let Some(src) = input.iter().find(|p| p.id == id) else {
            return Err(format!("{what}: output row with id {id} is not a row of this input: {}", show_row(r)));
        };
        if !seen.insert(id) {
            return Err(format!("{what}: row id {id} appears twice in the output"));
        }
        if !same_row(&r[..nk], &src.keys) {
            return Err(format!("{what}: row id {id} changed its key values: output {} input {:?}", show_row(&r[..nk]), src.keys));
        }
        if !same(&r[nk + 1], &Val::Str(payload(id))) {
            return Err(format!("{what}: row id {id} changed its payload: {:?}", r[nk + 1]));
        }
    }
    // 2. count
    let expect = match fetch {
        None => input.len(),
        Some(k) => k.min(input.len()),
    };
    if (!loose && out.len() != expect) || out.len() > expect {
        return Err(format!("{what}: {} rows returned, {} expected (input {} rows, fetch {:?})", out.len(), expect, input.len(), fetch));
    }
    // 3. adjacent order
    for w in out.windows(2) {
        if lex_cmp(&w[0][..nk], &w[1][..nk], keys) == Ordering::Greater {
            return Err(format!("{what}: output not ordered: {} before {}", show_row(&w[0]), show_row(&w[1])));
        }
    }
    // 4. tie-aware top-k: key multiset of the output = key multiset of the first k reference rows
    let mut sorted: Vec<&PRow> = input.to_vec();
    sorted.sort_by(|a, b| lex_cmp(&a.keys, &b.keys, keys));
    if fetch.is_some() && !loose {
        for (i, r) in out.iter().enumerate() {
            if lex_cmp(&r[..nk], &sorted[i].keys, keys) != Ordering::Equal {
                return Err(format!("{what}: position {i} of the top-{} holds keys {} but the reference order has {:?} there", expect, show_row(&r[..nk]), sorted[i].keys));
            }
        }
    }
    let mut distinct = 0;
    let mut ties = false;
    for (i, r) in sorted.iter().enumerate() {
        if i == 0 || lex_cmp(&sorted[i - 1].keys, &r.keys, keys) != Ordering::Equal {
            distinct += 1;
        } else {
            ties = true;
        }
    }
    let special = input.iter().any(|r| r.keys.iter().any(|v| v.is_null() || matches!(v, Val::F(f) if f.is_nan())));
    Ok(Checked { ties, distinct_keys: distinct, special })
}

fn check_part_topk(out: &[Vec<Val>], input: &[&PRow], keys: &[KeySpec], prefix: usize, k: usize, kind: u8, what: &str) -> Result<Checked, String> {
    let nk = keys.len();
    // expected retained rows per partition-key group
    let mut sorted: Vec<&PRow> = input.to_vec();
    sorted.sort_by(|a, b| lex_cmp(&a.keys, &b.keys, keys));
    let pk_eq = |a: &PRow, b: &PRow| lex_cmp(&a.keys[..prefix], &b.keys[..prefix], &keys[..prefix]) == Ordering::Equal;
    let ok_eq = |a: &PRow, b: &PRow| lex_cmp(&a.keys[prefix..], &b.keys[prefix..], &keys[prefix..]) == Ordering::Equal;
    // must[i]: row has to be present; may[i]: row may be present
    let mut must = vec![false; sorted.len()];
    let mut may = vec![false; sorted.len()];
    let mut expected_count = 0usize;
    let mut g0 = 0;
    while g0 < sorted.len() {
        let mut g1 = g0 + 1;
        while g1 < sorted.len() && pk_eq(sorted[g0], sorted[g1]) {
            g1 += 1;
        }
        let n = g1 - g0;
        match kind {
            0 => {
                // exactly min(k, n) rows; rows strictly before the boundary key are required
                let take = k.min(n);
                expected_count += take;
                let boundary = sorted[g0 + take - 1];
                for i in g0..g1 {
                    let before = lex_cmp(&sorted[i].keys[prefix..], &boundary.keys[prefix..], &keys[prefix..]);
                    if n <= k {
                        must[i] = true;
                        may[i] = true;
                    } else if before == Ordering::Less {
                        must[i] = true;
                        may[i] = true;
                    } else if before == Ordering::Equal {
                        may[i] = true;
                    }
                }
            }
            1 => {
                let take = k.min(n);
                let boundary = sorted[g0 + take - 1];
                for i in g0..g1 {
                    if lex_cmp(&sorted[i].keys[prefix..], &boundary.keys[prefix..], &keys[prefix..]) != Ordering::Greater {
                        must[i] = true;
                        may[i] = true;
                        expected_count += 1;
                    }
                }
            }
            _ => {
                let mut distinct = 0;
                for i in g0..g1 {
                    if i == g0 || !ok_eq(sorted[i - 1], sorted[i]) {
                        distinct += 1;
                    }
                    if distinct <= k {
                        must[i] = true;
                        may[i] = true;
                        expected_count += 1;
                    }
                }
            }
        }
        g0 = g1;
    }
    let mut seen = std::collections::BTreeSet::new();
    for r in out {
        let id = match &r[nk] {
            Val::Int(i) => *i as i64,
            other => return Err(format!("{what}: id column holds {other:?}")),
        };
        let Some(pos) = sorted.iter().position(|p| p.id == id) else {
            return Err(format!("{what}: output row with id {id} is not a row of this input"));
        };
        if !seen.insert(id) {
            return Err(format!("{what}: row id {id} appears twice in the output"));
        }
        if !same_row(&r[..nk], &sorted[pos].keys) {
            return Err(format!("{what}: row id {id} changed its key values: output {} input {:?}", show_row(&r[..nk]), sorted[pos].keys));
        }
        if !may[pos] {
            return Err(format!("{what}: row id {id} keys {:?} must not be retained (k={k}, kind={kind}, prefix={prefix})", sorted[pos].keys));
        }
    }
    for (i, p) in sorted.iter().enumerate() {
        if must[i] && !seen.contains(&p.id) {
            return Err(format!("{what}: row id {} keys {:?} must be retained but is missing (k={k}, kind={kind}, prefix={prefix})", p.id, p.keys));
        }
    }
    if out.len() != expected_count {
        return Err(format!("{what}: {} rows retained, {} expected (k={k}, kind={kind})", out.len(), expected_count));
    }
    for w in out.windows(2) {
        if lex_cmp(&w[0][..nk], &w[1][..nk], keys) == Ordering::Greater {
            return Err(format!("{what}: output not ordered by (partition keys, order keys): {} before {}", show_row(&w[0]), show_row(&w[1])));
        }
    }
    let mut distinct = 0;
    let mut ties = false;
    for i in 0..sorted.len() {
        if i == 0 || lex_cmp(&sorted[i - 1].keys, &sorted[i].keys, keys) != Ordering::Equal {
            distinct += 1;
        } else {
            ties = true;
        }
    }
    let special = input.iter().any(|r| r.keys.iter().any(|v| v.is_null() || matches!(v, Val::F(f) if f.is_nan())));
    Ok(Checked { ties, distinct_keys: distinct, special })
}

impl Property for C08 {
    type Case = Case;
    fn id(&self) -> &'static str {
        "C08"
    }
    fn sub(&self) -> &'static str {
        "c08"
    }
    fn strategy(&self, tier: Tier) -> BoxedStrategy<Case> {
        C08::case_strategy(tier)
    }
    fn budget(&self, tier: Tier) -> Budget {
        Budget::new(tier.pick(4_000, 60_000), tier.pick(8, 16)).min_nontrivial(tier.pick(600, 10_000)).case_timeout(180)
    }
    fn rule(&self) -> String {
        "rows with 1-3 typed sort keys (small duplicate/NULL-heavy domains incl. NaN, ±0.0, ±inf, type boundaries), partitions, batch cuts, encodings; operator drawn from SortExec / TopK / SortPreservingMergeExec / PartialSortExec / PartitionedTopKExec / memory-limited external sort; \
         non-trivial = ≥ 2 distinct key tuples and (a tie or a NULL/NaN key) and, when a fetch is set, more input rows than the fetch; distinct by case JSON"
            .into()
    }
    fn assumptions(&self) -> Vec<String> {
        vec![
            "floats are ordered by IEEE total order (arrow `total_cmp`: -0.0 < 0.0, positive NaN greatest); only the positive canonical NaN is generated".into(),
            "struct keys are ordered field by field with the parent's options (arrow-ord's definition)".into(),
            "stability of the sort is not demanded".into(),
            "arrow's cast kernel (dictionary → plain) used to read results is trusted".into(),
        ]
    }
    fn run(&self, case: &Case) -> CaseResult {
        run_case(case)
    }
}

fn run_case(case: &Case) -> CaseResult {
    let nk = case.keys.len();
    if nk == 0 || nk > 3 || case.rows.iter().any(|r| r.k.len() != nk) {
        return CaseResult::discard("malformed case");
    }
    let parts = case.parts.clamp(1, 8) as usize;
    let keys = &case.keys;
    let schema = schema_of(keys);
    // Guard: on the TopK path -0.0 is not generated (code 8 → 0.0). TopK pre-filters batches with the
    // SQL comparison kernels, for which -0.0 = 0.0, while the sort order separates the two; which of
    // two SQL-equal values is returned first is not demanded.
    let topk_path = matches!(&case.op, Op::Sort { fetch: Some(_), presorted, .. } if (*presorted as usize) < nk);
    let zfix = |ty: ColType, c: Option<u8>| if topk_path && matches!(ty, ColType::F32 | ColType::F64) && c.map(|c| c % POOL) == Some(8) { Some(7) } else { c };
    let prows: Vec<PRow> = case.rows.iter().enumerate().map(|(i, r)| PRow { keys: r.k.iter().zip(keys.iter()).map(|(c, k)| cell(k.ty, zfix(k.ty, *c), true)).collect(), id: i as i64 }).collect();
    let mut by_part: Vec<Vec<&PRow>> = vec![vec![]; parts];
    for (r, p) in case.rows.iter().zip(prows.iter()) {
        by_part[(r.part as usize) % parts].push(p);
    }
    let mut labels: Vec<String> = vec![];
    for k in keys {
        labels.push(format!("key:{}", k.ty.name()));
    }
    labels.push(format!("nkeys={nk}"));
    labels.push(format!("parts={}", if parts == 1 { "1" } else { "n" }));
    labels.push(format!("batch={}", case.opts.batch_size));

    // how the input has to be pre-sorted / key-partitioned for this operator
    let (presort, declare): (usize, usize) = match &case.op {
        Op::Sort { presorted, .. } => ((*presorted as usize).min(nk), (*presorted as usize).min(nk)),
        Op::Spm { .. } => (nk, nk),
        Op::PartialSort { prefix, .. } => ((*prefix as usize).clamp(1, nk), (*prefix as usize).clamp(1, nk)),
        Op::PartTopK { .. } => (0, 0),
    };
    if let Op::PartTopK { prefix, .. } = &case.op {
        // KeyPartitioned input: every partition-key group lives in exactly one partition
        let prefix = (*prefix as usize).clamp(1, nk);
        let mut groups: Vec<&PRow> = vec![];
        let mut re: Vec<Vec<&PRow>> = vec![vec![]; parts];
        for p in prows.iter() {
            let gi = match groups.iter().position(|g| same_row(&g.keys[..prefix], &p.keys[..prefix])) {
                Some(i) => i,
                None => {
                    groups.push(p);
                    groups.len() - 1
                }
            };
            re[gi % parts].push(p);
        }
        by_part = re;
    }
    if presort > 0 {
        for p in by_part.iter_mut() {
            p.sort_by(|a, b| lex_cmp(&a.keys[..presort], &b.keys[..presort], &keys[..presort]));
        }
    }
    let mut partitions = vec![];
    for p in &by_part {
        match build_batches(&schema, keys, p, &case.cuts) {
            Ok(b) => partitions.push(b),
            Err(e) => return CaseResult::discard(e),
        }
    }
    let ordering = if declare > 0 { LexOrdering::new(sort_exprs(keys, declare)) } else { None };
    let src: Arc<dyn ExecutionPlan> = Arc::new(SrcExec::new(Arc::clone(&schema), partitions, ordering, case.jitter));
    let Some(full) = LexOrdering::new(sort_exprs(keys, nk)) else { return CaseResult::discard("empty ordering") };

    // plan + expected (inputs per output partition, fetch)
    let all_rows: Vec<&PRow> = by_part.iter().flatten().copied().collect();
    let plan: Arc<dyn ExecutionPlan>;
    let expected_inputs: Vec<Vec<&PRow>>;
    let mut fetch_of: Option<usize> = None;
    let mut ptk: Option<(usize, usize, u8)> = None;
    // SortExec(preserve_partitioning, fetch) shares one TopK threshold between its partitions
    let mut shared_topk = false;
    match &case.op {
        Op::Sort { fetch, preserve, presorted } => {
            let presorted = (*presorted as usize).min(nk);
            let fetch = fetch.map(|f| f as usize);
            if fetch == Some(0) && presorted < nk {
                return CaseResult::discard("fetch=0 on the TopK path is not generated (asserted k > 0)");
            }
            fetch_of = fetch;
            labels.push("op:sort".into());
            labels.push(match (fetch, presorted) {
                (None, p) if p == nk => "path:passthrough".into(),
                (Some(_), p) if p == nk => "path:limit".into(),
                (None, _) => "path:external-sorter".into(),
                (Some(_), 0) => "path:topk".into(),
                (Some(_), _) => "path:topk-prefix".to_string(),
            });
            if *preserve || parts == 1 {
                let s = SortExec::new(full.clone(), src).with_preserve_partitioning(*preserve).with_fetch(fetch);
                plan = Arc::new(s);
                expected_inputs = if *preserve { by_part.clone() } else { vec![all_rows.clone()] };
                if *preserve {
                    labels.push("preserve-partitioning".into());
                    shared_topk = parts > 1 && fetch.is_some() && presorted < nk;
                }
            } else {
                let child: Arc<dyn ExecutionPlan> = if presorted > 0 {
                    let Some(pre) = LexOrdering::new(sort_exprs(keys, presorted)) else { return CaseResult::discard("empty ordering") };
                    Arc::new(SortPreservingMergeExec::new(pre, src))
                } else {
                    Arc::new(CoalescePartitionsExec::new(src))
                };
                plan = Arc::new(SortExec::new(full.clone(), child).with_fetch(fetch));
                expected_inputs = vec![all_rows.clone()];
            }
        }
        Op::Spm { fetch, round_robin } => {
            let fetch = fetch.map(|f| f as usize);
            fetch_of = fetch;
            labels.push("op:spm".into());
            labels.push(format!("spm-inputs={}", parts.min(4)));
            plan = Arc::new(SortPreservingMergeExec::new(full.clone(), src).with_fetch(fetch).with_round_robin_repartition(*round_robin));
            expected_inputs = vec![all_rows.clone()];
        }
        Op::PartialSort { prefix, fetch, preserve } => {
            if nk < 2 {
                return CaseResult::discard("partial sort needs two keys");
            }
            let prefix = (*prefix as usize).clamp(1, nk - 1);
            let fetch = fetch.map(|f| f as usize);
            fetch_of = fetch;
            labels.push("op:partial-sort".into());
            if *preserve || parts == 1 {
                plan = Arc::new(PartialSortExec::new(full.clone(), src, prefix).with_preserve_partitioning(*preserve).with_fetch(fetch));
                expected_inputs = if *preserve { by_part.clone() } else { vec![all_rows.clone()] };
            } else {
                let Some(pre) = LexOrdering::new(sort_exprs(keys, prefix)) else { return CaseResult::discard("empty ordering") };
                let child: Arc<dyn ExecutionPlan> = Arc::new(SortPreservingMergeExec::new(pre, src));
                plan = Arc::new(PartialSortExec::new(full.clone(), child, prefix).with_fetch(fetch));
                expected_inputs = vec![all_rows.clone()];
            }
        }
        Op::PartTopK { prefix, k, kind } => {
            if nk < 2 {
                return CaseResult::discard("partitioned top-k needs a partition key and an order key");
            }
            let prefix = (*prefix as usize).clamp(1, nk - 1);
            let k = (*k as usize).max(1);
            let fk = match kind % 3 {
                0 => WindowFnKind::RowNumber,
                1 => WindowFnKind::Rank,
                _ => WindowFnKind::DenseRank,
            };
            labels.push(format!("op:partitioned-topk:{}", ["row_number", "rank", "dense_rank"][(*kind % 3) as usize]));
            match PartitionedTopKExec::try_new(src, full.clone(), prefix, k, fk) {
                Ok(p) => plan = Arc::new(p),
                Err(e) => return CaseResult::discard(format!("PartitionedTopKExec::try_new: {e}")),
            }
            expected_inputs = by_part.clone();
            ptk = Some((prefix, k, *kind % 3));
        }
    }
    if case.opts.mem_limit.is_some() {
        labels.push("mem-limited".into());
        if case.opts.fan_in > 0 {
            labels.push(format!("fan-in={}", case.opts.fan_in));
        }
    }
    let env = match make_env(&case.opts) {
        Ok(e) => e,
        Err(ExecErr::Harness(m)) | Err(ExecErr::Other(m)) => return CaseResult::discard(format!("env: {m}")).labels(labels),
        Err(_) => return CaseResult::discard("env").labels(labels),
    };
    let out = match execute_all(&plan, &env, case.opts.threads, 60) {
        Ok(o) => o,
        Err(ExecErr::ResourcesExhausted(m)) => {
            return if case.opts.mem_limit.is_some() { CaseResult::inconclusive(format!("resources exhausted: {}", truncate(&m, 60))).labels(labels) } else { CaseResult::violation(format!("ResourcesExhausted without a memory limit: {m}")).labels(labels) };
        }
        Err(ExecErr::NotImplemented(m)) => return CaseResult::discard(format!("not implemented: {}", truncate(&m, 80))).labels(labels),
        Err(ExecErr::Timeout) => return CaseResult::inconclusive("timeout").labels(labels),
        Err(ExecErr::Harness(m)) => return CaseResult::discard(format!("harness: {m}")).labels(labels),
        Err(ExecErr::Other(m)) => return CaseResult::violation(format!("execution failed: {m}")).labels(labels),
    };
    let spills = metric_sum(&plan, "spill_count");
    if spills > 0 {
        labels.push("spilled".into());
        if case.opts.fan_in > 0 && spills > case.opts.fan_in as usize {
            labels.push("multi-level-merge".into());
        }
        labels.push(format!("spills={}", if spills >= 8 { "8+".to_string() } else if spills >= 3 { "3-7".to_string() } else { spills.to_string() }));
    }
    if out.len() != expected_inputs.len() {
        return CaseResult::violation(format!("{} output partitions, {} expected", out.len(), expected_inputs.len())).labels(labels);
    }
    let mut nontrivial = false;
    let mut union: Vec<Vec<Val>> = vec![];
    for (p, (batches, input)) in out.iter().zip(expected_inputs.iter()).enumerate() {
        for b in batches {
            if b.schema().fields().len() != schema.fields().len() {
                return CaseResult::violation("output batch has a different number of columns").labels(labels);
            }
        }
        let rows = match batches_to_rows(batches) {
            Ok(r) => r,
            Err(e) => return CaseResult::violation(format!("cannot read output: {e}")).labels(labels),
        };
        let what = format!("output partition {p}");
        let res = match ptk {
            Some((prefix, k, kind)) => check_part_topk(&rows, input, keys, prefix, k, kind, &what),
            None => check_sorted(&rows, input, keys, fetch_of, shared_topk, &what),
        };
        if shared_topk {
            union.extend(rows.iter().cloned());
        }
        match res {
            Err(m) => return CaseResult::violation(m).labels(labels),
            Ok(c) => {
                let fetch_ok = match (fetch_of, ptk) {
                    (Some(f), _) => input.len() > f,
                    (None, Some((_, k, _))) => input.len() > k,
                    _ => true,
                };
                if c.distinct_keys >= 2 && (c.ties || c.special) && fetch_ok {
                    nontrivial = true;
                }
                if c.ties {
                    labels.push("ties".into());
                }
                if c.special {
                    labels.push("null-or-nan".into());
                }
            }
        }
    }
    if shared_topk {
        // the merged partitions must contain a valid global top-k
        labels.push("shared-topk-threshold".into());
        let k = fetch_of.unwrap_or(0).min(all_rows.len());
        union.sort_by(|a, b| lex_cmp(&a[..nk], &b[..nk], keys));
        let mut reference: Vec<&PRow> = all_rows.clone();
        reference.sort_by(|a, b| lex_cmp(&a.keys, &b.keys, keys));
        if union.len() < k {
            return CaseResult::violation(format!("partitions of SortExec(fetch={fetch_of:?}) hold {} rows together, the global top-{k} needs {k}", union.len())).labels(labels);
        }
        for i in 0..k {
            if lex_cmp(&union[i][..nk], &reference[i].keys, keys) != Ordering::Equal {
                return CaseResult::violation(format!("merged partitions of SortExec(fetch={fetch_of:?}): position {i} holds keys {} but the reference order has {:?}", show_row(&union[i][..nk]), reference[i].keys)).labels(labels);
            }
        }
    }
    if let (Some(f), Op::Sort { presorted, .. }) = (fetch_of, &case.op) {
        if f >= 1 && f <= all_rows.len() && (*presorted as usize) < nk && nk >= 2 {
            let mut reference: Vec<&PRow> = all_rows.clone();
            reference.sort_by(|a, b| lex_cmp(&a.keys, &b.keys, keys));
            let kth = reference[f - 1];
            if (0..nk - 1).any(|i| !keys[i].nulls_first && kth.keys[i].is_null()) {
                labels.push("topk:kth-row-null-on-nulls-last-prefix-key".into());
            }
            if (0..nk - 1).any(|i| keys[i].nulls_first && kth.keys[i].is_null()) {
                labels.push("topk:kth-row-null-on-nulls-first-prefix-key".into());
            }
        }
    }
    labels.sort();
    labels.dedup();
    match fetch_of {
        None => labels.push("fetch:none".into()),
        Some(0) => labels.push("fetch:0".into()),
        Some(f) if f >= all_rows.len() => labels.push("fetch:>=n".into()),
        Some(_) => labels.push("fetch:k".into()),
    }
    CaseResult::pass().nontrivial(nontrivial).labels(labels)
}
