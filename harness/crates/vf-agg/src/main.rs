mod c08;
mod data;
mod run;
mod source;

fn main() {
    vf_kit::dispatch! {
        "c08" => c08::C08,
    }
}
