mod c06;
mod c08;
mod data;
mod run;
mod source;

fn main() {
    vf_kit::dispatch! {
        "c06" => c06::C06,
        "c08" => c08::C08,
    }
}
