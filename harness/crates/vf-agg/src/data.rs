//! Plain-data values, the code → value pools per column type, Arrow rendering (with physical
//! encoding variations) and Arrow → plain rows conversion. Shared by c06 and c08.
//!
//! A cell of a generated table is `Option<u8>`: `None` = NULL, `Some(code)` = entry `code` of the
//! pool of the column's type (10 entries). Codes `< TAME` are "tame" values (small magnitudes, no
//! NaN / signed zero), codes `>= TAME` are the extremes (type boundaries, NaN, -0.0, …).
use arrow::array::*;
use arrow::buffer::{NullBuffer, OffsetBuffer};
use arrow::datatypes::*;
use serde::{Deserialize, Serialize};
use std::cmp::Ordering;
use std::sync::Arc;

pub const POOL: u8 = 10;
pub const TAME: u8 = 7;

#[derive(Clone, Copy, Debug, PartialEq, Eq, Serialize, Deserialize, PartialOrd, Ord)]
pub enum ColType {
    I8,
    I16,
    I32,
    I64,
    U8,
    U16,
    U32,
    U64,
    F32,
    F64,
    Bool,
    Utf8,
    LargeUtf8,
    Utf8View,
    Binary,
    BinaryView,
    FixedBin2,
    /// Dictionary(Int8, Utf8)
    DictUtf8,
    /// Dictionary(Int32, Int64)
    DictI64,
    /// Decimal128(10, 2)
    Dec128,
    Date32,
    TsMicro,
    /// Struct<a: Int32, b: Utf8>
    StructI32Utf8,
    /// List<Int32>
    ListI32,
}

impl ColType {
    pub fn name(self) -> &'static str {
        match self {
            ColType::I8 => "i8",
            ColType::I16 => "i16",
            ColType::I32 => "i32",
            ColType::I64 => "i64",
            ColType::U8 => "u8",
            ColType::U16 => "u16",
            ColType::U32 => "u32",
            ColType::U64 => "u64",
            ColType::F32 => "f32",
            ColType::F64 => "f64",
            ColType::Bool => "bool",
            ColType::Utf8 => "utf8",
            ColType::LargeUtf8 => "largeutf8",
            ColType::Utf8View => "utf8view",
            ColType::Binary => "binary",
            ColType::BinaryView => "binaryview",
            ColType::FixedBin2 => "fixedbin2",
            ColType::DictUtf8 => "dict-utf8",
            ColType::DictI64 => "dict-i64",
            ColType::Dec128 => "dec128",
            ColType::Date32 => "date32",
            ColType::TsMicro => "ts-us",
            ColType::StructI32Utf8 => "struct",
            ColType::ListI32 => "list",
        }
    }

    pub fn data_type(self) -> DataType {
        match self {
            ColType::I8 => DataType::Int8,
            ColType::I16 => DataType::Int16,
            ColType::I32 => DataType::Int32,
            ColType::I64 => DataType::Int64,
            ColType::U8 => DataType::UInt8,
            ColType::U16 => DataType::UInt16,
            ColType::U32 => DataType::UInt32,
            ColType::U64 => DataType::UInt64,
            ColType::F32 => DataType::Float32,
            ColType::F64 => DataType::Float64,
            ColType::Bool => DataType::Boolean,
            ColType::Utf8 => DataType::Utf8,
            ColType::LargeUtf8 => DataType::LargeUtf8,
            ColType::Utf8View => DataType::Utf8View,
            ColType::Binary => DataType::Binary,
            ColType::BinaryView => DataType::BinaryView,
            ColType::FixedBin2 => DataType::FixedSizeBinary(2),
            ColType::DictUtf8 => DataType::Dictionary(Box::new(DataType::Int8), Box::new(DataType::Utf8)),
            ColType::DictI64 => DataType::Dictionary(Box::new(DataType::Int32), Box::new(DataType::Int64)),
            ColType::Dec128 => DataType::Decimal128(10, 2),
            ColType::Date32 => DataType::Date32,
            ColType::TsMicro => DataType::Timestamp(TimeUnit::Microsecond, None),
            ColType::StructI32Utf8 => DataType::Struct(struct_fields()),
            ColType::ListI32 => DataType::List(Arc::new(Field::new_list_field(DataType::Int32, true))),
        }
    }
}

pub fn struct_fields() -> Fields {
    Fields::from(vec![Field::new("a", DataType::Int32, true), Field::new("b", DataType::Utf8, true)])
}

/// Plain logical value. Floats compare by bit pattern in `PartialEq`-like helpers (`same`), so
/// NaN ≡ NaN and -0.0 ≢ 0.0. f32 is widened (exactly). Decimal / date / timestamp are `Int` of the
/// unscaled representation (the scale is fixed by the column type).
#[derive(Clone, Debug)]
pub enum Val {
    Null,
    Bool(bool),
    Int(i128),
    F(f64),
    Str(String),
    Bytes(Vec<u8>),
    List(Vec<Val>),
    Struct(Vec<Val>),
}

impl Val {
    pub fn is_null(&self) -> bool {
        matches!(self, Val::Null)
    }
    fn rank(&self) -> u8 {
        match self {
            Val::Null => 0,
            Val::Bool(_) => 1,
            Val::Int(_) => 2,
            Val::F(_) => 3,
            Val::Str(_) => 4,
            Val::Bytes(_) => 5,
            Val::List(_) => 6,
            Val::Struct(_) => 7,
        }
    }
}

/// Canonical total order over `Val` (used to sort multisets before comparison and as the
/// "natural" order of the sort oracle): NULL first, then by kind; ints / strings / bytes natural,
/// floats by `total_cmp`, lists / structs lexicographic.
pub fn canon_cmp(a: &Val, b: &Val) -> Ordering {
    match (a, b) {
        (Val::Null, Val::Null) => Ordering::Equal,
        (Val::Bool(x), Val::Bool(y)) => x.cmp(y),
        (Val::Int(x), Val::Int(y)) => x.cmp(y),
        (Val::F(x), Val::F(y)) => x.total_cmp(y),
        (Val::Str(x), Val::Str(y)) => x.as_bytes().cmp(y.as_bytes()),
        (Val::Bytes(x), Val::Bytes(y)) => x.cmp(y),
        (Val::List(x), Val::List(y)) | (Val::Struct(x), Val::Struct(y)) => {
            for (p, q) in x.iter().zip(y.iter()) {
                let c = canon_cmp(p, q);
                if c != Ordering::Equal {
                    return c;
                }
            }
            x.len().cmp(&y.len())
        }
        _ => a.rank().cmp(&b.rank()),
    }
}

pub fn same(a: &Val, b: &Val) -> bool {
    canon_cmp(a, b) == Ordering::Equal
}

pub fn canon_cmp_row(a: &[Val], b: &[Val]) -> Ordering {
    for (p, q) in a.iter().zip(b.iter()) {
        let c = canon_cmp(p, q);
        if c != Ordering::Equal {
            return c;
        }
    }
    a.len().cmp(&b.len())
}

pub fn same_row(a: &[Val], b: &[Val]) -> bool {
    canon_cmp_row(a, b) == Ordering::Equal
}

/// SQL sort comparator for one key: `descending`, `nulls_first` as in arrow's `SortOptions`.
/// Non-null scalars by natural order (floats: `total_cmp`, so -0.0 < 0.0 and NaN is greatest).
/// Struct keys: a NULL struct is placed per `nulls_first`; non-null structs compare field by field,
/// each field under the same options (this is arrow-ord's definition for nested keys).
pub fn sort_cmp(a: &Val, b: &Val, descending: bool, nulls_first: bool) -> Ordering {
    match (a.is_null(), b.is_null()) {
        (true, true) => Ordering::Equal,
        (true, false) => {
            if nulls_first {
                Ordering::Less
            } else {
                Ordering::Greater
            }
        }
        (false, true) => {
            if nulls_first {
                Ordering::Greater
            } else {
                Ordering::Less
            }
        }
        (false, false) => match (a, b) {
            (Val::Struct(x), Val::Struct(y)) | (Val::List(x), Val::List(y)) => {
                for (p, q) in x.iter().zip(y.iter()) {
                    let c = sort_cmp(p, q, descending, nulls_first);
                    if c != Ordering::Equal {
                        return c;
                    }
                }
                let c = x.len().cmp(&y.len());
                if descending { c.reverse() } else { c }
            }
            _ => {
                let c = canon_cmp(a, b);
                if descending { c.reverse() } else { c }
            }
        },
    }
}

// Short (≤ 12 bytes, inlined in view arrays) and long (> 12 bytes, buffer-backed) values that
// share prefixes of 4+ bytes, so that view comparisons have to look past the 4-byte prefix.
const STR_POOL: [&str; 10] = [
    "",
    "a",
    "item",
    "item-1",
    "item-10-of-the-long-kind",
    "é",
    "item-2",
    "item-1-of-the-long-kind!",
    "item-10-of-the-long-kinds",
    "\u{10FFFF}z",
];

const BIN_POOL: [&[u8]; 10] = [
    b"",
    b"a",
    b"item",
    b"item-1",
    b"item-10-of-the-long-kind",
    b"\x00",
    b"item-2",
    b"\xff",
    b"\xff\xfe-a-very-long-binary-over-12-bytes",
    b"item-10-of-the-long-kinds",
];

const F_POOL: [f64; 10] = [1.0, -1.0, 1.5, -2.5, 0.25, 1024.0, -1024.5, 0.0, -0.0, f64::NAN];
// a second pool for c08 that contains infinities is obtained through `float_code` below
const F_POOL_X: [f64; 10] = [1.0, -1.0, 1.5, f64::NEG_INFINITY, f64::INFINITY, f64::MIN_POSITIVE, -1024.5, 0.0, -0.0, f64::NAN];

fn signed_pool(min: i128, max: i128) -> [i128; 10] {
    [0, 1, -1, 2, 7, 100, -100, min, max, max - 1]
}
fn unsigned_pool(max: i128) -> [i128; 10] {
    [0, 1, 2, 3, 7, 100, 200, max, max - 1, 128]
}

/// Value of `code` in the pool of `ty`. `wide_floats` selects the float pool with infinities.
pub fn val_of(ty: ColType, code: u8, wide_floats: bool) -> Val {
    let c = (code % POOL) as usize;
    match ty {
        ColType::I8 => Val::Int(signed_pool(i8::MIN as i128, i8::MAX as i128)[c]),
        ColType::I16 => Val::Int(signed_pool(i16::MIN as i128, i16::MAX as i128)[c]),
        ColType::I32 | ColType::Date32 => Val::Int(signed_pool(i32::MIN as i128, i32::MAX as i128)[c]),
        ColType::I64 | ColType::TsMicro | ColType::DictI64 => Val::Int(signed_pool(i64::MIN as i128, i64::MAX as i128)[c]),
        ColType::Dec128 => Val::Int(signed_pool(-9_999_999_999, 9_999_999_999)[c]),
        ColType::U8 => Val::Int(unsigned_pool(u8::MAX as i128)[c]),
        ColType::U16 => Val::Int(unsigned_pool(u16::MAX as i128)[c]),
        ColType::U32 => Val::Int(unsigned_pool(u32::MAX as i128)[c]),
        ColType::U64 => Val::Int(unsigned_pool(u64::MAX as i128)[c]),
        ColType::F32 => {
            let f = if wide_floats { F_POOL_X[c] } else { F_POOL[c] };
            Val::F((f as f32) as f64)
        }
        ColType::F64 => Val::F(if wide_floats { F_POOL_X[c] } else { F_POOL[c] }),
        ColType::Bool => Val::Bool(c % 2 == 1),
        ColType::Utf8 | ColType::LargeUtf8 | ColType::Utf8View | ColType::DictUtf8 => Val::Str(STR_POOL[c].to_string()),
        ColType::Binary | ColType::BinaryView => Val::Bytes(BIN_POOL[c].to_vec()),
        ColType::FixedBin2 => {
            let t: [[u8; 2]; 10] = [[0, 0], [0, 1], [1, 0], [1, 1], [97, 98], [98, 97], [0, 255], [255, 0], [255, 255], [255, 254]];
            Val::Bytes(t[c].to_vec())
        }
        ColType::StructI32Utf8 => {
            // field a: NULL / 0 / 1 ; field b: NULL / "" / "a" / long
            let a = match c % 3 {
                0 => Val::Null,
                1 => Val::Int(0),
                _ => Val::Int(1),
            };
            let b = match c / 3 {
                0 => Val::Null,
                1 => Val::Str("".into()),
                2 => Val::Str("a".into()),
                _ => Val::Str(STR_POOL[7].into()),
            };
            Val::Struct(vec![a, b])
        }
        ColType::ListI32 => {
            let t: [&[Option<i32>]; 10] = [&[], &[Some(1)], &[None], &[Some(1), Some(2)], &[Some(1), None], &[None, Some(1)], &[Some(2)], &[Some(i32::MIN)], &[Some(i32::MAX), Some(0)], &[None, None]];
            Val::List(t[c].iter().map(|x| x.map(|v| Val::Int(v as i128)).unwrap_or(Val::Null)).collect())
        }
    }
}

pub fn cell(ty: ColType, c: Option<u8>, wide_floats: bool) -> Val {
    match c {
        None => Val::Null,
        Some(code) => val_of(ty, code, wide_floats),
    }
}

/// Physical rendering choices for one column.
#[derive(Clone, Copy, Debug, Default, Serialize, Deserialize)]
pub struct Enc {
    /// number of garbage rows placed before (and after) the real rows; the array is then sliced
    pub pad: u8,
    /// dictionary columns: rotate the dictionary values by this amount and add unused entries
    pub dict_rot: u8,
    /// dictionary columns: represent NULL as a valid key that points to a NULL dictionary value
    pub dict_null_value: bool,
}

fn build_plain(dt: &DataType, vals: &[Val]) -> ArrayRef {
    macro_rules! prim {
        ($arr:ty, $nat:ty) => {{
            let a: $arr = vals
                .iter()
                .map(|v| match v {
                    Val::Int(i) => Some(*i as $nat),
                    _ => None,
                })
                .collect();
            Arc::new(a) as ArrayRef
        }};
    }
    match dt {
        DataType::Int8 => prim!(Int8Array, i8),
        DataType::Int16 => prim!(Int16Array, i16),
        DataType::Int32 => prim!(Int32Array, i32),
        DataType::Int64 => prim!(Int64Array, i64),
        DataType::UInt8 => prim!(UInt8Array, u8),
        DataType::UInt16 => prim!(UInt16Array, u16),
        DataType::UInt32 => prim!(UInt32Array, u32),
        DataType::UInt64 => prim!(UInt64Array, u64),
        DataType::Date32 => prim!(Date32Array, i32),
        DataType::Timestamp(TimeUnit::Microsecond, None) => prim!(TimestampMicrosecondArray, i64),
        DataType::Decimal128(p, s) => {
            let a: Decimal128Array = vals
                .iter()
                .map(|v| match v {
                    Val::Int(i) => Some(*i),
                    _ => None,
                })
                .collect();
            Arc::new(a.with_precision_and_scale(*p, *s).expect("valid decimal type"))
        }
        DataType::Float32 => {
            let a: Float32Array = vals
                .iter()
                .map(|v| match v {
                    Val::F(f) => Some(*f as f32),
                    _ => None,
                })
                .collect();
            Arc::new(a)
        }
        DataType::Float64 => {
            let a: Float64Array = vals
                .iter()
                .map(|v| match v {
                    Val::F(f) => Some(*f),
                    _ => None,
                })
                .collect();
            Arc::new(a)
        }
        DataType::Boolean => {
            let a: BooleanArray = vals
                .iter()
                .map(|v| match v {
                    Val::Bool(b) => Some(*b),
                    _ => None,
                })
                .collect();
            Arc::new(a)
        }
        DataType::Utf8 => Arc::new(vals.iter().map(str_of).collect::<StringArray>()),
        DataType::LargeUtf8 => Arc::new(vals.iter().map(str_of).collect::<LargeStringArray>()),
        DataType::Utf8View => Arc::new(vals.iter().map(str_of).collect::<StringViewArray>()),
        DataType::Binary => Arc::new(vals.iter().map(bytes_of).collect::<BinaryArray>()),
        DataType::BinaryView => Arc::new(vals.iter().map(bytes_of).collect::<BinaryViewArray>()),
        DataType::FixedSizeBinary(n) => {
            let a = FixedSizeBinaryArray::try_from_sparse_iter_with_size(vals.iter().map(bytes_of), *n).expect("fixed size binary");
            Arc::new(a)
        }
        DataType::Struct(fields) => {
            let mut cols: Vec<ArrayRef> = vec![];
            for (i, f) in fields.iter().enumerate() {
                // arbitrary (non-null) child content under NULL parents
                let child: Vec<Val> = vals
                    .iter()
                    .map(|v| match v {
                        Val::Struct(fs) => fs[i].clone(),
                        _ => match f.data_type() {
                            DataType::Int32 => Val::Int(42),
                            _ => Val::Str("garbage".into()),
                        },
                    })
                    .collect();
                cols.push(build_plain(f.data_type(), &child));
            }
            let nulls = NullBuffer::from(vals.iter().map(|v| !v.is_null()).collect::<Vec<bool>>());
            Arc::new(StructArray::new(fields.clone(), cols, Some(nulls)))
        }
        DataType::List(field) => {
            let mut child: Vec<Val> = vec![];
            let mut lens: Vec<usize> = vec![];
            for v in vals {
                match v {
                    Val::List(items) => {
                        child.extend(items.iter().cloned());
                        lens.push(items.len());
                    }
                    _ => lens.push(0),
                }
            }
            let values = build_plain(field.data_type(), &child);
            let nulls = NullBuffer::from(vals.iter().map(|v| !v.is_null()).collect::<Vec<bool>>());
            Arc::new(ListArray::new(field.clone(), OffsetBuffer::from_lengths(lens), values, Some(nulls)))
        }
        other => panic!("vf-agg data: unsupported data type {other}"),
    }
}

fn str_of(v: &Val) -> Option<&str> {
    match v {
        Val::Str(s) => Some(s.as_str()),
        _ => None,
    }
}
fn bytes_of(v: &Val) -> Option<&[u8]> {
    match v {
        Val::Bytes(s) => Some(s.as_slice()),
        _ => None,
    }
}

fn garbage(ty: ColType, i: usize) -> Val {
    if i % 3 == 2 { Val::Null } else { val_of(ty, (i as u8 * 3 + 5) % POOL, false) }
}

/// Render plain values as an Arrow array of `ty` under the encoding `enc`.
pub fn build_array(ty: ColType, vals: &[Val], enc: Enc) -> ArrayRef {
    let pad = (enc.pad % 4) as usize;
    let mut all: Vec<Val> = Vec::with_capacity(vals.len() + 2 * pad);
    for i in 0..pad {
        all.push(garbage(ty, i));
    }
    all.extend(vals.iter().cloned());
    for i in 0..pad {
        all.push(garbage(ty, i + 1));
    }
    let arr: ArrayRef = match ty {
        ColType::DictUtf8 | ColType::DictI64 => build_dict(ty, &all, enc),
        _ => build_plain(&ty.data_type(), &all),
    };
    if pad > 0 { arr.slice(pad, vals.len()) } else { arr }
}

fn build_dict(ty: ColType, all: &[Val], enc: Enc) -> ArrayRef {
    // dictionary values: the whole pool rotated, with duplicates of entry 0 and (optionally) a NULL entry
    let rot = (enc.dict_rot % POOL) as usize;
    let mut dict_vals: Vec<Val> = (0..POOL as usize).map(|i| val_of(ty, ((i + rot) % POOL as usize) as u8, false)).collect();
    dict_vals.push(val_of(ty, 0, false)); // duplicate entry
    let null_slot = if enc.dict_null_value {
        dict_vals.push(Val::Null);
        Some(dict_vals.len() - 1)
    } else {
        None
    };
    let find = |v: &Val, row: usize| -> Option<usize> {
        if v.is_null() {
            return null_slot;
        }
        // alternate between the first and the last matching entry so duplicates are both used
        let mut hits = dict_vals.iter().enumerate().filter(|(_, d)| same(d, v)).map(|(i, _)| i);
        let first = hits.next();
        let last = hits.last().or(first);
        if row % 2 == 0 { first } else { last }
    };
    match ty {
        ColType::DictUtf8 => {
            let values = build_plain(&DataType::Utf8, &dict_vals);
            let keys: Int8Array = all.iter().enumerate().map(|(r, v)| find(v, r).map(|i| i as i8)).collect();
            Arc::new(DictionaryArray::<Int8Type>::try_new(keys, values).expect("dictionary"))
        }
        _ => {
            let values = build_plain(&DataType::Int64, &dict_vals);
            let keys: Int32Array = all.iter().enumerate().map(|(r, v)| find(v, r).map(|i| i as i32)).collect();
            Arc::new(DictionaryArray::<Int32Type>::try_new(keys, values).expect("dictionary"))
        }
    }
}

/// Arrow → plain values. Returns Err for a data type this harness does not know (never for the
/// types it generates or the aggregate result types it expects).
pub fn array_to_vals(arr: &dyn Array) -> Result<Vec<Val>, String> {
    macro_rules! prim {
        ($arr:ty) => {{
            let a = arr.as_any().downcast_ref::<$arr>().ok_or("downcast")?;
            Ok((0..a.len()).map(|i| if a.is_null(i) { Val::Null } else { Val::Int(a.value(i) as i128) }).collect())
        }};
    }
    match arr.data_type() {
        DataType::Null => Ok(vec![Val::Null; arr.len()]),
        DataType::Int8 => prim!(Int8Array),
        DataType::Int16 => prim!(Int16Array),
        DataType::Int32 => prim!(Int32Array),
        DataType::Int64 => prim!(Int64Array),
        DataType::UInt8 => prim!(UInt8Array),
        DataType::UInt16 => prim!(UInt16Array),
        DataType::UInt32 => prim!(UInt32Array),
        DataType::UInt64 => prim!(UInt64Array),
        DataType::Date32 => prim!(Date32Array),
        DataType::Timestamp(TimeUnit::Microsecond, _) => prim!(TimestampMicrosecondArray),
        DataType::Decimal128(_, _) => prim!(Decimal128Array),
        DataType::Float32 => {
            let a = arr.as_any().downcast_ref::<Float32Array>().ok_or("downcast")?;
            Ok((0..a.len()).map(|i| if a.is_null(i) { Val::Null } else { Val::F(a.value(i) as f64) }).collect())
        }
        DataType::Float64 => {
            let a = arr.as_any().downcast_ref::<Float64Array>().ok_or("downcast")?;
            Ok((0..a.len()).map(|i| if a.is_null(i) { Val::Null } else { Val::F(a.value(i)) }).collect())
        }
        DataType::Boolean => {
            let a = arr.as_any().downcast_ref::<BooleanArray>().ok_or("downcast")?;
            Ok((0..a.len()).map(|i| if a.is_null(i) { Val::Null } else { Val::Bool(a.value(i)) }).collect())
        }
        DataType::Utf8 => {
            let a = arr.as_any().downcast_ref::<StringArray>().ok_or("downcast")?;
            Ok((0..a.len()).map(|i| if a.is_null(i) { Val::Null } else { Val::Str(a.value(i).to_string()) }).collect())
        }
        DataType::LargeUtf8 => {
            let a = arr.as_any().downcast_ref::<LargeStringArray>().ok_or("downcast")?;
            Ok((0..a.len()).map(|i| if a.is_null(i) { Val::Null } else { Val::Str(a.value(i).to_string()) }).collect())
        }
        DataType::Utf8View => {
            let a = arr.as_any().downcast_ref::<StringViewArray>().ok_or("downcast")?;
            Ok((0..a.len()).map(|i| if a.is_null(i) { Val::Null } else { Val::Str(a.value(i).to_string()) }).collect())
        }
        DataType::Binary => {
            let a = arr.as_any().downcast_ref::<BinaryArray>().ok_or("downcast")?;
            Ok((0..a.len()).map(|i| if a.is_null(i) { Val::Null } else { Val::Bytes(a.value(i).to_vec()) }).collect())
        }
        DataType::LargeBinary => {
            let a = arr.as_any().downcast_ref::<LargeBinaryArray>().ok_or("downcast")?;
            Ok((0..a.len()).map(|i| if a.is_null(i) { Val::Null } else { Val::Bytes(a.value(i).to_vec()) }).collect())
        }
        DataType::BinaryView => {
            let a = arr.as_any().downcast_ref::<BinaryViewArray>().ok_or("downcast")?;
            Ok((0..a.len()).map(|i| if a.is_null(i) { Val::Null } else { Val::Bytes(a.value(i).to_vec()) }).collect())
        }
        DataType::FixedSizeBinary(_) => {
            let a = arr.as_any().downcast_ref::<FixedSizeBinaryArray>().ok_or("downcast")?;
            Ok((0..a.len()).map(|i| if a.is_null(i) { Val::Null } else { Val::Bytes(a.value(i).to_vec()) }).collect())
        }
        DataType::Dictionary(_, value_type) => {
            // arrow's cast kernel is outside the code under test
            let plain = arrow::compute::cast(arr, value_type).map_err(|e| format!("cast dictionary: {e}"))?;
            array_to_vals(plain.as_ref())
        }
        DataType::Struct(_) => {
            let a = arr.as_any().downcast_ref::<StructArray>().ok_or("downcast")?;
            let cols: Vec<Vec<Val>> = a.columns().iter().map(|c| array_to_vals(c.as_ref())).collect::<Result<_, _>>()?;
            Ok((0..a.len()).map(|i| if a.is_null(i) { Val::Null } else { Val::Struct(cols.iter().map(|c| c[i].clone()).collect()) }).collect())
        }
        DataType::List(_) => {
            let a = arr.as_any().downcast_ref::<ListArray>().ok_or("downcast")?;
            let mut out = Vec::with_capacity(a.len());
            for i in 0..a.len() {
                if a.is_null(i) {
                    out.push(Val::Null);
                } else {
                    out.push(Val::List(array_to_vals(a.value(i).as_ref())?));
                }
            }
            Ok(out)
        }
        other => Err(format!("harness cannot convert result type {other}")),
    }
}

/// All rows of a list of batches as plain rows.
pub fn batches_to_rows(batches: &[arrow::record_batch::RecordBatch]) -> Result<Vec<Vec<Val>>, String> {
    let mut rows = vec![];
    for b in batches {
        let cols: Vec<Vec<Val>> = b.columns().iter().map(|c| array_to_vals(c.as_ref())).collect::<Result<_, _>>()?;
        for i in 0..b.num_rows() {
            rows.push(cols.iter().map(|c| c[i].clone()).collect());
        }
    }
    Ok(rows)
}

pub fn show_row(r: &[Val]) -> String {
    format!("{r:?}")
}
