//! Execution helper: build a `TaskContext` from plain options, run every output partition of a plan
//! on a per-case tokio runtime under a timeout, classify errors.
use arrow::record_batch::RecordBatch;
use datafusion_common::DataFusionError;
use datafusion_execution::TaskContext;
use datafusion_execution::config::SessionConfig;
use datafusion_execution::disk_manager::{DiskManagerBuilder, DiskManagerMode};
use datafusion_execution::memory_pool::{FairSpillPool, GreedyMemoryPool, MemoryPool};
use datafusion_execution::runtime_env::RuntimeEnvBuilder;
use datafusion_physical_plan::ExecutionPlan;
use futures::StreamExt;
use serde::{Deserialize, Serialize};
use std::sync::Arc;
use std::time::Duration;

#[derive(Clone, Debug, Default, Serialize, Deserialize)]
pub struct ExecOpts {
    pub batch_size: u16,
    /// memory pool size in bytes (None = unbounded)
    pub mem_limit: Option<u32>,
    /// FairSpillPool instead of GreedyMemoryPool
    pub fair_pool: bool,
    /// 0 = engine default (unlimited)
    pub fan_in: u8,
    /// `datafusion.execution.*` overrides as (key, value-as-text)
    pub settings: Vec<(String, String)>,
    /// 0/1 = current-thread runtime, n ≥ 2 = multi-thread runtime with n workers
    pub threads: u8,
}

#[derive(Debug)]
pub enum ExecErr {
    ResourcesExhausted(String),
    NotImplemented(String),
    Timeout,
    Harness(String),
    Other(String),
}

pub fn classify(e: &DataFusionError) -> ExecErr {
    let text = e.to_string();
    let root = e.find_root();
    // "… hash aggregate ran out of memory with no aggregated groups" is raised as an Internal error by
    // the aggregate streams when even an empty table cannot be reserved; it is a memory exhaustion
    if matches!(root, DataFusionError::ResourcesExhausted(_)) || text.contains("Resources exhausted") || text.contains("ran out of memory") {
        return ExecErr::ResourcesExhausted(text);
    }
    if matches!(root, DataFusionError::NotImplemented(_)) || text.contains("This feature is not implemented") {
        return ExecErr::NotImplemented(text);
    }
    ExecErr::Other(text)
}

pub struct Env {
    pub ctx: Arc<TaskContext>,
    /// keeps the spill directory alive; dropped (and removed) with the Env
    pub _tmp: Option<tempfile::TempDir>,
}

pub fn make_env(opts: &ExecOpts) -> Result<Env, ExecErr> {
    let mut cfg = SessionConfig::new().with_batch_size(opts.batch_size.max(1) as usize);
    for (k, v) in &opts.settings {
        if let Err(e) = cfg.options_mut().set(k, v) {
            return Err(ExecErr::Harness(format!("cannot set {k}={v}: {e}")));
        }
    }
    let mut rb = RuntimeEnvBuilder::new();
    let mut tmp = None;
    if opts.mem_limit.is_some() || opts.fan_in > 0 {
        let dir = tempfile::tempdir().map_err(|e| ExecErr::Harness(format!("tempdir: {e}")))?;
        let dm = DiskManagerBuilder::default().with_mode(DiskManagerMode::Directories(vec![dir.path().to_path_buf()])).with_max_spill_merge_fan_in(opts.fan_in as usize);
        rb = rb.with_disk_manager_builder(dm);
        tmp = Some(dir);
    }
    if let Some(m) = opts.mem_limit {
        let pool: Arc<dyn MemoryPool> = if opts.fair_pool { Arc::new(FairSpillPool::new(m as usize)) } else { Arc::new(GreedyMemoryPool::new(m as usize)) };
        rb = rb.with_memory_pool(pool);
    }
    let rt = rb.build_arc().map_err(|e| ExecErr::Harness(format!("runtime env: {e}")))?;
    let ctx = TaskContext::default().with_session_config(cfg).with_runtime(rt);
    Ok(Env { ctx: Arc::new(ctx), _tmp: tmp })
}

/// Execute all output partitions concurrently; returns the batches per output partition.
pub fn execute_all(plan: &Arc<dyn ExecutionPlan>, env: &Env, threads: u8, timeout_s: u64) -> Result<Vec<Vec<RecordBatch>>, ExecErr> {
    let rt = if threads >= 2 {
        tokio::runtime::Builder::new_multi_thread().worker_threads(threads as usize).enable_all().build()
    } else {
        tokio::runtime::Builder::new_current_thread().enable_all().build()
    }
    .map_err(|e| ExecErr::Harness(format!("tokio runtime: {e}")))?;
    let n = plan.properties().output_partitioning().partition_count();
    let plan = Arc::clone(plan);
    let ctx = Arc::clone(&env.ctx);
    let res = rt.block_on(async move {
        let fut = async {
            let mut futs = vec![];
            for p in 0..n {
                let plan = Arc::clone(&plan);
                let ctx = Arc::clone(&ctx);
                futs.push(async move {
                    let mut stream = plan.execute(p, ctx)?;
                    let mut out = vec![];
                    while let Some(b) = stream.next().await {
                        out.push(b?);
                    }
                    Ok::<_, DataFusionError>(out)
                });
            }
            futures::future::try_join_all(futs).await
        };
        tokio::time::timeout(Duration::from_secs(timeout_s), fut).await
    });
    // shut the runtime down without waiting for stuck background tasks
    rt.shutdown_timeout(Duration::from_millis(200));
    match res {
        Err(_) => Err(ExecErr::Timeout),
        Ok(Err(e)) => Err(classify(&e)),
        Ok(Ok(v)) => Ok(v),
    }
}

/// Sum of a named metric over the whole plan tree.
pub fn metric_sum(plan: &Arc<dyn ExecutionPlan>, name: &str) -> usize {
    let mut total = 0;
    if let Some(m) = plan.metrics() {
        let v = match name {
            "spill_count" => m.spill_count(),
            "spilled_rows" => m.spilled_rows(),
            _ => m.sum_by_name(name).map(|v| v.as_usize()),
        };
        total += v.unwrap_or(0);
    }
    for c in plan.children() {
        total += metric_sum(c, name);
    }
    total
}
