//! C06 — grouped aggregation is exact under every aggregation strategy (operator level).
//!
//! Domain: 0–N rows (quick N=60, thorough N=400); 0–3 group-key columns from the key-type matrix
//! (all integer widths, f32/f64 without NaN / zeros, bool, utf8, largeutf8, utf8view, binary,
//! binaryview, fixed-size binary, dictionary(utf8 / int64), decimal128, date32, timestamp,
//! struct and list (row-backed fallback)) with duplicate- and NULL-heavy small domains and physical
//! encoding variations; value columns vi:Int64 vu:UInt64 vf:Float64 (dyadic rationals → sums exact in
//! any order) vs:Utf8 vb:Boolean vd:Decimal128(10,2), an ORDER BY column `o` with ties, a unique `id`
//! and a nullable boolean FILTER column. Aggregates: count, count(distinct), sum, min, max, avg,
//! bool_and/or, bit_and/or/xor, first_value / last_value / array_agg with a total ORDER BY
//! (`o` optional, then `id`), IGNORE NULLS for first/last, per-aggregate FILTER.
//! Plan shapes (built directly from `AggregateExec::try_new`, later stages use the first stage's
//! `aggr_expr()` as the planner does):
//!   Single · SinglePartitioned (over hash RepartitionExec) · Partial→CoalescePartitions→Final ·
//!   Partial→hash RepartitionExec→FinalPartitioned · Partial→{coalesce | round-robin | hash}→
//!   PartialReduce→Final/FinalPartitioned · ordered input (source declares and has an ordering on a
//!   permutation / subset of the group keys → `InputOrderMode::Sorted` / `PartiallySorted`, early
//!   emission; order-preserving connectors SortPreservingMergeExec / RepartitionExec
//!   preserve_order keep the later stages ordered) · grouped TopK (`LimitOptions` with order +
//!   min/max, or group-by-only with order, or the unordered soft limit) on one or all stages ·
//!   skip-partial-aggregation forced through `skip_partial_aggregation_probe_*` ·
//!   memory limits (greedy / fair pool) forcing early emission / spilling · batch sizes {1,3,8192} ·
//!   `enable_migration_aggregate` on/off.
//!
//! Oracle: linear-scan grouping over plain values (NULL is its own group) with reference
//! aggregate definitions; the output rows (all partitions) must equal the reference rows as a
//! multiset (floats exact, ±0.0 identified in aggregate results). Grouped TopK: every output row
//! is a correct (key, aggregate) row of the reference, no key twice, and the k best output rows
//! under the order the limit was pushed for (NULL aggregates last; for group-by-only both NULL
//! placements) are a valid tie-aware top-k of the reference; soft limit: ≥ min(k, #groups) correct
//! distinct rows. Model correction (found by seed 2): when the ordered limit also sits on an earlier
//! stage (what the TopKAggregation rule produces), that stage drops contributions of groups outside
//! its local top-k by design, so a last-stage row that ranks strictly after the k-th reference value
//! may carry a partial (never better than the true) min/max; all rows at or before the boundary
//! must be exact. ResourcesExhausted under a memory limit → inconclusive.
//!
//! Observation (NOT a violation of the statement — only non-selected groups are affected — so it is
//! tolerated by the oracle and not a known finding; regression case kept under
//! /verif/regressions/C06/c06/, optional repair /verif/fixes/C06-grouped-topk-phantom-null-group.diff):
//! GroupedTopKAggregateStream registers a
//! group as "all-NULL" when a NULL input arrives for a group that is not in the map — also when
//! the group's earlier *value* row was rejected by / evicted from the full heap; the group is then
//! emitted with a NULL min/max although it has a value (the code guards only the opposite arrival
//! order, see `should_drop_null_group_that_loses_to_topk`). Low severity: NULLs rank last, a
//! Sort(fetch=k) above never selects the phantom row. The top-k predicate therefore requires exact
//! rows only at or before the k-th reference value; rows ranking strictly after it may carry a
//! value that is not better than the group's true aggregate (NULL included).
//! Genuine finding 1 (FIXED in /repo, commit 8d7ecd5e, no longer excluded; thorough tier; entry `ordered-partial-reduce:spill-order`, case
//! /verif/regressions/C06/c06/partial-reduce-ordered-spill.json, proposed repair
//! /verif/fixes/C06-spill-order-ignores-declared-ordering.diff): GroupedHashAggregateStream (the
//! fallback every PartialReduce stage uses under a finite memory pool) sorts its spill runs by the
//! group columns in *schema* order (only the sort options are taken from the output ordering), so
//! with input ordered on e.g. the 2nd group key the stage's output after a spill is not ordered as
//! declared ([k1 DESC]); SortPreservingMerge + the ordered Final above then emit a group twice
//! (64 rows for 63 groups).
//! Genuine finding 3 (FIXED in /repo, commit 97d0be6f, no longer excluded; thorough tier; entry `legacy-stream:list-key:spill`, case
//! /verif/regressions/C06/c06/legacy-list-key-spill.json, proposed repair
//! /verif/fixes/C06-legacy-merge-recreates-single-column-group-values.diff — the stored case passes
//! with it under mutrun; cause: `set_input_done_and_produce_output` recreates `group_values` for
//! the ordered spill merge only for > 1 group columns, but a single nested / dictionary key is
//! served by the same vectorized collector, whose ids are not first-seen ordered):
//! with `enable_migration_aggregate=false`, a List<Int32> group key and a memory limit that makes
//! the Final stage spill (10.5–12 kB in the stored case; no spill above, exhaustion below) the
//! group [NULL] is returned twice (12 rows for 11 groups); the migrated streams are correct.
//! Observation (not a C06 matter, classified inconclusive): under a memory limit the hash streams
//! raise `Internal error: … hash aggregate ran out of memory with no aggregated groups` instead of
//! ResourcesExhausted when even an empty table cannot be reserved.
//!
//! Sensitivity probes (mutrun, quick tier, both detected):
//!   * aggregates/order/full.rs `new_groups`: `current: max_group_index` → `max_group_index + 1`
//!     (the in-progress group is emitted early) → VIOLATION "4 rows returned, 2 groups expected
//!     [stages Single/sorted]" after 34 cases.
//!   * aggregates/hash_stream.rs `into_replay_stream`: the last sorted spill run is dropped before
//!     the merge → VIOLATION "got [Null, 0] expected [Null, 1] [stages Partial/linear, Final/linear]"
//!     after 54 cases.
//!
//! Deviations from DESIGN.md: SQL-level GROUPING SETS / ROLLUP / CUBE are done elsewhere (c06sql);
//! avg only over Float64 (the planner's coercion target) — decimal avg is left to C07.
use crate::data::*;
use crate::run::*;
use crate::source::SrcExec;
use arrow::array::{ArrayRef, BooleanArray, Int64Array};
use arrow::compute::SortOptions;
use arrow::datatypes::{DataType, Field, Schema, SchemaRef};
use arrow::record_batch::RecordBatch;
use datafusion_expr::AggregateUDF;
use datafusion_functions_aggregate::array_agg::array_agg_udaf;
use datafusion_functions_aggregate::average::avg_udaf;
use datafusion_functions_aggregate::bit_and_or_xor::{bit_and_udaf, bit_or_udaf, bit_xor_udaf};
use datafusion_functions_aggregate::bool_and_or::{bool_and_udaf, bool_or_udaf};
use datafusion_functions_aggregate::count::count_udaf;
use datafusion_functions_aggregate::first_last::{first_value_udaf, last_value_udaf};
use datafusion_functions_aggregate::min_max::{max_udaf, min_udaf};
use datafusion_functions_aggregate::sum::sum_udaf;
use datafusion_physical_expr::aggregate::{AggregateExprBuilder, AggregateFunctionExpr};
use datafusion_physical_expr::expressions::Column;
use datafusion_physical_expr::{LexOrdering, Partitioning, PhysicalExpr, PhysicalSortExpr};
use datafusion_physical_plan::aggregates::{AggregateExec, AggregateMode, LimitOptions, PhysicalGroupBy, topk_types_supported};
use datafusion_physical_plan::coalesce_partitions::CoalescePartitionsExec;
use datafusion_physical_plan::repartition::RepartitionExec;
use datafusion_physical_plan::sorts::sort_preserving_merge::SortPreservingMergeExec;
use datafusion_physical_plan::{ExecutionPlan, ExecutionPlanProperties, InputOrderMode};
use proptest::prelude::*;
use serde::{Deserialize, Serialize};
use std::cmp::Ordering;
use std::sync::Arc;
use vf_kit::engine::*;

pub struct C06;

#[derive(Clone, Debug, Serialize, Deserialize)]
pub struct KeyCol {
    pub ty: ColType,
    pub enc: Enc,
}

#[derive(Clone, Debug, Serialize, Deserialize)]
pub struct Row {
    pub k: Vec<Option<u8>>,
    /// ORDER BY column (Int32), small domain with ties
    pub o: Option<u8>,
    /// the six value columns vi vu vf vs vb vd
    pub v: Vec<Option<u8>>,
    pub f: Option<bool>,
    pub part: u8,
}

#[derive(Clone, Copy, Debug, PartialEq, Eq, Serialize, Deserialize)]
pub enum AggKind {
    Count,
    CountDistinct,
    Sum,
    Min,
    Max,
    Avg,
    BoolAnd,
    BoolOr,
    BitAnd,
    BitOr,
    BitXor,
    First,
    Last,
    ArrayAgg,
}

#[derive(Clone, Debug, Serialize, Deserialize)]
pub struct AggSpec {
    pub kind: AggKind,
    /// index of the value column (0 vi, 1 vu, 2 vf, 3 vs, 4 vb, 5 vd)
    pub col: u8,
    pub filter: bool,
    /// ORDER BY for first/last/array_agg: optional leading `o` key (desc, nulls_first), then id (desc)
    pub by_o: Option<(bool, bool)>,
    pub id_desc: bool,
    pub ignore_nulls: bool,
}

#[derive(Clone, Debug, Serialize, Deserialize)]
pub enum Shape {
    Single,
    SinglePartitioned { n: u8 },
    PartialFinal,
    PartialFinalPartitioned { n: u8 },
    /// mid: 0 coalesce, 1 round-robin(n), 2 hash(n); the last stage is FinalPartitioned when mid is hash and `fp`
    PartialReduce { mid: u8, n: u8, fp: bool },
}

#[derive(Clone, Debug, Serialize, Deserialize)]
pub struct OrdKey {
    pub key: u8,
    pub desc: bool,
    pub nulls_first: bool,
}

#[derive(Clone, Debug, Serialize, Deserialize)]
pub struct TopK {
    pub limit: u16,
    /// 0: ordered (direction follows min/max, or `desc` for group-by-only); 1: unordered soft limit (group-by-only)
    pub soft: bool,
    pub desc: bool,
    /// put the limit on the first stage as well (the optimizer rule does)
    pub all_stages: bool,
}

#[derive(Clone, Debug, Serialize, Deserialize)]
pub struct Case {
    pub keys: Vec<KeyCol>,
    pub rows: Vec<Row>,
    pub parts: u8,
    pub cuts: Vec<u8>,
    pub jitter: u8,
    pub aggs: Vec<AggSpec>,
    pub shape: Shape,
    /// declared (and real) input ordering over group keys
    pub ordered: Option<Vec<OrdKey>>,
    /// keep the ordering between stages (SortPreservingMerge / order-preserving repartition)
    pub keep_order: bool,
    pub topk: Option<TopK>,
    pub opts: ExecOpts,
}

const VAL_TYPES: [ColType; 6] = [ColType::I64, ColType::U64, ColType::F64, ColType::Utf8, ColType::Bool, ColType::Dec128];
const VAL_NAMES: [&str; 6] = ["vi", "vu", "vf", "vs", "vb", "vd"];

const KEY_TYPES: [ColType; 24] = [
    ColType::I8,
    ColType::I16,
    ColType::I32,
    ColType::I64,
    ColType::U8,
    ColType::U16,
    ColType::U32,
    ColType::U64,
    ColType::F32,
    ColType::F64,
    ColType::Bool,
    ColType::Utf8,
    ColType::LargeUtf8,
    ColType::Utf8View,
    ColType::Binary,
    ColType::BinaryView,
    ColType::FixedBin2,
    ColType::DictUtf8,
    ColType::DictI64,
    ColType::Dec128,
    ColType::Date32,
    ColType::TsMicro,
    ColType::StructI32Utf8,
    ColType::ListI32,
];

const TOPK_KEY_TYPES: [ColType; 10] = [ColType::I8, ColType::I32, ColType::I64, ColType::U64, ColType::F64, ColType::Dec128, ColType::Date32, ColType::Utf8, ColType::LargeUtf8, ColType::Utf8View];

fn valid_cols(kind: AggKind) -> &'static [u8] {
    match kind {
        AggKind::Count | AggKind::CountDistinct | AggKind::First | AggKind::Last | AggKind::ArrayAgg => &[0, 1, 2, 3, 4, 5],
        AggKind::Min | AggKind::Max => &[0, 1, 2, 3, 5],
        AggKind::Sum => &[0, 1, 2, 5],
        AggKind::Avg => &[2],
        AggKind::BoolAnd | AggKind::BoolOr => &[4],
        AggKind::BitAnd | AggKind::BitOr | AggKind::BitXor => &[0, 1],
    }
}

const ALL_KINDS: [AggKind; 14] = [
    AggKind::Count,
    AggKind::CountDistinct,
    AggKind::Sum,
    AggKind::Min,
    AggKind::Max,
    AggKind::Avg,
    AggKind::BoolAnd,
    AggKind::BoolOr,
    AggKind::BitAnd,
    AggKind::BitOr,
    AggKind::BitXor,
    AggKind::First,
    AggKind::Last,
    AggKind::ArrayAgg,
];

fn agg_name(k: AggKind) -> &'static str {
    match k {
        AggKind::Count => "count",
        AggKind::CountDistinct => "count-distinct",
        AggKind::Sum => "sum",
        AggKind::Min => "min",
        AggKind::Max => "max",
        AggKind::Avg => "avg",
        AggKind::BoolAnd => "bool_and",
        AggKind::BoolOr => "bool_or",
        AggKind::BitAnd => "bit_and",
        AggKind::BitOr => "bit_or",
        AggKind::BitXor => "bit_xor",
        AggKind::First => "first_value",
        AggKind::Last => "last_value",
        AggKind::ArrayAgg => "array_agg",
    }
}

fn enc_strategy() -> impl Strategy<Value = Enc> {
    (prop_oneof![3 => Just(0u8), 1 => 1u8..4], 0u8..10, prop::bool::weighted(0.1)).prop_map(|(pad, dict_rot, dict_null_value)| Enc { pad, dict_rot, dict_null_value })
}

fn agg_strategy() -> impl Strategy<Value = AggSpec> {
    (0u16..=u16::MAX, 0u16..=u16::MAX, prop::bool::weighted(0.25), prop::option::weighted(0.6, (any::<bool>(), any::<bool>())), any::<bool>(), prop::bool::weighted(0.25)).prop_map(|(k, c, filter, by_o, id_desc, ignore_nulls)| {
        let kind = ALL_KINDS[pick_index(k, ALL_KINDS.len())];
        let cols = valid_cols(kind);
        let col = cols[pick_index(c, cols.len())];
        let ordered_kind = matches!(kind, AggKind::First | AggKind::Last | AggKind::ArrayAgg);
        AggSpec { kind, col, filter, by_o: if ordered_kind { by_o } else { None }, id_desc: ordered_kind && id_desc, ignore_nulls: matches!(kind, AggKind::First | AggKind::Last) && ignore_nulls }
    })
}

fn row_strategy(nk: usize, domain: u8, parts: u8, vnull: u32) -> impl Strategy<Value = Row> {
    let cell = move || prop_oneof![1 => Just(None), 4 => (0u8..domain).prop_map(Some)];
    let vcell: BoxedStrategy<Option<u8>> = if vnull == 0 { (0u8..TAME).prop_map(Some).boxed() } else { prop_oneof![1 => Just(None), 4 => (0u8..TAME).prop_map(Some)].boxed() };
    (prop::collection::vec(cell(), nk), prop_oneof![1 => Just(None), 5 => (0u8..4).prop_map(Some)], prop::collection::vec(vcell, 6), prop_oneof![1 => Just(None), 3 => Just(Some(true)), 2 => Just(Some(false))], 0u8..parts).prop_map(|(k, o, v, f, part)| Row { k, o, v, f, part })
}

fn shape_strategy() -> impl Strategy<Value = Shape> {
    prop_oneof![
        2 => Just(Shape::Single),
        2 => (1u8..5).prop_map(|n| Shape::SinglePartitioned { n }),
        3 => Just(Shape::PartialFinal),
        3 => (1u8..5).prop_map(|n| Shape::PartialFinalPartitioned { n }),
        2 => (0u8..3, 1u8..4, any::<bool>()).prop_map(|(mid, n, fp)| Shape::PartialReduce { mid, n, fp }),
    ]
}

fn base_opts(tier: Tier) -> impl Strategy<Value = ExecOpts> {
    let threads = match tier {
        Tier::Quick => Just(1u8).boxed(),
        Tier::Thorough => prop_oneof![6 => Just(1u8), 1 => Just(2u8)].boxed(),
    };
    (prop_oneof![Just(1u16), Just(3u16), Just(8192u16), Just(8192u16)], threads, prop::bool::weighted(0.2)).prop_map(|(batch_size, threads, legacy)| ExecOpts {
        batch_size,
        threads,
        settings: if legacy { vec![("datafusion.execution.enable_migration_aggregate".into(), "false".into())] } else { vec![] },
        ..ExecOpts::default()
    })
}

impl C06 {
    fn case_strategy(tier: Tier) -> BoxedStrategy<Case> {
        let max_rows: usize = tier.pick(60, 400);
        // flavour: 0 plain, 1 ordered, 2 topk, 3 skip-partial, 4 memory-limited
        (prop_oneof![4 => Just(0u8), 3 => Just(1u8), 2 => Just(2u8), 2 => Just(3u8), 3 => Just(4u8)], 1u8..=6, prop_oneof![2 => Just(2u8), 3 => Just(4u8), 1 => Just(TAME), 1 => Just(POOL)])
            .prop_flat_map(move |(flavour, parts, domain)| {
                let nk = if flavour == 2 { (1usize..=1).boxed() } else { prop_oneof![1 => Just(0usize), 5 => Just(1usize), 4 => Just(2usize), 2 => Just(3usize)].boxed() };
                (Just(flavour), Just(parts), Just(domain), nk)
            })
            .prop_flat_map(move |(flavour, parts, domain, nk)| {
                let keys = if flavour == 2 {
                    prop::collection::vec((0u16..=u16::MAX, enc_strategy()).prop_map(|(t, enc)| KeyCol { ty: TOPK_KEY_TYPES[pick_index(t, TOPK_KEY_TYPES.len())], enc }), 1).boxed()
                } else {
                    prop::collection::vec((0u16..=u16::MAX, enc_strategy()).prop_map(|(t, enc)| KeyCol { ty: KEY_TYPES[pick_index(t, KEY_TYPES.len())], enc }), nk).boxed()
                };
                // float keys must avoid NaN / zeros: only tame codes
                let domain = domain.min(if flavour == 2 { TAME } else { POOL });
                // grouped top-k: half of the cases without NULL values (the open finding excludes groups mixing NULL and non-NULL)
                let vnull = if flavour == 2 && parts % 2 == 0 { 0 } else { 1 };
                let rows = prop::collection::vec(row_strategy(nk, domain, parts, vnull), 0..=max_rows);
                let cuts = prop::collection::vec(prop_oneof![1 => Just(0u8), 3 => 1u8..4, 3 => 4u8..40], 1..5);
                let aggs: BoxedStrategy<Vec<AggSpec>> = if flavour == 2 {
                    prop_oneof![
                        3 => (any::<bool>(), 0u16..=u16::MAX).prop_map(|(is_max, c)| {
                            let cols = [0u8, 1, 2, 3, 5];
                            vec![AggSpec { kind: if is_max { AggKind::Max } else { AggKind::Min }, col: cols[pick_index(c, cols.len())], filter: false, by_o: None, id_desc: false, ignore_nulls: false }]
                        }),
                        2 => Just(vec![]),
                    ]
                    .boxed()
                } else {
                    prop::collection::vec(agg_strategy(), (if nk == 0 { 1 } else { 0 })..5).boxed()
                };
                let ordered: BoxedStrategy<Option<Vec<OrdKey>>> = if flavour == 1 && nk > 0 {
                    prop::collection::vec((0u8..nk as u8, any::<bool>(), any::<bool>()).prop_map(|(key, desc, nulls_first)| OrdKey { key, desc, nulls_first }), 1..=nk).prop_map(Some).boxed()
                } else if flavour != 2 && nk > 0 {
                    prop_oneof![6 => Just(None), 1 => prop::collection::vec((0u8..nk as u8, any::<bool>(), any::<bool>()).prop_map(|(key, desc, nulls_first)| OrdKey { key, desc, nulls_first }), 1..=nk).prop_map(Some)].boxed()
                } else {
                    Just(None).boxed()
                };
                let topk: BoxedStrategy<Option<TopK>> = if flavour == 2 {
                    (prop_oneof![2 => 1u16..4, 1 => 4u16..12], prop::bool::weighted(0.25), any::<bool>(), any::<bool>()).prop_map(|(limit, soft, desc, all_stages)| Some(TopK { limit, soft, desc, all_stages })).boxed()
                } else {
                    Just(None).boxed()
                };
                let opts: BoxedStrategy<ExecOpts> = match flavour {
                    3 => (base_opts(tier), prop_oneof![Just(1u32), Just(2u32), Just(5u32), Just(12u32)], prop_oneof![Just("0.0"), Just("0.3"), Just("0.6")])
                        .prop_map(|(mut o, rows, ratio)| {
                            o.settings.push(("datafusion.execution.skip_partial_aggregation_probe_rows_threshold".into(), rows.to_string()));
                            o.settings.push(("datafusion.execution.skip_partial_aggregation_probe_ratio_threshold".into(), ratio.to_string()));
                            o
                        })
                        .boxed(),
                    4 => (base_opts(tier), prop_oneof![Just(1_500u32), Just(3_000u32), Just(6_000u32), Just(12_000u32), Just(25_000u32), Just(60_000u32), Just(200_000u32)], any::<bool>(), prop_oneof![Just(0u8), Just(2u8)])
                        .prop_map(|(mut o, mem, fair_pool, fan_in)| {
                            o.mem_limit = Some(mem);
                            o.fair_pool = fair_pool;
                            o.fan_in = fan_in;
                            o
                        })
                        .boxed(),
                    _ => base_opts(tier).boxed(),
                };
                let shape: BoxedStrategy<Shape> = if nk == 0 {
                    prop_oneof![Just(Shape::Single), Just(Shape::PartialFinal), (0u8..2, 1u8..4).prop_map(|(mid, n)| Shape::PartialReduce { mid, n, fp: false })].boxed()
                } else if flavour == 3 || flavour == 4 {
                    prop_oneof![3 => Just(Shape::PartialFinal), 3 => (1u8..5).prop_map(|n| Shape::PartialFinalPartitioned { n }), 1 => (0u8..3, 1u8..4, any::<bool>()).prop_map(|(mid, n, fp)| Shape::PartialReduce { mid, n, fp }), 1 => Just(Shape::Single)].boxed()
                } else {
                    shape_strategy().boxed()
                };
                (keys, rows, cuts, aggs, ordered, topk, opts, shape, (Just(parts), prop_oneof![3 => Just(0u8), 1 => 1u8..4], any::<bool>()))
            })
            .prop_map(|(keys, rows, cuts, aggs, ordered, topk, opts, shape, (parts, jitter, keep_order))| {
                let topk = topk.map(|mut t| {
                    t.soft = t.soft && aggs.is_empty();
                    t.all_stages = t.all_stages && !matches!(shape, Shape::PartialReduce { .. });
                    t
                });
                Case { keys, rows, parts, cuts, jitter, aggs, shape, ordered, keep_order, topk, opts }
            })
            .boxed()
    }
}

// ---------------------------------------------------------------------------------------------
// plain rows and the reference

struct PRow {
    keys: Vec<Val>,
    id: i64,
    o: Val,
    v: Vec<Val>,
    f: Option<bool>,
}

fn norm_zero(v: Val) -> Val {
    match v {
        Val::F(f) if f == 0.0 => Val::F(0.0),
        other => other,
    }
}

fn order_rows<'a>(rows: &[&'a PRow], a: &AggSpec) -> Vec<&'a PRow> {
    let mut v: Vec<&PRow> = rows.to_vec();
    v.sort_by(|x, y| {
        if let Some((desc, nf)) = a.by_o {
            let c = sort_cmp(&x.o, &y.o, desc, nf);
            if c != Ordering::Equal {
                return c;
            }
        }
        let c = x.id.cmp(&y.id);
        if a.id_desc { c.reverse() } else { c }
    });
    v
}

fn ref_agg(a: &AggSpec, group: &[&PRow]) -> Val {
    let col = a.col as usize;
    let rows: Vec<&PRow> = group.iter().copied().filter(|r| !a.filter || r.f == Some(true)).collect();
    let nn: Vec<&Val> = rows.iter().map(|r| &r.v[col]).filter(|v| !v.is_null()).collect();
    let ints = || nn.iter().map(|v| if let Val::Int(i) = v { *i } else { 0 }).collect::<Vec<i128>>();
    match a.kind {
        AggKind::Count => Val::Int(nn.len() as i128),
        AggKind::CountDistinct => {
            let mut d: Vec<&Val> = vec![];
            for v in &nn {
                if !d.iter().any(|x| same(x, v)) {
                    d.push(v);
                }
            }
            Val::Int(d.len() as i128)
        }
        AggKind::Sum => {
            if nn.is_empty() {
                return Val::Null;
            }
            match nn[0] {
                Val::F(_) => Val::F(nn.iter().map(|v| if let Val::F(f) = v { *f } else { 0.0 }).sum()),
                _ => Val::Int(ints().iter().sum()),
            }
        }
        AggKind::Avg => {
            if nn.is_empty() {
                return Val::Null;
            }
            let s: f64 = nn.iter().map(|v| if let Val::F(f) = v { *f } else { 0.0 }).sum();
            Val::F(s / nn.len() as f64)
        }
        AggKind::Min => nn.iter().copied().min_by(|a, b| canon_cmp(a, b)).cloned().unwrap_or(Val::Null),
        AggKind::Max => nn.iter().copied().max_by(|a, b| canon_cmp(a, b)).cloned().unwrap_or(Val::Null),
        AggKind::BoolAnd => {
            if nn.is_empty() {
                Val::Null
            } else {
                Val::Bool(nn.iter().all(|v| matches!(v, Val::Bool(true))))
            }
        }
        AggKind::BoolOr => {
            if nn.is_empty() {
                Val::Null
            } else {
                Val::Bool(nn.iter().any(|v| matches!(v, Val::Bool(true))))
            }
        }
        AggKind::BitAnd => {
            if nn.is_empty() {
                Val::Null
            } else {
                Val::Int(ints().iter().fold(-1i128, |a, b| a & b) & if col == 1 { u64::MAX as i128 } else { -1 })
            }
        }
        AggKind::BitOr => {
            if nn.is_empty() {
                Val::Null
            } else {
                Val::Int(ints().iter().fold(0i128, |a, b| a | b))
            }
        }
        AggKind::BitXor => {
            if nn.is_empty() {
                Val::Null
            } else {
                Val::Int(ints().iter().fold(0i128, |a, b| a ^ b))
            }
        }
        AggKind::First | AggKind::Last => {
            let mut ordered = order_rows(&rows, a);
            if a.kind == AggKind::Last {
                ordered.reverse();
            }
            for r in ordered {
                if a.ignore_nulls && r.v[col].is_null() {
                    continue;
                }
                return r.v[col].clone();
            }
            Val::Null
        }
        AggKind::ArrayAgg => {
            if rows.is_empty() {
                return Val::Null;
            }
            Val::List(order_rows(&rows, a).iter().map(|r| r.v[col].clone()).collect())
        }
    }
}

// ---------------------------------------------------------------------------------------------
// plan construction

fn input_schema(keys: &[KeyCol]) -> SchemaRef {
    let mut fields: Vec<Field> = keys.iter().enumerate().map(|(i, k)| Field::new(format!("k{i}"), k.ty.data_type(), true)).collect();
    fields.push(Field::new("id", DataType::Int64, false));
    fields.push(Field::new("o", DataType::Int32, true));
    for (n, t) in VAL_NAMES.iter().zip(VAL_TYPES.iter()) {
        fields.push(Field::new(*n, t.data_type(), true));
    }
    fields.push(Field::new("f", DataType::Boolean, true));
    Arc::new(Schema::new(fields))
}

fn build_batches(schema: &SchemaRef, keys: &[KeyCol], rows: &[&PRow], cuts: &[u8]) -> Result<Vec<RecordBatch>, String> {
    let mk = |chunk: &[&PRow]| -> Result<RecordBatch, String> {
        let mut cols: Vec<ArrayRef> = vec![];
        for (i, k) in keys.iter().enumerate() {
            let vals: Vec<Val> = chunk.iter().map(|r| r.keys[i].clone()).collect();
            cols.push(build_array(k.ty, &vals, k.enc));
        }
        cols.push(Arc::new(Int64Array::from(chunk.iter().map(|r| r.id).collect::<Vec<_>>())));
        cols.push(build_array(ColType::I32, &chunk.iter().map(|r| r.o.clone()).collect::<Vec<_>>(), Enc::default()));
        for (j, t) in VAL_TYPES.iter().enumerate() {
            let vals: Vec<Val> = chunk.iter().map(|r| r.v[j].clone()).collect();
            cols.push(build_array(*t, &vals, Enc { pad: (j % 2) as u8, ..Enc::default() }));
        }
        cols.push(Arc::new(chunk.iter().map(|r| r.f).collect::<BooleanArray>()));
        RecordBatch::try_new(Arc::clone(schema), cols).map_err(|e| format!("harness batch: {e}"))
    };
    let mut out = vec![];
    if rows.is_empty() {
        if cuts.first() == Some(&0) {
            out.push(mk(&[])?);
        }
        return Ok(out);
    }
    let all_zero = cuts.iter().all(|c| *c == 0);
    let (mut pos, mut ci, mut empties) = (0usize, 0usize, 0usize);
    while pos < rows.len() {
        let want = if all_zero || cuts.is_empty() { rows.len() } else { cuts[ci % cuts.len()] as usize };
        ci += 1;
        if want == 0 {
            if empties < 6 {
                empties += 1;
                out.push(mk(&[])?);
            }
            continue;
        }
        let take = want.min(rows.len() - pos);
        out.push(mk(&rows[pos..pos + take])?);
        pos += take;
    }
    Ok(out)
}

fn col(schema: &SchemaRef, name: &str) -> Result<Arc<dyn PhysicalExpr>, String> {
    let idx = schema.index_of(name).map_err(|e| format!("harness: {e}"))?;
    Ok(Arc::new(Column::new(name, idx)))
}

fn udaf(kind: AggKind) -> Arc<AggregateUDF> {
    match kind {
        AggKind::Count | AggKind::CountDistinct => count_udaf(),
        AggKind::Sum => sum_udaf(),
        AggKind::Min => min_udaf(),
        AggKind::Max => max_udaf(),
        AggKind::Avg => avg_udaf(),
        AggKind::BoolAnd => bool_and_udaf(),
        AggKind::BoolOr => bool_or_udaf(),
        AggKind::BitAnd => bit_and_udaf(),
        AggKind::BitOr => bit_or_udaf(),
        AggKind::BitXor => bit_xor_udaf(),
        AggKind::First => first_value_udaf(),
        AggKind::Last => last_value_udaf(),
        AggKind::ArrayAgg => array_agg_udaf(),
    }
}

fn build_agg(schema: &SchemaRef, i: usize, a: &AggSpec) -> Result<Arc<AggregateFunctionExpr>, String> {
    let arg = col(schema, VAL_NAMES[a.col as usize])?;
    let mut b = AggregateExprBuilder::new(udaf(a.kind), vec![arg]).schema(Arc::clone(schema)).alias(format!("a{i}"));
    if a.kind == AggKind::CountDistinct {
        b = b.distinct();
    }
    if matches!(a.kind, AggKind::First | AggKind::Last | AggKind::ArrayAgg) {
        let mut ob = vec![];
        if let Some((desc, nulls_first)) = a.by_o {
            ob.push(PhysicalSortExpr::new(col(schema, "o")?, SortOptions { descending: desc, nulls_first }));
        }
        ob.push(PhysicalSortExpr::new(col(schema, "id")?, SortOptions { descending: a.id_desc, nulls_first: false }));
        b = b.order_by(ob);
    }
    if a.ignore_nulls {
        b = b.ignore_nulls();
    }
    b.build().map(Arc::new).map_err(|e| format!("AggregateExprBuilder: {e}"))
}

struct Built {
    plan: Arc<dyn ExecutionPlan>,
    modes: Vec<String>,
}

type DfErr = datafusion_common::DataFusionError;

fn build_plan(case: &Case, schema: &SchemaRef, src: Arc<dyn ExecutionPlan>, nk: usize) -> Result<Result<Built, DfErr>, String> {
    let mut aggs = vec![];
    let mut filters: Vec<Option<Arc<dyn PhysicalExpr>>> = vec![];
    for (i, a) in case.aggs.iter().enumerate() {
        aggs.push(build_agg(schema, i, a)?);
        filters.push(if a.filter { Some(col(schema, "f")?) } else { None });
    }
    let mut gexprs = vec![];
    for i in 0..nk {
        gexprs.push((col(schema, &format!("k{i}"))?, format!("k{i}")));
    }
    let gb = PhysicalGroupBy::new_single(gexprs);
    let limit = case.topk.as_ref().map(|t| {
        let k = (t.limit as usize).max(1);
        if t.soft {
            LimitOptions::new(k)
        } else if let Some(a) = case.aggs.first() {
            LimitOptions::new_with_order(k, a.kind == AggKind::Max)
        } else {
            LimitOptions::new_with_order(k, t.desc)
        }
    });
    let all_stages = case.topk.as_ref().map(|t| t.all_stages).unwrap_or(false);
    let mut modes: Vec<String> = vec![];
    let note = |modes: &mut Vec<String>, a: &AggregateExec| {
        modes.push(format!(
            "{:?}/{}",
            a.mode(),
            match a.input_order_mode() {
                InputOrderMode::Linear => "linear",
                InputOrderMode::PartiallySorted(_) => "partially-sorted",
                InputOrderMode::Sorted => "sorted",
            }
        ));
    };
    // single-partition view of a plan (order preserving when possible and wanted)
    let to_one = |p: Arc<dyn ExecutionPlan>| -> Arc<dyn ExecutionPlan> {
        if p.output_partitioning().partition_count() <= 1 {
            return p;
        }
        if case.keep_order {
            if let Some(o) = p.output_ordering().cloned() {
                return Arc::new(SortPreservingMergeExec::new(o, p));
            }
        }
        Arc::new(CoalescePartitionsExec::new(p))
    };
    let hash_to = |p: Arc<dyn ExecutionPlan>, exprs: Vec<Arc<dyn PhysicalExpr>>, n: usize| -> Result<Arc<dyn ExecutionPlan>, DfErr> {
        let ordered = p.output_ordering().is_some();
        let r = RepartitionExec::try_new(p, Partitioning::Hash(exprs, n.max(1)))?;
        Ok(if case.keep_order && ordered { Arc::new(r.with_preserve_order()) } else { Arc::new(r) })
    };
    macro_rules! tri {
        ($e:expr) => {
            match $e {
                Ok(v) => v,
                Err(e) => return Ok(Err(e)),
            }
        };
    }
    let plan: Arc<dyn ExecutionPlan> = match &case.shape {
        Shape::Single => {
            let a = tri!(AggregateExec::try_new(AggregateMode::Single, gb, aggs, filters, to_one(src), Arc::clone(schema))).with_limit_options(limit);
            note(&mut modes, &a);
            Arc::new(a)
        }
        Shape::SinglePartitioned { n } => {
            let input = tri!(hash_to(src, gb.input_exprs(), *n as usize));
            let a = tri!(AggregateExec::try_new(AggregateMode::SinglePartitioned, gb, aggs, filters, input, Arc::clone(schema))).with_limit_options(limit);
            note(&mut modes, &a);
            Arc::new(a)
        }
        other => {
            let partial = tri!(AggregateExec::try_new(AggregateMode::Partial, gb, aggs, filters.clone(), src, Arc::clone(schema))).with_limit_options(if all_stages { limit } else { None });
            note(&mut modes, &partial);
            let updated = partial.aggr_expr().to_vec();
            let final_gb = partial.group_expr().as_final();
            let partial: Arc<dyn ExecutionPlan> = Arc::new(partial);
            match other {
                Shape::PartialFinal => {
                    let a = tri!(AggregateExec::try_new(AggregateMode::Final, final_gb, updated, filters, to_one(partial), Arc::clone(schema))).with_limit_options(limit);
                    note(&mut modes, &a);
                    Arc::new(a)
                }
                Shape::PartialFinalPartitioned { n } => {
                    let input = tri!(hash_to(partial, final_gb.input_exprs(), *n as usize));
                    let a = tri!(AggregateExec::try_new(AggregateMode::FinalPartitioned, final_gb, updated, filters, input, Arc::clone(schema))).with_limit_options(limit);
                    note(&mut modes, &a);
                    Arc::new(a)
                }
                Shape::PartialReduce { mid, n, fp } => {
                    let mid_input: Arc<dyn ExecutionPlan> = match mid % 3 {
                        0 => to_one(partial),
                        1 => Arc::new(tri!(RepartitionExec::try_new(partial, Partitioning::RoundRobinBatch((*n as usize).max(1))))),
                        _ => tri!(hash_to(partial, final_gb.input_exprs(), *n as usize)),
                    };
                    let reduce = tri!(AggregateExec::try_new(AggregateMode::PartialReduce, final_gb.clone(), updated.clone(), filters.clone(), mid_input, Arc::clone(schema))).with_limit_options(if all_stages { limit } else { None });
                    note(&mut modes, &reduce);
                    let updated2 = reduce.aggr_expr().to_vec();
                    let reduce: Arc<dyn ExecutionPlan> = Arc::new(reduce);
                    if *fp && mid % 3 == 2 && nk > 0 {
                        let a = tri!(AggregateExec::try_new(AggregateMode::FinalPartitioned, final_gb, updated2, filters, reduce, Arc::clone(schema))).with_limit_options(limit);
                        note(&mut modes, &a);
                        Arc::new(a)
                    } else {
                        let a = tri!(AggregateExec::try_new(AggregateMode::Final, final_gb, updated2, filters, to_one(reduce), Arc::clone(schema))).with_limit_options(limit);
                        note(&mut modes, &a);
                        Arc::new(a)
                    }
                }
                _ => return Err("unreachable shape".into()),
            }
        }
    };
    Ok(Ok(Built { plan, modes }))
}

impl Property for C06 {
    type Case = Case;
    fn id(&self) -> &'static str {
        "C06"
    }
    fn sub(&self) -> &'static str {
        "c06"
    }
    fn strategy(&self, tier: Tier) -> BoxedStrategy<Case> {
        C06::case_strategy(tier)
    }
    fn budget(&self, tier: Tier) -> Budget {
        Budget::new(tier.pick(4_000, 60_000), tier.pick(8, 16)).min_nontrivial(tier.pick(600, 10_000)).case_timeout(180)
    }
    fn rule(&self) -> String {
        "table with 0-3 typed group keys (small NULL/duplicate-heavy domains), six value columns, ORDER BY / FILTER columns, partitions, batch cuts, encodings; 0-4 aggregates; plan shape × ordered input × grouped TopK × skip-partial × memory limit × batch size × migration flag; \
         non-trivial = ≥ 2 groups, a group with ≥ 2 rows, and (a NULL group key or a multi-partition / multi-stage plan); distinct by case JSON"
            .into()
    }
    fn assumptions(&self) -> Vec<String> {
        vec![
            "float values are dyadic rationals of small magnitude (sums exact in any order); ±0.0 identified in aggregate results".into(),
            "float group keys avoid NaN and zeros (their grouping is implementation-defined)".into(),
            "first_value / last_value / array_agg only with a total ORDER BY (unique id last)".into(),
            "arrow's cast kernel (dictionary → plain) used to read results is trusted".into(),
        ]
    }
    fn run(&self, case: &Case) -> CaseResult {
        run_case(case)
    }
}

fn run_case(case: &Case) -> CaseResult {
    let nk = case.keys.len();
    if nk > 3 || case.rows.iter().any(|r| r.k.len() != nk || r.v.len() != 6) || case.aggs.len() > 6 {
        return CaseResult::discard("malformed case");
    }
    if nk == 0 && case.aggs.is_empty() {
        return CaseResult::discard("malformed case: neither group keys nor aggregates");
    }
    for a in &case.aggs {
        if !valid_cols(a.kind).contains(&a.col) {
            return CaseResult::discard("malformed case: aggregate over an unsupported column type");
        }
    }
    let float_key = |t: ColType| matches!(t, ColType::F32 | ColType::F64);
    let parts = case.parts.clamp(1, 8) as usize;
    let prows: Vec<PRow> = case
        .rows
        .iter()
        .enumerate()
        .map(|(i, r)| PRow {
            keys: r.k.iter().zip(case.keys.iter()).map(|(c, k)| cell(k.ty, c.map(|c| if float_key(k.ty) { c % TAME } else { c }), false)).collect(),
            id: i as i64,
            o: cell(ColType::I32, r.o.map(|c| c % 5), false),
            v: r.v.iter().zip(VAL_TYPES.iter()).map(|(c, t)| cell(*t, c.map(|c| c % TAME), false)).collect(),
            f: r.f,
        })
        .collect();
    let mut by_part: Vec<Vec<&PRow>> = vec![vec![]; parts];
    for (r, p) in case.rows.iter().zip(prows.iter()) {
        by_part[(r.part as usize) % parts].push(p);
    }
    // declared input ordering over group keys
    let mut ord: Vec<&OrdKey> = vec![];
    if let Some(o) = &case.ordered {
        for k in o {
            if (k.key as usize) < nk && !ord.iter().any(|x| x.key == k.key) {
                ord.push(k);
            }
        }
    }
    if !ord.is_empty() {
        for p in by_part.iter_mut() {
            p.sort_by(|a, b| {
                for k in &ord {
                    let c = sort_cmp(&a.keys[k.key as usize], &b.keys[k.key as usize], k.desc, k.nulls_first);
                    if c != Ordering::Equal {
                        return c;
                    }
                }
                Ordering::Equal
            });
        }
    }
    let schema = input_schema(&case.keys);
    let mut partitions = vec![];
    for p in &by_part {
        match build_batches(&schema, &case.keys, p, &case.cuts) {
            Ok(b) => partitions.push(b),
            Err(e) => return CaseResult::discard(e),
        }
    }
    let ordering = LexOrdering::new(ord.iter().map(|k| PhysicalSortExpr::new(Arc::new(Column::new(&format!("k{}", k.key), k.key as usize)), SortOptions { descending: k.desc, nulls_first: k.nulls_first })));
    let src: Arc<dyn ExecutionPlan> = Arc::new(SrcExec::new(Arc::clone(&schema), partitions, ordering, case.jitter));

    let mut labels: Vec<String> = vec![];
    for k in &case.keys {
        labels.push(format!("key:{}", k.ty.name()));
    }
    labels.push(format!("nkeys={nk}"));
    for a in &case.aggs {
        labels.push(format!("agg:{}", agg_name(a.kind)));
        if a.filter {
            labels.push("agg-filter".into());
        }
    }
    labels.push(format!("batch={}", case.opts.batch_size));
    labels.push(format!(
        "shape:{}",
        match &case.shape {
            Shape::Single => "single",
            Shape::SinglePartitioned { .. } => "single-partitioned",
            Shape::PartialFinal => "partial-final",
            Shape::PartialFinalPartitioned { .. } => "partial-repartition-finalpartitioned",
            Shape::PartialReduce { .. } => "partial-reduce",
        }
    ));
    if case.opts.settings.iter().any(|(k, v)| k.ends_with("enable_migration_aggregate") && v == "false") {
        labels.push("legacy-grouped-hash-stream".into());
    }

    // grouped TopK preconditions (what the optimizer rules guarantee)
    if let Some(t) = &case.topk {
        if nk != 1 {
            return CaseResult::discard("malformed case: topk needs exactly one group key");
        }
        let kt = case.keys[0].ty.data_type();
        match case.aggs.as_slice() {
            [] => {
                if !topk_types_supported(&kt, &kt) {
                    return CaseResult::discard("topk: key type not supported");
                }
            }
            [a] if matches!(a.kind, AggKind::Min | AggKind::Max) && !a.filter && !t.soft => {
                if !topk_types_supported(&kt, &VAL_TYPES[a.col as usize].data_type()) {
                    return CaseResult::discard("topk: key/value type not supported");
                }
            }
            _ => return CaseResult::discard("malformed case: topk needs one unfiltered min/max or no aggregate"),
        }
        if nk == 1 && matches!(case.shape, Shape::PartialReduce { .. }) && t.all_stages {
            // PartialReduce + limit is not something a rule produces
            return CaseResult::discard("topk on a partial-reduce stage is not generated");
        }
        labels.push(if t.soft { "topk:soft-limit".to_string() } else if case.aggs.is_empty() { "topk:group-by-only".to_string() } else { "topk:min-max".to_string() });
    }
    if nk == 0 && !matches!(case.shape, Shape::Single | Shape::PartialFinal | Shape::PartialReduce { fp: false, .. }) {
        return CaseResult::discard("malformed case: no group keys with a partitioned final stage");
    }
    if nk == 0 {
        if let Shape::PartialReduce { mid, .. } = &case.shape {
            if mid % 3 == 2 {
                return CaseResult::discard("malformed case: hash repartition without keys");
            }
        }
    }

    let built = match build_plan(case, &schema, src, nk) {
        Err(h) => return CaseResult::discard(h).labels(labels),
        Ok(Err(e)) => return CaseResult::discard(format!("plan construction rejected: {}", truncate(&e.to_string(), 90))).labels(labels),
        Ok(Ok(b)) => b,
    };
    for m in &built.modes {
        labels.push(format!("stage:{m}"));
    }
    if case.opts.mem_limit.is_some() {
        labels.push("mem-limited".into());
    }
    let env = match make_env(&case.opts) {
        Ok(e) => e,
        Err(ExecErr::Harness(m)) | Err(ExecErr::Other(m)) => return CaseResult::discard(format!("env: {m}")).labels(labels),
        Err(_) => return CaseResult::discard("env").labels(labels),
    };
    let out = match execute_all(&built.plan, &env, case.opts.threads, 60) {
        Ok(o) => o,
        Err(ExecErr::ResourcesExhausted(m)) => {
            return if case.opts.mem_limit.is_some() { CaseResult::inconclusive(format!("resources exhausted: {}", truncate(&m, 50))).labels(labels) } else { CaseResult::violation(format!("ResourcesExhausted without a memory limit: {m}")).labels(labels) };
        }
        Err(ExecErr::NotImplemented(m)) => return CaseResult::discard(format!("not implemented: {}", truncate(&m, 80))).labels(labels),
        Err(ExecErr::Timeout) => return CaseResult::inconclusive("timeout").labels(labels),
        Err(ExecErr::Harness(m)) => return CaseResult::discard(format!("harness: {m}")).labels(labels),
        Err(ExecErr::Other(m)) => return CaseResult::violation(format!("execution failed: {m}")).labels(labels),
    };
    if std::env::var_os("VF_C06_DEBUG").is_some() {
        // replay aid: the executed plan with its metrics
        eprintln!("{}", datafusion_physical_plan::display::DisplayableExecutionPlan::with_metrics(built.plan.as_ref()).indent(true));
    }
    if metric_sum(&built.plan, "spill_count") > 0 {
        labels.push("spilled".into());
    }
    if metric_sum(&built.plan, "skipped_aggregation_rows") > 0 {
        labels.push("skipped-partial-aggregation".into());
    }
    let all_batches: Vec<RecordBatch> = out.into_iter().flatten().collect();
    for b in &all_batches {
        if b.num_columns() != nk + case.aggs.len() {
            return CaseResult::violation(format!("output batch has {} columns, expected {}", b.num_columns(), nk + case.aggs.len())).labels(labels);
        }
    }
    let mut got = match batches_to_rows(&all_batches) {
        Ok(r) => r,
        Err(e) => return CaseResult::violation(format!("cannot read output: {e}")).labels(labels),
    };
    for r in got.iter_mut() {
        for v in r.iter_mut().skip(nk) {
            *v = norm_zero(std::mem::replace(v, Val::Null));
        }
    }

    // reference
    let mut groups: Vec<(Vec<Val>, Vec<&PRow>)> = vec![];
    for r in &prows {
        match groups.iter_mut().find(|(k, _)| same_row(k, &r.keys)) {
            Some((_, g)) => g.push(r),
            None => groups.push((r.keys.clone(), vec![r])),
        }
    }
    if nk == 0 && groups.is_empty() {
        groups.push((vec![], vec![]));
    }
    let mut expected: Vec<Vec<Val>> = groups
        .iter()
        .map(|(k, g)| {
            let mut row = k.clone();
            for a in &case.aggs {
                row.push(norm_zero(ref_agg(a, g)));
            }
            row
        })
        .collect();
    let null_key = groups.iter().any(|(k, _)| k.iter().any(|v| v.is_null()));
    let multi = parts > 1 || !matches!(case.shape, Shape::Single);
    let nontrivial = groups.len() >= 2 && groups.iter().any(|(_, g)| g.len() >= 2) && (null_key || multi);
    if null_key {
        labels.push("null-group-key".into());
    }
    labels.push(format!("parts={}", if parts == 1 { "1" } else { "n" }));
    if !ord.is_empty() {
        labels.push("ordered-input".into());
    }

    got.sort_by(|a, b| canon_cmp_row(a, b));
    expected.sort_by(|a, b| canon_cmp_row(a, b));

    if let Some(t) = &case.topk {
        let k = (t.limit as usize).max(1);
        // Every output row must be a reference row and no key may come twice. When the limit is also
        // pushed into an earlier stage (as the optimizer rule does), that stage legitimately drops
        // contributions of groups outside its local top-k, so a row of the last stage may carry a
        // partial min/max — but only for groups that rank strictly after the k-th reference value, and
        // never a value better than the group's true aggregate.
        let multi_stage = !matches!(case.shape, Shape::Single | Shape::SinglePartitioned { .. });
        let _ = multi_stage;
        let relaxed = !case.aggs.is_empty();
        let desc0 = case.aggs.first().map(|a| a.kind == AggKind::Max).unwrap_or(false);
        let boundary: Option<Val> = if relaxed && !expected.is_empty() {
            let mut e: Vec<&Vec<Val>> = expected.iter().collect();
            e.sort_by(|a, b| sort_cmp(&a[nk], &b[nk], desc0, false));
            Some(e[k.min(e.len()) - 1][nk].clone())
        } else {
            None
        };
        for (i, r) in got.iter().enumerate() {
            if !expected.iter().any(|e| same_row(e, r)) {
                let truth = expected.iter().find(|e| same_row(&e[..nk], &r[..nk]));
                let tolerated = match (&boundary, truth) {
                    (Some(b), Some(e)) => sort_cmp(&r[nk], b, desc0, false) == Ordering::Greater && sort_cmp(&r[nk], &e[nk], desc0, false) != Ordering::Less,
                    _ => false,
                };
                if !tolerated {
                    return CaseResult::violation(format!("grouped top-k: output row {} is not a row of the full aggregation (relaxed={relaxed}; expected rows: {})", show_row(r), truncate(&format!("{expected:?}"), 600))).labels(labels);
                }
                labels.push("topk:partial-value-outside-top-k".into());
            }
            if i > 0 && same_row(&got[i - 1][..nk], &r[..nk]) {
                return CaseResult::violation(format!("grouped top-k: group key {} returned twice", show_row(&r[..nk]))).labels(labels);
            }
        }
        let want = k.min(expected.len());
        if got.len() < want {
            return CaseResult::violation(format!("grouped top-k (limit {k}): {} groups returned, at least {want} required ({} groups exist)", got.len(), expected.len())).labels(labels);
        }
        if !t.soft {
            let vcol = if case.aggs.is_empty() { 0 } else { nk };
            let desc = if let Some(a) = case.aggs.first() { a.kind == AggKind::Max } else { t.desc };
            let nulls_firsts: &[bool] = if case.aggs.is_empty() { &[false, true] } else { &[false] };
            for nf in nulls_firsts {
                let mut g: Vec<&Vec<Val>> = got.iter().collect();
                let mut e: Vec<&Vec<Val>> = expected.iter().collect();
                g.sort_by(|a, b| sort_cmp(&a[vcol], &b[vcol], desc, *nf));
                e.sort_by(|a, b| sort_cmp(&a[vcol], &b[vcol], desc, *nf));
                for i in 0..want {
                    if !same(&g[i][vcol], &e[i][vcol]) {
                        return CaseResult::violation(format!(
                            "grouped top-k (limit {k}, desc={desc}, nulls_first={nf}): position {i} of the sorted output has ordering value {:?}, the full aggregation has {:?} there; output {} expected {}",
                            g[i][vcol],
                            e[i][vcol],
                            truncate(&format!("{got:?}"), 500),
                            truncate(&format!("{expected:?}"), 500)
                        ))
                        .labels(labels);
                    }
                }
            }
        }
        if expected.len() > k {
            labels.push("topk:limit<groups".into());
        }
        labels.sort();
        labels.dedup();
        return CaseResult::pass().nontrivial(groups.len() >= 2 && expected.len() > k).labels(labels);
    }

    if got.len() != expected.len() || got.iter().zip(expected.iter()).any(|(a, b)| !same_row(a, b)) {
        // first difference
        let mut msg = format!("{} rows returned, {} groups expected", got.len(), expected.len());
        for i in 0..got.len().max(expected.len()) {
            match (got.get(i), expected.get(i)) {
                (Some(a), Some(b)) if same_row(a, b) => continue,
                (a, b) => {
                    msg = format!("{msg}; first difference at sorted position {i}: got {} expected {}", a.map(|r| show_row(r)).unwrap_or("<none>".into()), b.map(|r| show_row(r)).unwrap_or("<none>".into()));
                    break;
                }
            }
        }
        return CaseResult::violation(format!("{msg} [stages {:?}]", built.modes)).labels(labels);
    }
    labels.sort();
    labels.dedup();
    CaseResult::pass().nontrivial(nontrivial).labels(labels)
}
