//! `vf-df` — the shared SQL case runner (DESIGN.md §3.4) for every umbrella-level harness crate.
//!
//! # Public API
//! * [`Variant`] — plain-data description of one execution configuration: session options as key/value
//!   strings, `target_partitions`, `batch_size`, how MemTables are split (`mem_partitions`, `batch_rows`),
//!   string encoding, tokio flavour / workers, per-case timeout. `Variant::default()` = 1 partition,
//!   engine defaults, current-thread runtime, Utf8 strings.
//! * [`run_sql`]`(tables, sql, &variant, want_plans) -> RunOutput` — fresh runtime + fresh `SessionContext`
//!   per call; registers the tables as MemTables, plans and executes the SQL text.
//!   [`run_sql_with`] additionally takes a closure customising the `SessionStateBuilder` (C03 installs
//!   optimizer rule lists there) and [`run_in_context`] gives full control (async closure over the context).
//! * [`RunOutput`]`{outcome: Outcome, columns, plans, elapsed_ms}` with [`Outcome`]` = Rows(Vec<Vec<Value>>) |
//!   Error(ErrInfo{class, stage, message}) | Timeout`. [`ErrClass`] is derived from
//!   `DataFusionError::find_root()` (`Plan | SchemaError | Sql | NotImplemented | Internal | Execution |
//!   DivideByZero | ArrowCast | ArrowOther | ResourcesExhausted | Io | External | Configuration | Other`).
//! * Arrow ↔ `Value`: [`batches_to_rows`], [`array_value`], [`table_to_batches`], [`schema_of`],
//!   [`mem_table`]; [`build_context`]`(&variant, customize)`; [`build_runtime`]`(&variant)`.
//! * comparison: re-exported `vf_kit::refsql::{multiset_diff, check_result, …}` via [`refsql`].
//!
//! All integer widths → `Value::Int`, all string encodings → `Value::Str`, Float16/32/64 → `Value::Float`,
//! Decimal / Date / Timestamp / nested types → `Value::Str` of the display form (not produced by the refsql fragment).
use datafusion::arrow::array::*;
use datafusion::arrow::datatypes::{DataType, Field, Schema, SchemaRef};
use datafusion::arrow::error::ArrowError;
use datafusion::arrow::record_batch::RecordBatch;
use datafusion::arrow::util::display::{ArrayFormatter, FormatOptions};
use datafusion::catalog::MemTable;
use datafusion::error::DataFusionError;
use datafusion::execution::SessionStateBuilder;
use datafusion::execution::runtime_env::RuntimeEnv;
use datafusion::prelude::{SessionConfig, SessionContext};
use serde::{Deserialize, Serialize};
use std::sync::Arc;
use std::time::{Duration, Instant};
pub use vf_kit::refsql;
use vf_kit::refsql::{ColDef, Table, Ty, Value};

#[derive(Clone, Copy, Debug, PartialEq, Eq, Serialize, Deserialize)]
pub enum StrEncoding {
    Utf8,
    LargeUtf8,
    Utf8View,
}

#[derive(Clone, Copy, Debug, PartialEq, Eq, Serialize, Deserialize)]
pub enum Flavor {
    CurrentThread,
    MultiThread(usize),
}

/// One execution configuration (plain data; part of replay files).
#[derive(Clone, Debug, PartialEq, Serialize, Deserialize)]
pub struct Variant {
    /// `datafusion.*` options applied with `ConfigOptions::set` in order
    pub options: Vec<(String, String)>,
    pub target_partitions: usize,
    /// None = engine default (8192)
    pub batch_size: Option<usize>,
    /// number of MemTable partitions each table is split into (round-robin over its batches)
    pub mem_partitions: usize,
    /// rows per MemTable batch (None = one batch per table); the last batch may be shorter
    pub batch_rows: Option<usize>,
    pub strings: StrEncoding,
    pub flavor: Flavor,
    pub timeout_ms: u64,
}

impl Default for Variant {
    fn default() -> Self {
        Variant { options: vec![], target_partitions: 1, batch_size: None, mem_partitions: 1, batch_rows: None, strings: StrEncoding::Utf8, flavor: Flavor::CurrentThread, timeout_ms: 20_000 }
    }
}

#[derive(Clone, Copy, Debug, PartialEq, Eq, Hash, PartialOrd, Ord, Serialize, Deserialize)]
pub enum ErrClass {
    Plan,
    SchemaError,
    Sql,
    NotImplemented,
    Internal,
    Execution,
    DivideByZero,
    ArrowCast,
    ArrowOther,
    ResourcesExhausted,
    Io,
    External,
    Configuration,
    Other,
}

impl ErrClass {
    /// a clean "this statement is rejected / unsupported" answer (never a wrong result)
    pub fn is_clean_rejection(self) -> bool {
        matches!(self, ErrClass::Plan | ErrClass::SchemaError | ErrClass::Sql | ErrClass::NotImplemented)
    }
}

#[derive(Clone, Copy, Debug, PartialEq, Eq, Serialize, Deserialize)]
pub enum Stage {
    Setup,
    /// SQL → logical plan (parser, planner, analyzer)
    Logical,
    Optimize,
    Physical,
    Execute,
}

#[derive(Clone, Debug)]
pub struct ErrInfo {
    pub class: ErrClass,
    pub stage: Stage,
    pub message: String,
}

#[derive(Clone, Debug)]
pub enum Outcome {
    Rows(Vec<Vec<Value>>),
    Error(ErrInfo),
    /// the per-case timeout expired (→ `CaseResult::inconclusive`)
    Timeout,
}

#[derive(Clone, Debug, Default)]
pub struct Plans {
    /// analyzed-but-unoptimized logical plan (`display_indent`)
    pub logical: String,
    pub optimized: String,
    /// `displayable(plan).indent(false)`
    pub physical: String,
}

#[derive(Clone, Debug)]
pub struct RunOutput {
    pub outcome: Outcome,
    /// output column names and Arrow types (as text) of the plan *before* optimization, when planning succeeded
    pub columns: Vec<(String, String)>,
    /// the same for the optimized logical plan (empty if optimization failed)
    pub optimized_columns: Vec<(String, String)>,
    pub plans: Option<Plans>,
    pub elapsed_ms: u64,
}

impl RunOutput {
    pub fn rows(&self) -> Option<&Vec<Vec<Value>>> {
        match &self.outcome {
            Outcome::Rows(r) => Some(r),
            _ => None,
        }
    }
    pub fn error(&self) -> Option<&ErrInfo> {
        match &self.outcome {
            Outcome::Error(e) => Some(e),
            _ => None,
        }
    }
}

pub fn classify_error(e: &DataFusionError) -> ErrClass {
    match e.find_root() {
        DataFusionError::ArrowError(a, _) => classify_arrow(a),
        DataFusionError::SQL(..) => ErrClass::Sql,
        DataFusionError::NotImplemented(_) => ErrClass::NotImplemented,
        DataFusionError::Internal(_) => ErrClass::Internal,
        DataFusionError::Plan(_) => ErrClass::Plan,
        DataFusionError::Configuration(_) => ErrClass::Configuration,
        DataFusionError::SchemaError(..) => ErrClass::SchemaError,
        DataFusionError::Execution(_) => ErrClass::Execution,
        DataFusionError::ExecutionJoin(_) => ErrClass::Execution,
        DataFusionError::ResourcesExhausted(_) => ErrClass::ResourcesExhausted,
        DataFusionError::IoError(_) | DataFusionError::ObjectStore(_) | DataFusionError::ParquetError(_) => ErrClass::Io,
        DataFusionError::External(_) => ErrClass::External,
        _ => ErrClass::Other,
    }
}

fn classify_arrow(a: &ArrowError) -> ErrClass {
    match a {
        ArrowError::DivideByZero => ErrClass::DivideByZero,
        ArrowError::CastError(_) | ArrowError::ParseError(_) => ErrClass::ArrowCast,
        ArrowError::NotYetImplemented(_) => ErrClass::NotImplemented,
        ArrowError::ExternalError(inner) => {
            if let Some(df) = inner.downcast_ref::<DataFusionError>() {
                classify_error(df)
            } else if let Some(ar) = inner.downcast_ref::<ArrowError>() {
                classify_arrow(ar)
            } else {
                ErrClass::ArrowOther
            }
        }
        _ => ErrClass::ArrowOther,
    }
}

fn err_info(e: &DataFusionError, stage: Stage) -> ErrInfo {
    ErrInfo { class: classify_error(e), stage, message: vf_kit::engine::truncate(&e.strip_backtrace(), 1500) }
}

// ---------------------------------------------------------------------------------------------
// Arrow <-> Value

pub fn arrow_type(ty: Ty, strings: StrEncoding) -> DataType {
    match ty {
        Ty::Int => DataType::Int64,
        Ty::Float => DataType::Float64,
        Ty::Bool => DataType::Boolean,
        Ty::Str => match strings {
            StrEncoding::Utf8 => DataType::Utf8,
            StrEncoding::LargeUtf8 => DataType::LargeUtf8,
            StrEncoding::Utf8View => DataType::Utf8View,
        },
    }
}

/// Arrow schema of a table: every column nullable unless it holds no NULL and is named like the unique id.
pub fn schema_of(cols: &[ColDef], strings: StrEncoding) -> SchemaRef {
    Arc::new(Schema::new(cols.iter().map(|c| Field::new(&c.name, arrow_type(c.ty, strings), true)).collect::<Vec<_>>()))
}

/// One column of values → Arrow array of the column's type. A value of another type is a harness bug → Err.
pub fn column_to_array(ty: Ty, strings: StrEncoding, values: &mut dyn Iterator<Item = &Value>) -> Result<ArrayRef, String> {
    Ok(match ty {
        Ty::Int => {
            let mut b = Int64Builder::new();
            for v in values {
                match v {
                    Value::Null => b.append_null(),
                    Value::Int(i) => b.append_value(*i),
                    o => return Err(format!("Int column holds {o:?}")),
                }
            }
            Arc::new(b.finish())
        }
        Ty::Float => {
            let mut b = Float64Builder::new();
            for v in values {
                match v {
                    Value::Null => b.append_null(),
                    Value::Float(f) => b.append_value(*f),
                    o => return Err(format!("Float column holds {o:?}")),
                }
            }
            Arc::new(b.finish())
        }
        Ty::Bool => {
            let mut b = BooleanBuilder::new();
            for v in values {
                match v {
                    Value::Null => b.append_null(),
                    Value::Bool(x) => b.append_value(*x),
                    o => return Err(format!("Bool column holds {o:?}")),
                }
            }
            Arc::new(b.finish())
        }
        Ty::Str => {
            let mut strs: Vec<Option<&str>> = vec![];
            for v in values {
                match v {
                    Value::Null => strs.push(None),
                    Value::Str(s) => strs.push(Some(s.as_str())),
                    o => return Err(format!("Str column holds {o:?}")),
                }
            }
            match strings {
                StrEncoding::Utf8 => Arc::new(StringArray::from(strs)),
                StrEncoding::LargeUtf8 => Arc::new(LargeStringArray::from(strs)),
                StrEncoding::Utf8View => Arc::new(StringViewArray::from(strs)),
            }
        }
    })
}

/// Split a table into record batches of `batch_rows` rows (None = a single batch; an empty table gives no batch).
pub fn table_to_batches(t: &Table, strings: StrEncoding, batch_rows: Option<usize>) -> Result<(SchemaRef, Vec<RecordBatch>), String> {
    let schema = schema_of(&t.cols, strings);
    let n = t.rows.len();
    let step = batch_rows.unwrap_or(n).max(1);
    let mut batches = vec![];
    let mut at = 0;
    while at < n {
        let end = (at + step).min(n);
        let mut arrays = vec![];
        for (ci, c) in t.cols.iter().enumerate() {
            let mut it = t.rows[at..end].iter().map(|r| &r[ci]);
            arrays.push(column_to_array(c.ty, strings, &mut it)?);
        }
        batches.push(RecordBatch::try_new(schema.clone(), arrays).map_err(|e| e.to_string())?);
        at = end;
    }
    Ok((schema, batches))
}

/// MemTable over the table's batches dealt round-robin into `mem_partitions` partitions.
pub fn mem_table(t: &Table, v: &Variant) -> Result<MemTable, String> {
    if let Some(r) = t.rows.iter().find(|r| r.len() != t.cols.len()) {
        return Err(format!("table {} has a row of arity {} (expected {})", t.name, r.len(), t.cols.len()));
    }
    let (schema, batches) = table_to_batches(t, v.strings, v.batch_rows)?;
    let np = v.mem_partitions.max(1);
    let mut parts: Vec<Vec<RecordBatch>> = vec![vec![]; np];
    for (i, b) in batches.into_iter().enumerate() {
        parts[i % np].push(b);
    }
    MemTable::try_new(schema, parts).map_err(|e| e.to_string())
}

/// Logical value of one array slot.
pub fn array_value(a: &dyn Array, i: usize) -> Value {
    if a.is_null(i) {
        return Value::Null;
    }
    macro_rules! prim {
        ($t:ty, $conv:expr) => {{
            let arr = a.as_any().downcast_ref::<$t>().unwrap();
            $conv(arr.value(i))
        }};
    }
    match a.data_type() {
        DataType::Null => Value::Null,
        DataType::Boolean => prim!(BooleanArray, Value::Bool),
        DataType::Int8 => prim!(Int8Array, |v: i8| Value::Int(v as i64)),
        DataType::Int16 => prim!(Int16Array, |v: i16| Value::Int(v as i64)),
        DataType::Int32 => prim!(Int32Array, |v: i32| Value::Int(v as i64)),
        DataType::Int64 => prim!(Int64Array, Value::Int),
        DataType::UInt8 => prim!(UInt8Array, |v: u8| Value::Int(v as i64)),
        DataType::UInt16 => prim!(UInt16Array, |v: u16| Value::Int(v as i64)),
        DataType::UInt32 => prim!(UInt32Array, |v: u32| Value::Int(v as i64)),
        DataType::UInt64 => prim!(UInt64Array, |v: u64| if v <= i64::MAX as u64 { Value::Int(v as i64) } else { Value::Str(v.to_string()) }),
        DataType::Float16 => prim!(Float16Array, |v| Value::Float(f64::from(v))),
        DataType::Float32 => prim!(Float32Array, |v: f32| Value::Float(v as f64)),
        DataType::Float64 => prim!(Float64Array, Value::Float),
        DataType::Utf8 => prim!(StringArray, |v: &str| Value::Str(v.to_string())),
        DataType::LargeUtf8 => prim!(LargeStringArray, |v: &str| Value::Str(v.to_string())),
        DataType::Utf8View => prim!(StringViewArray, |v: &str| Value::Str(v.to_string())),
        DataType::Dictionary(_, _) => {
            let d = a.as_any_dictionary();
            let keys = d.normalized_keys();
            array_value(d.values().as_ref(), keys[i])
        }
        _ => {
            let opts = FormatOptions::default();
            match ArrayFormatter::try_new(a, &opts) {
                Ok(f) => Value::Str(f.value(i).to_string()),
                Err(_) => Value::Str(format!("<{}>", a.data_type())),
            }
        }
    }
}

pub fn batches_to_rows(batches: &[RecordBatch]) -> Vec<Vec<Value>> {
    let mut rows = vec![];
    for b in batches {
        let cols: Vec<&ArrayRef> = b.columns().iter().collect();
        for i in 0..b.num_rows() {
            rows.push(cols.iter().map(|c| array_value(c.as_ref(), i)).collect());
        }
    }
    rows
}

// ---------------------------------------------------------------------------------------------
// context / runtime

pub fn build_runtime(v: &Variant) -> std::io::Result<tokio::runtime::Runtime> {
    match v.flavor {
        Flavor::CurrentThread => tokio::runtime::Builder::new_current_thread().enable_all().build(),
        Flavor::MultiThread(n) => tokio::runtime::Builder::new_multi_thread().worker_threads(n.max(1)).enable_all().build(),
    }
}

pub fn session_config(v: &Variant) -> Result<SessionConfig, DataFusionError> {
    let mut cfg = SessionConfig::new().with_target_partitions(v.target_partitions.max(1)).with_information_schema(false);
    if let Some(b) = v.batch_size {
        cfg = cfg.with_batch_size(b.max(1));
    }
    for (k, val) in &v.options {
        cfg.options_mut().set(k, val)?;
    }
    Ok(cfg)
}

/// Fresh `SessionContext` (fresh `RuntimeEnv`) for the variant; `customize` may replace rule lists etc.
pub fn build_context(v: &Variant, customize: impl FnOnce(SessionStateBuilder) -> SessionStateBuilder) -> Result<SessionContext, DataFusionError> {
    let cfg = session_config(v)?;
    let rt = Arc::new(RuntimeEnv::default());
    let b = SessionStateBuilder::new().with_config(cfg).with_runtime_env(rt).with_default_features();
    let state = customize(b).build();
    Ok(SessionContext::new_with_state(state))
}

pub fn register_tables(ctx: &SessionContext, tables: &[Table], v: &Variant) -> Result<(), String> {
    for t in tables {
        let mt = mem_table(t, v)?;
        ctx.register_table(t.name.as_str(), Arc::new(mt)).map_err(|e| e.to_string())?;
    }
    Ok(())
}

/// Plan and execute one SQL text on a prepared context, stage by stage.
pub async fn execute_sql(ctx: &SessionContext, sql: &str, want_plans: bool) -> (Outcome, Vec<(String, String)>, Option<Plans>) {
    let (o, c, _, p) = execute_sql_full(ctx, sql, want_plans).await;
    (o, c, p)
}

/// like `execute_sql`, also returning the optimized plan's output columns (third component)
pub async fn execute_sql_full(ctx: &SessionContext, sql: &str, want_plans: bool) -> (Outcome, Vec<(String, String)>, Vec<(String, String)>, Option<Plans>) {
    let state = ctx.state();
    let logical = match state.create_logical_plan(sql).await {
        Ok(p) => p,
        Err(e) => return (Outcome::Error(err_info(&e, Stage::Logical)), vec![], vec![], None),
    };
    let columns: Vec<(String, String)> = logical.schema().fields().iter().map(|f| (f.name().clone(), f.data_type().to_string())).collect();
    let mut plans = if want_plans { Some(Plans { logical: logical.display_indent().to_string(), ..Default::default() }) } else { None };
    let optimized = match state.optimize(&logical) {
        Ok(p) => p,
        Err(e) => return (Outcome::Error(err_info(&e, Stage::Optimize)), columns, vec![], plans),
    };
    let ocols: Vec<(String, String)> = optimized.schema().fields().iter().map(|f| (f.name().clone(), f.data_type().to_string())).collect();
    if let Some(p) = plans.as_mut() {
        p.optimized = optimized.display_indent().to_string();
    }
    let physical = match state.query_planner().create_physical_plan(&optimized, &state).await {
        Ok(p) => p,
        Err(e) => return (Outcome::Error(err_info(&e, Stage::Physical)), columns, ocols, plans),
    };
    if let Some(p) = plans.as_mut() {
        p.physical = datafusion::physical_plan::displayable(physical.as_ref()).indent(false).to_string();
    }
    match datafusion::physical_plan::collect(physical, ctx.task_ctx()).await {
        Ok(batches) => (Outcome::Rows(batches_to_rows(&batches)), columns, ocols, plans),
        Err(e) => (Outcome::Error(err_info(&e, Stage::Execute)), columns, ocols, plans),
    }
}

/// Full control: build runtime + context for the variant, register the tables, run `f` under the
/// per-case timeout. Returns None on timeout, Err on setup failure.
pub fn run_in_context<T, F, Fut>(tables: &[Table], v: &Variant, customize: impl FnOnce(SessionStateBuilder) -> SessionStateBuilder, f: F) -> Result<Option<T>, ErrInfo>
where
    F: FnOnce(SessionContext) -> Fut,
    Fut: std::future::Future<Output = T>,
{
    let setup = |m: String| ErrInfo { class: ErrClass::Other, stage: Stage::Setup, message: m };
    let rt = build_runtime(v).map_err(|e| setup(e.to_string()))?;
    let ctx = build_context(v, customize).map_err(|e| err_info(&e, Stage::Setup))?;
    register_tables(&ctx, tables, v).map_err(setup)?;
    let timeout = Duration::from_millis(v.timeout_ms.max(1));
    let out = rt.block_on(async { tokio::time::timeout(timeout, f(ctx)).await.ok() });
    rt.shutdown_timeout(Duration::from_millis(200));
    Ok(out)
}

pub fn run_sql_with(tables: &[Table], sql: &str, v: &Variant, want_plans: bool, customize: impl FnOnce(SessionStateBuilder) -> SessionStateBuilder) -> RunOutput {
    let t0 = Instant::now();
    let sql_owned = sql.to_string();
    let r = run_in_context(tables, v, customize, |ctx| async move { execute_sql_full(&ctx, &sql_owned, want_plans).await });
    let elapsed_ms = t0.elapsed().as_millis() as u64;
    match r {
        Err(e) => RunOutput { outcome: Outcome::Error(e), columns: vec![], optimized_columns: vec![], plans: None, elapsed_ms },
        Ok(None) => RunOutput { outcome: Outcome::Timeout, columns: vec![], optimized_columns: vec![], plans: None, elapsed_ms },
        Ok(Some((outcome, columns, optimized_columns, plans))) => RunOutput { outcome, columns, optimized_columns, plans, elapsed_ms },
    }
}

/// Run one SQL text over the tables under the variant (fresh runtime and context).
pub fn run_sql(tables: &[Table], sql: &str, v: &Variant, want_plans: bool) -> RunOutput {
    run_sql_with(tables, sql, v, want_plans, |b| b)
}

/// `CREATE TABLE … AS VALUES` script reproducing a case in datafusion-cli (for violation messages).
pub fn repro_script(tables: &[Table], sql: &str) -> String {
    let mut s = String::new();
    for t in tables {
        let cols: Vec<String> = t.cols.iter().map(|c| format!("{} {}", c.name, c.ty.sql())).collect();
        if t.rows.is_empty() {
            s.push_str(&format!("CREATE TABLE {}({});\n", t.name, cols.join(", ")));
        } else {
            let rows: Vec<String> = t.rows.iter().map(|r| format!("({})", r.iter().map(|v| v.to_sql_literal()).collect::<Vec<_>>().join(", "))).collect();
            s.push_str(&format!("CREATE TABLE {}({}) AS VALUES {};\n", t.name, cols.join(", "), rows.join(", ")));
        }
    }
    s.push_str(sql);
    s.push_str(";\n");
    s
}
