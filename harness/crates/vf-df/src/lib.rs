//! Shared SQL runner for the umbrella-level harness crates.
