//! C16 — spill channels (`spill_pool::{spsc_channel, mpsc_channel}`) deliver every batch exactly once
//! and terminate, under generated interleavings (harness scheduler, hooks H1 + H4) and injected push
//! failures (disk quota). Level `fault_enumeration`.
//!
//! **Domain.** SPSC (one `SpillPoolSink`) or MPSC with 1–3 writer handles (the original
//! `SpillPoolWriter`, clones of it, or `new_sink()` sinks — created during set-up). Writer script:
//! 0–6 ops: pushes of batches with 0 (empty), 1, 20 or 100 rows, or `WaitDelivered(1..=5)` (below), then drop. Batches carry a unique id in
//! every row. `max_file_size_bytes` is derived from `rot_batches` ∈ 0..=4 so that a file rotates
//! after about that many 20-row batches (4 → practically never). One reader actor polls the stream
//! to end-of-stream, or drops it after `reader_max` batches. Real temp files (per-case tempdir).
//! **Faults**: `quota = Some{after_pushes, extra}` sets `max_temp_directory_size` to the disk usage
//! a sequential dry run (no reader, writers round robin) shows after `after_pushes·n/8` of the n
//! non-empty pushes, plus `extra` bytes — so in schedule order some push fails, either at its first byte (`extra = 0`)
//! or half-way through a batch. Which push fails is an outcome (the reader may free space earlier).
//! **Schedule**: `sched::Schedule` with ≤ 3 (quick) / 4 (thorough) preemptions; yield points are every
//! `Mutex::lock` in `spill_pool.rs`, every `Pending`, and the gaps between script operations.
//!
//! **File I/O of the reader** goes through `tokio::fs` (blocking pool): the reader actor enters a
//! current-thread runtime with `max_blocking_threads(1)` and, whenever a poll returns `Pending`,
//! *flushes* the blocking pool (submits a marker job and waits for it — the pool is FIFO with one
//! thread, so every earlier I/O job has completed and delivered its wake); if a wake is recorded it
//! re-polls without any scheduling step (`ActorCtx::take_wake`), otherwise it parks. A park is
//! therefore always a logical wait for a writer, I/O completion is never mistaken for a missing
//! wake-up. Because tokio reports a read as `Ready` or as `Pending`+wake depending on how fast the
//! blocking thread is, the reader additionally *gates* the blocking thread (`IoGate`: a parked blocker
//! job occupies it except during a flush): an I/O job issued by a poll cannot complete before that poll
//! returns, so every I/O stage costs
//! exactly one `Pending` + re-poll and the sequence of yield points is a pure function of the case
//! (checked with `VF_CHAN_DETCHECK=1`, which executes every case twice and compares traces).
//!
//! **Oracle** (history recorded under the baton): every delivered batch was pushed (push started),
//! is delivered at most once, with its rows intact; an empty batch is never delivered; SPSC:
//! deliveries follow push order and, when the reader drains to end-of-stream, the delivered ids are
//! exactly the successfully pushed non-empty ones (a batch whose push returned `Err` may or may not
//! appear); MPSC: the same as multisets; end-of-stream is reported only after the drop of every
//! writer handle has begun and every successfully pushed batch was delivered; the reader never
//! reports an error; no logical deadlock — in particular after a failed push the reader still
//! terminates and still receives everything pushed successfully; no panic; after all handles are
//! dropped `used_disk_space() == 0`.
//!
//! **Non-trivial**: the reader parked at least once and either (no quota) ≥ 2 spill files were
//! created (≥ 1 rotation), or a push failed after at least one earlier push had succeeded.
//!
//! **Finding (fixed in /repo; entry `fixed` in known_findings.json)**: `SpillPoolSink::push_batch` popped
//! the write file from `open_write_files` and, when `append_batch`/`flush`/`finish` failed, returned
//! without putting it back or marking it `writer_finished`; nobody could reach the file any more, so
//! the reader waited on it forever (logical deadlock; with several writers batches in later files
//! were never delivered either). Found after 10 cases, shrunk to
//! regressions/C16/c16/push-failure-reader-hangs.json (+ two richer cases next to it); all three now
//! run as plain regressions and the former `quota+polling-reader` exclusion is gone, so the whole
//! fault enumeration runs.
//!
//! **`WaitDelivered(n)` (script codes 4..=8)** makes "the reader is always woken when data becomes
//! available" observable while writers stay alive: the writer actor parks until the reader has
//! delivered n batches in total (n clamped to the batches pushed successfully so far and to
//! `reader_max`), then continues. Without it every history ends with all writers dropping, and the
//! last drop wakes the pool unconditionally, masking a missing data wake-up. Only effective with one
//! writer handle: there every pushed batch is immediately readable (one open file, last in the
//! queue), so the wait always ends under a correct implementation; with several writers a batch in
//! a later file legitimately waits for an earlier open file to be sealed. A lost data wake-up shows
//! up as a logical deadlock (reader parked, writer waiting).
//! Seeded defect /verif/seeded/C16-a (pool-level wake moved to the put-back branch, so a push that
//! creates *and* seals a file never wakes a reader parked on the empty pool): missed before this op
//! existed (`mutrun` exit 0); with it `tools/mutrun seeded/C16-a/patch.diff -- ./check C16 quick` →
//! **VIOLATION** after 22 cases, shrunk to `{spsc, pushes:[2,4], rot_batches:0, forced:[128]}`
//! (reader parks on the empty pool, the push creates+seals the file, writer waits for 1 delivery →
//! logical deadlock, reconfirmed). Unchanged tree: exit 0 on seeds 0–4 and 31–33, no KNOWN-FINDING line.
//!
//! **Deviations from DESIGN.md**: quota sized from a dry run rather than analytically; the failing
//! `TempFileFactory` injector (§3.8c) is not used (the quota reaches the same error paths);
//! the schedule type (see `vf_kit::sched`); reader-drop-early is part of the domain.
//!
//! **Sensitivity probes** (patches in `vf-chan/probes/`, `tools/mutrun <patch> -- ./check C16 quick`,
//! run while the push-failure finding was still open, i.e. on the no-fault sub-domain; logs `probes/probes*.log`):
//! * `c16-p1-drop-no-pool-wake` — last writer's drop does not wake the pool-level waker:
//!   **VIOLATION** after 19 cases (deadlock: reader waits for a new file forever).
//! * `c16-p2-file-eof-when-caught-up` — `SpillPoolFile::poll_next` reports end-of-file as soon as the
//!   reader has caught up: **VIOLATION** after 19 cases ("end-of-stream while only 0 of 1 writer handles
//!   have been dropped").
//! * `c16-p3-new-sink-no-count` — `new_sink` does not increment `remaining_writer_count`:
//!   **VIOLATION** after 15 cases (panic `attempt to subtract with overflow` in `Drop`, spill_pool.rs:150).
//! * `c16-p4-drop-count-after-wake` (race-only: the writer count reaches zero only after the pool-level
//!   wake-up, so a reader scheduled in between re-registers and is never woken):
//!   first run **VIOLATION** after 11 cases (deadlock) but the shrunk case did not re-confirm — that run
//!   still had the I/O-timing non-determinism described below; the re-run with the deterministic
//!   harness (`probes/c16-fix-plus-env-guarded-p4.diff`, `VF_PROBE_P4=1`) was cancelled for lack of
//!   machine time (mutrun queue, load > 200) — NOT yet confirmed.
//! * `c16-p5-pop-two-files` — mutrun exited 2 (build raced with a source edit); not re-run.
//! * The first run of p2/p4 showed `reconfirmed=false` for a shrunk case: tokio reports a file read as
//!   `Ready` or `Pending`+wake depending on timing, which changed the number of yield points. Fixed
//!   by `IoGate` + `ActorCtx::take_wake` (see "File I/O of the reader") and guarded from now on:
//!   a violation is only reported if an immediate second execution confirms it, and
//!   `VF_CHAN_DETCHECK=1` compares the traces of two executions of every case (6 277 + 150 000 cases
//!   compared equal for c16 / c15).
//! * The genuine defect (known finding above) is itself a sensitivity witness for the fault path:
//!   found after 10 cases on the unchanged tree, passes with `fixes/C16-push-failure-finalize.diff`.

use arrow::array::{Array, ArrayRef, Int32Array};
use arrow::datatypes::{DataType, Field, Schema, SchemaRef};
use arrow::record_batch::RecordBatch;
use datafusion_execution::SendableRecordBatchStream;
use datafusion_execution::disk_manager::{DiskManagerBuilder, DiskManagerMode};
use datafusion_execution::runtime_env::{RuntimeEnv, RuntimeEnvBuilder};
use datafusion_physical_plan::metrics::{ExecutionPlanMetricsSet, SpillMetrics};
use datafusion_physical_plan::spill::SpillManager;
use datafusion_physical_plan::spill::spill_pool::{self, SpillPoolSink, SpillPoolWriter};
use futures::StreamExt;
use proptest::prelude::*;
use serde::{Deserialize, Serialize};
use std::collections::BTreeMap;
use std::sync::{Arc, Mutex};
use std::task::Poll;
use vf_kit::engine::*;
use vf_kit::sched::{self, Actor, ActorCtx, Options, Report, Schedule, Verdict};

vf_kit::df_sched_adapter!();

pub struct C16;

#[derive(Clone, Debug, Serialize, Deserialize)]
pub struct WriterScript {
    /// MPSC only, writers after the first: false = `SpillPoolWriter::clone()`, true = `new_sink()`
    pub sink: bool,
    /// script: 0 → push an empty batch, 1 → 1 row, 2 → 20 rows, 3 → 100 rows;
    /// 4..=8 → `WaitDelivered(code-3)`: park until the reader has delivered that many batches in total
    /// (clamped to what has been pushed successfully so far and to `reader_max`; only effective with a
    /// single writer handle, where every pushed batch is immediately readable)
    pub pushes: Vec<u8>,
}

#[derive(Clone, Debug, Serialize, Deserialize)]
pub struct Quota {
    /// 0..=7: the quota equals the dry-run disk usage after `after_pushes·n/8` of the n non-empty pushes
    pub after_pushes: u8,
    pub extra: u16,
}

#[derive(Clone, Debug, Serialize, Deserialize)]
pub struct Case {
    pub mpsc: bool,
    /// SPSC uses only the first script
    pub writers: Vec<WriterScript>,
    /// a file rotates after about this many 20-row batches (0 = after every batch, 4 = never)
    pub rot_batches: u8,
    /// the reader drops the stream after this many batches (None = drain to end-of-stream)
    pub reader_max: Option<u8>,
    pub quota: Option<Quota>,
    pub schedule: Schedule,
}


fn rows_of(code: u8) -> usize {
    match code {
        0 => 0,
        1 => 1,
        2 => 20,
        _ => 100,
    }
}

/// script codes 4..=8 are not pushes but `WaitDelivered(code - 3)`
fn wait_of(code: u8) -> Option<usize> {
    if (4..=8).contains(&code) { Some(code as usize - 3) } else { None }
}

/// Harness-level rendezvous "the reader has delivered ≥ n batches" (only the baton holder touches it).
#[derive(Default)]
struct Delivery {
    delivered: usize,
    ok_pushed: usize,
    reader_gone: bool,
    waiters: Vec<std::task::Waker>,
}

fn schema() -> SchemaRef {
    Arc::new(Schema::new(vec![Field::new("id", DataType::Int32, false)]))
}

fn batch(schema: &SchemaRef, id: i32, rows: usize) -> RecordBatch {
    let a: ArrayRef = Arc::new(Int32Array::from(vec![id; rows]));
    RecordBatch::try_new(schema.clone(), vec![a]).expect("valid batch")
}

enum Handle {
    Sink(SpillPoolSink),
    Writer(SpillPoolWriter),
}

impl Handle {
    fn push(&self, b: &RecordBatch) -> datafusion_common::Result<()> {
        match self {
            Handle::Sink(s) => s.push_batch(b),
            Handle::Writer(w) => w.push_batch(b),
        }
    }
}

fn n_writers(case: &Case) -> usize {
    if case.mpsc { case.writers.len().clamp(1, 3) } else { 1 }
}

fn open_channel(case: &Case, max_file: usize, sm: Arc<SpillManager>) -> (Vec<Handle>, SendableRecordBatchStream) {
    if case.mpsc {
        let (w0, reader) = spill_pool::mpsc_channel(max_file, sm);
        let mut extra = vec![];
        for s in case.writers.iter().take(3).skip(1) {
            extra.push(if s.sink { Handle::Sink(w0.new_sink()) } else { Handle::Writer(w0.clone()) });
        }
        let mut hs = vec![Handle::Writer(w0)];
        hs.extend(extra);
        (hs, reader)
    } else {
        let (w, reader) = spill_pool::spsc_channel(max_file, sm);
        (vec![Handle::Sink(w)], reader)
    }
}

fn max_file_size(case: &Case, schema: &SchemaRef) -> usize {
    let unit = batch(schema, 0, 20).get_array_memory_size();
    match case.rot_batches {
        0 => 0,
        k @ 1..=3 => (k as usize) * unit - 1,
        _ => usize::MAX / 2,
    }
}

#[derive(Clone, Debug)]
#[allow(dead_code)]
enum Ev {
    PushStart { w: usize, id: i32, rows: usize },
    PushEnd { id: i32, rows: usize, ok: bool, err: String },
    Waited { w: usize, target: usize, parked: bool },
    WriterDropStart { w: usize },
    WriterDropEnd { w: usize },
    Recv { id: i32, rows: usize, intact: bool },
    ReadErr(String),
    Eof,
    ReaderDropped { early: bool },
}

thread_local! {
    /// one runtime per calling (shard) thread; only its blocking pool is ever used
    static RT: tokio::runtime::Runtime = tokio::runtime::Builder::new_current_thread()
        .max_blocking_threads(1)
        .build()
        .expect("tokio runtime");
}

/// Keeps the single blocking-pool thread occupied by a parked "blocker" job, so that I/O jobs issued
/// by the reader's polls only ever run inside [`IoGate::flush`]. Costs nothing for polls that issue no I/O.
struct IoGate {
    handle: tokio::runtime::Handle,
    release: Option<std::sync::mpsc::Sender<()>>,
}

impl IoGate {
    fn blocker(h: &tokio::runtime::Handle) -> std::sync::mpsc::Sender<()> {
        let (tx, rx) = std::sync::mpsc::channel::<()>();
        let _ = h.spawn_blocking(move || {
            let _ = rx.recv(); // returns when the sender is dropped
        });
        tx
    }

    fn close(h: &tokio::runtime::Handle) -> IoGate {
        IoGate { handle: h.clone(), release: Some(Self::blocker(h)) }
    }

    /// Let every I/O job queued so far run to completion (each delivers its wake), then close the
    /// gate again. The pool is FIFO with one thread: queue = [I/O jobs.., marker, next blocker].
    fn flush(&mut self) {
        let (mtx, mrx) = std::sync::mpsc::channel::<()>();
        let _ = self.handle.spawn_blocking(move || {
            let _ = mtx.send(());
        });
        let next = Self::blocker(&self.handle);
        drop(self.release.replace(next)); // releases the current blocker
        let _ = mrx.recv();
    }
}

impl Drop for IoGate {
    fn drop(&mut self) {
        self.release.take();
    }
}

/// wait until every blocking job submitted so far (file I/O of a torn-down reader) has completed
fn flush_io(h: &tokio::runtime::Handle) {
    let (tx, rx) = std::sync::mpsc::channel::<()>();
    let _ = h.spawn_blocking(move || {
        let _ = tx.send(());
    });
    let _ = rx.recv();
}

struct Outcome16 {
    report: Report,
    history: Vec<Ev>,
    files_created: usize,
    disk_left: u64,
    quota_bytes: Option<u64>,
}

fn build_env(dir: &std::path::Path) -> Result<Arc<RuntimeEnv>, String> {
    RuntimeEnvBuilder::new()
        .with_disk_manager_builder(DiskManagerBuilder::default().with_mode(DiskManagerMode::Directories(vec![dir.to_path_buf()])))
        .build_arc()
        .map_err(|e| format!("cannot build RuntimeEnv: {e}"))
}

/// sequential dry run (no reader, writers round robin): disk usage after each non-empty push
fn dry_run(case: &Case, env: &Arc<RuntimeEnv>, schema: &SchemaRef) -> Result<Vec<u64>, String> {
    let metrics = SpillMetrics::new(&ExecutionPlanMetricsSet::new(), 0);
    let sm = Arc::new(SpillManager::new(env.clone(), metrics, schema.clone()));
    let (handles, reader) = open_channel(case, max_file_size(case, schema), sm);
    let nw = handles.len();
    let mut cum = vec![env.disk_manager.used_disk_space()];
    let longest = case.writers.iter().take(nw).map(|w| w.pushes.len()).max().unwrap_or(0);
    for k in 0..longest {
        for (w, h) in handles.iter().enumerate() {
            if let Some(code) = case.writers[w].pushes.get(k) {
                let rows = rows_of(*code);
                if rows == 0 || wait_of(*code).is_some() {
                    continue;
                }
                h.push(&batch(schema, 0, rows)).map_err(|e| format!("dry run push failed: {e}"))?;
                cum.push(env.disk_manager.used_disk_space());
            }
        }
    }
    drop(handles);
    drop(reader);
    if env.disk_manager.used_disk_space() != 0 {
        return Err(format!("dry run left used_disk_space = {}", env.disk_manager.used_disk_space()));
    }
    Ok(cum)
}

fn execute(case: &Case) -> Result<Outcome16, String> {
    let dir = tempfile::tempdir().map_err(|e| format!("tempdir: {e}"))?;
    let env = build_env(dir.path())?;
    let schema = schema();
    let mut quota_bytes = None;
    if let Some(q) = &case.quota {
        let cum = dry_run(case, &env, &schema)?;
        // cum has one entry per non-empty push plus the initial 0; map 0..=7 monotonically onto
        // 0..n so that (in sequential order) the quota is always hit by some push
        let n = cum.len() - 1;
        let k = ((q.after_pushes as usize).min(7) * n) / 8;
        let bytes = cum[k] + q.extra as u64;
        env.disk_manager.set_max_temp_directory_size(bytes).map_err(|e| format!("set quota: {e}"))?;
        quota_bytes = Some(bytes);
    }
    let metrics = SpillMetrics::new(&ExecutionPlanMetricsSet::new(), 0);
    let sm = Arc::new(SpillManager::new(env.clone(), metrics.clone(), schema.clone()));
    let (handles, reader) = open_channel(case, max_file_size(case, &schema), sm);
    let rt_handle = RT.with(|rt| rt.handle().clone());

    let history: Mutex<Vec<Ev>> = Mutex::new(Vec::new());
    let log = |e: Ev| history.lock().unwrap_or_else(|p| p.into_inner()).push(e);
    let delivery: Mutex<Delivery> = Mutex::new(Delivery::default());
    let single_writer = handles.len() == 1;
    let reader_cap = case.reader_max.map(|m| m as usize).unwrap_or(usize::MAX);
    let mut actors: Vec<Actor<'_>> = vec![];
    for (w, h) in handles.into_iter().enumerate() {
        let log = &log;
        let delivery = &delivery;
        let script = &case.writers[w];
        let schema = schema.clone();
        actors.push(Actor::new(format!("writer{w}"), move |ctx: &ActorCtx| {
            for (k, code) in script.pushes.iter().take(8).enumerate() {
                if let Some(n) = wait_of(*code) {
                    // Sound only where delivery of everything pushed so far needs no further writer
                    // action: one writer handle (one open file, always last in the queue).
                    if !single_writer {
                        continue;
                    }
                    let target = {
                        let d = delivery.lock().unwrap_or_else(|p| p.into_inner());
                        n.min(d.ok_pushed).min(reader_cap)
                    };
                    ctx.yield_now(format!("wait_delivered({target})"));
                    let mut waited = false;
                    loop {
                        {
                            let mut d = delivery.lock().unwrap_or_else(|p| p.into_inner());
                            if d.delivered >= target || d.reader_gone {
                                break;
                            }
                            d.waiters.push(ctx.waker().clone());
                        }
                        waited = true;
                        ctx.park();
                    }
                    log(Ev::Waited { w, target, parked: waited });
                    continue;
                }
                let rows = rows_of(*code);
                let id = (w as i32 + 1) * 100 + k as i32;
                let b = batch(&schema, id, rows);
                ctx.yield_now(format!("push(id={id}, rows={rows})"));
                log(Ev::PushStart { w, id, rows });
                let r = h.push(&b);
                if r.is_err() {
                    ctx.note(format!("push(id={id}) -> Err"));
                }
                if r.is_ok() && rows > 0 {
                    delivery.lock().unwrap_or_else(|p| p.into_inner()).ok_pushed += 1;
                }
                log(Ev::PushEnd { id, rows, ok: r.is_ok(), err: r.err().map(|e| truncate(&e.to_string(), 120)).unwrap_or_default() });
            }
            ctx.yield_now(format!("drop(writer{w})"));
            log(Ev::WriterDropStart { w });
            drop(h);
            log(Ev::WriterDropEnd { w });
        }));
    }
    {
        let log = &log;
        let delivery = &delivery;
        let reader_max = case.reader_max;
        let rt_handle = rt_handle.clone();
        actors.push(Actor::new("reader", move |ctx: &ActorCtx| {
            let _enter = rt_handle.enter();
            let mut gate = IoGate::close(&rt_handle);
            let mut reader = reader;
            let mut got = 0usize;
            let mut early = false;
            loop {
                if let Some(m) = reader_max {
                    if got >= m as usize {
                        early = true;
                        break;
                    }
                }
                ctx.yield_now("reader.next()");
                let item = loop {
                    // a stale wake flag must not matter: polling observes the current state anyway
                    let _ = ctx.take_wake();
                    let mut fut = reader.next();
                    match ctx.poll(std::pin::Pin::new(&mut fut)) {
                        Poll::Ready(x) => break x,
                        Poll::Pending => {
                            // The gate kept the blocking thread busy during the poll, so an I/O job issued
                            // by it cannot have completed yet (never a timing-dependent `Ready`). Now let
                            // all queued I/O run; if that woke us, re-poll, else the wait is logical.
                            gate.flush();
                            if ctx.take_wake() {
                                continue;
                            }
                            ctx.park();
                        }
                    }
                };
                match item {
                    Some(Ok(b)) => {
                        got += 1;
                        let col = b.column(0).as_any().downcast_ref::<Int32Array>();
                        let (id, intact) = match col {
                            Some(a) if a.len() > 0 => (a.value(0), a.null_count() == 0 && a.values().iter().all(|v| *v == a.value(0)) && b.num_columns() == 1),
                            _ => (-1, false),
                        };
                        log(Ev::Recv { id, rows: b.num_rows(), intact });
                        let waiters = {
                            let mut d = delivery.lock().unwrap_or_else(|p| p.into_inner());
                            d.delivered += 1;
                            std::mem::take(&mut d.waiters)
                        };
                        for wk in waiters {
                            wk.wake();
                        }
                    }
                    Some(Err(e)) => {
                        log(Ev::ReadErr(truncate(&e.to_string(), 300)));
                        break;
                    }
                    None => {
                        log(Ev::Eof);
                        break;
                    }
                }
            }
            // a reader that stops after a read error must not strand a waiting writer (the error itself
            // is the violation); after end-of-stream / reader_max no writer can be waiting (targets are clamped)
            let waiters = {
                let mut d = delivery.lock().unwrap_or_else(|p| p.into_inner());
                d.reader_gone = true;
                std::mem::take(&mut d.waiters)
            };
            for wk in waiters {
                wk.wake();
            }
            ctx.yield_now("drop(reader)");
            drop(reader);
            log(Ev::ReaderDropped { early });
            drop(gate);
        }));
    }
    let report = sched::run(&case.schedule, &Options { step_limit: 20_000 }, &verif_install, actors);
    if !report.completed() {
        // let stray blocking jobs (reads abandoned by a torn-down reader) finish before the files go away
        flush_io(&rt_handle);
    }
    let history = std::mem::take(&mut *history.lock().unwrap_or_else(|p| p.into_inner()));
    let files_created = metrics.spill_file_count.value();
    let disk_left = env.disk_manager.used_disk_space();
    drop(env);
    drop(dir);
    Ok(Outcome16 { report, history, files_created, disk_left, quota_bytes })
}

struct Summary {
    writer_waited: bool,
    push_failed: bool,
    ok_before_failure: bool,
    delivered: usize,
    eof: bool,
    early: bool,
    failed_delivered: bool,
}

fn check_history(case: &Case, history: &[Ev], complete: bool) -> Result<Summary, String> {
    let nw = n_writers(case);
    let mut started: BTreeMap<i32, usize> = BTreeMap::new(); // id → rows
    let mut ok_ids: Vec<i32> = vec![];
    let mut failed_ids: Vec<i32> = vec![];
    let mut received: Vec<i32> = vec![];
    let mut drops_started = 0usize;
    let mut eof = false;
    let mut early = false;
    let mut push_failed = false;
    let mut ok_before_failure = false;
    let mut writer_waited = false;
    for (i, e) in history.iter().enumerate() {
        match e {
            Ev::PushStart { id, rows, .. } => {
                started.insert(*id, *rows);
            }
            Ev::PushEnd { id, rows, ok, .. } => {
                if *ok {
                    if *rows > 0 {
                        ok_ids.push(*id);
                    }
                } else {
                    if case.quota.is_none() {
                        return Err(format!("event {i}: push({id}) failed although no fault is injected: {e:?}"));
                    }
                    if !push_failed && !ok_ids.is_empty() {
                        ok_before_failure = true;
                    }
                    push_failed = true;
                    failed_ids.push(*id);
                }
            }
            Ev::WriterDropStart { .. } => drops_started += 1,
            Ev::WriterDropEnd { .. } => {}
            Ev::Waited { parked, .. } => writer_waited |= *parked,
            Ev::Recv { id, rows, intact } => {
                if eof {
                    return Err(format!("event {i}: batch {id} delivered after end-of-stream"));
                }
                let Some(pushed_rows) = started.get(id) else {
                    return Err(format!("event {i}: delivered batch id {id} was never pushed"));
                };
                if *pushed_rows == 0 {
                    return Err(format!("event {i}: an empty batch (id {id}) was delivered"));
                }
                if !*intact || rows != pushed_rows {
                    return Err(format!("event {i}: batch {id} delivered damaged ({rows} rows, pushed {pushed_rows}, intact={intact})"));
                }
                if received.contains(id) {
                    return Err(format!("event {i}: batch {id} delivered twice"));
                }
                if !case.mpsc {
                    if let Some(last) = received.last() {
                        if last > id {
                            return Err(format!("event {i}: single-writer channel delivered {id} after {last}"));
                        }
                    }
                }
                received.push(*id);
            }
            Ev::ReadErr(m) => return Err(format!("event {i}: the reader reported an error: {m}")),
            Ev::Eof => {
                if drops_started < nw {
                    return Err(format!("event {i}: end-of-stream while only {drops_started} of {nw} writer handles have been dropped"));
                }
                for id in &ok_ids {
                    if !received.contains(id) {
                        return Err(format!("event {i}: end-of-stream although batch {id} (push returned Ok) was never delivered"));
                    }
                }
                eof = true;
            }
            Ev::ReaderDropped { early: e } => early = *e,
        }
    }
    if complete && eof {
        // exactly the successfully pushed non-empty batches (failed pushes optional)
        let mut want = ok_ids.clone();
        let mut have: Vec<i32> = received.iter().copied().filter(|id| !failed_ids.contains(id)).collect();
        if case.mpsc {
            want.sort();
            have.sort();
        }
        if want != have {
            return Err(format!("delivered ids {have:?} differ from successfully pushed ids {want:?}"));
        }
    }
    Ok(Summary { writer_waited, push_failed, ok_before_failure, delivered: received.len(), eof, early, failed_delivered: received.iter().any(|id| failed_ids.contains(id)) })
}

fn fmt_history(h: &[Ev]) -> String {
    let mut s = String::new();
    for (i, e) in h.iter().enumerate() {
        s.push_str(&format!("\n    h{i}: {e:?}"));
    }
    s
}

/// Determinism guard: a violation is only reported if an independent second execution of the same
/// case gives the same verdict class; with `VF_CHAN_DETCHECK` set every case is executed twice and
/// any difference in trace / decisions / history is a harness error (exit 2).
fn judge(case: &Case) -> CaseResult {
    let r = judge_once(case, std::env::var_os("VF_CHAN_DETCHECK").is_some());
    if r.is_violation() {
        let again = judge_once(case, false);
        if !again.is_violation() || again.labels.first() != r.labels.first() {
            return CaseResult::inconclusive("a violation did not reproduce on immediate re-execution (harness non-determinism)").label("non-reproducible");
        }
    }
    r
}

fn judge_once(case: &Case, detcheck: bool) -> CaseResult {
    let out = match execute(case) {
        Ok(o) => o,
        Err(m) => return CaseResult::inconclusive(format!("set-up failed: {m}")),
    };
    if detcheck {
        if let Ok(b) = execute(case) {
            if b.report.trace != out.report.trace || b.report.decisions != out.report.decisions || format!("{:?}", b.history) != format!("{:?}", out.history) {
                panic!("harness non-determinism: two executions of the same case differ\nA: {}{}\nB: {}{}", out.report.describe(200), fmt_history(&out.history), b.report.describe(200), fmt_history(&b.history));
            }
        }
    }
    let rep = &out.report;
    let ctx_text = |n: usize| format!("(quota={:?} bytes, files created={})\n{}{}", out.quota_bytes, out.files_created, rep.describe(n), fmt_history(&out.history));
    if let Some(p) = rep.panics.first() {
        if p.location.contains("/harness/crates/") || p.location.contains("crates/vf-") {
            panic!("harness panic inside actor {} at {}: {}", p.actor, p.location, p.message);
        }
        return CaseResult::violation(format!("panic in code under test at {}: {}\n{}", p.location, truncate(&p.message, 400), ctx_text(40))).label("panic");
    }
    let complete = match &rep.verdict {
        Verdict::Completed => true,
        Verdict::StepLimit => return CaseResult::inconclusive("scheduler step limit").label("step-limit"),
        Verdict::Deadlock { .. } => false,
    };
    let summary = match check_history(case, &out.history, complete) {
        Ok(s) => s,
        Err(m) => return CaseResult::violation(format!("{m}\n{}", ctx_text(60))).label("history"),
    };
    if !complete {
        let what = if summary.push_failed { "after a failed push the reader never terminates: " } else { "reader not woken although data / end-of-stream is available: " };
        return CaseResult::violation(format!("{what}{}", ctx_text(60))).label("deadlock");
    }
    if out.disk_left != 0 {
        return CaseResult::violation(format!("used_disk_space() = {} after reader and all writers were dropped\n{}", out.disk_left, ctx_text(30))).label("disk-accounting");
    }
    let nw = n_writers(case);
    let reader_parked = rep.parks.get(nw).copied().unwrap_or(0) > 0;
    let nontrivial = reader_parked && if case.quota.is_none() { out.files_created >= 2 } else { summary.push_failed && summary.ok_before_failure };
    let mut r = CaseResult::pass().nontrivial(nontrivial);
    r = r.label(if case.mpsc { format!("mpsc writers={nw}") } else { "spsc".to_string() });
    r = r.label(format!("files={}", match out.files_created { 0 => "0", 1 => "1", 2 => "2", 3..=4 => "3-4", _ => "5+" }));
    r = r.label(format!("preemptions={}", rep.preemptions.len()));
    r = r.label(format!("code-preemptions={}", rep.preemptions.iter().filter(|i| rep.is_code_event(**i)).count().min(3)));
    r = r.label(format!("delivered={}", match summary.delivered { 0 => "0", 1..=3 => "1-3", 4..=7 => "4-7", _ => "8+" }));
    if reader_parked {
        r = r.label("reader-parked");
    }
    if summary.eof {
        r = r.label("end-of-stream");
    }
    if summary.writer_waited {
        r = r.label("writer-parked-until-delivered");
    }
    if summary.early {
        r = r.label("reader-dropped-early");
    }
    if case.quota.is_some() {
        r = r.label(if summary.push_failed { "fault: push failed" } else { "fault: quota not hit" });
        if summary.push_failed && summary.ok_before_failure {
            r = r.label("fault: failure after a successful push");
        }
        if summary.failed_delivered {
            r = r.label("fault: failed push delivered");
        }
        if case.quota.as_ref().map(|q| q.extra > 0).unwrap_or(false) && summary.push_failed {
            r = r.label("fault: partial write possible");
        }
    }
    if case.writers.iter().take(nw).any(|w| w.pushes.iter().any(|c| *c == 0)) {
        r = r.label("has-empty-batch");
    }
    r
}

impl Property for C16 {
    type Case = Case;
    fn id(&self) -> &'static str {
        "C16"
    }
    fn sub(&self) -> &'static str {
        "c16"
    }
    fn level(&self) -> &'static str {
        "fault_enumeration"
    }
    fn strategy(&self, tier: Tier) -> BoxedStrategy<Case> {
        let max_pre = tier.pick(3, 4);
        let code = prop_oneof![1 => Just(0u8), 2 => Just(1u8), 4 => Just(2u8), 2 => Just(3u8), 2 => 4u8..=8];
        let writer = (any::<bool>(), prop::collection::vec(code, 0..=6)).prop_map(|(sink, pushes)| WriterScript { sink, pushes });
        let quota = prop::option::weighted(0.5, (0u8..=7, prop_oneof![2 => Just(0u16), 1 => 1u16..=8, 2 => 9u16..=400]).prop_map(|(after_pushes, extra)| Quota { after_pushes, extra }));
        (
            any::<bool>(),
            prop::collection::vec(writer, 1..=3),
            0u8..=4,
            prop::option::weighted(0.2, 0u8..=4),
            quota,
            Schedule::strategy(max_pre, 40, 8),
        )
            .prop_map(|(mpsc, writers, rot_batches, reader_max, quota, schedule)| Case { mpsc, writers, rot_batches, reader_max, quota, schedule })
            .boxed()
    }
    fn budget(&self, tier: Tier) -> Budget {
        Budget::new(tier.pick(6_000, 300_000), tier.pick(8, 16)).min_nontrivial(tier.pick(300, 10_000)).case_timeout(300).shrink(3000, 120)
    }
    fn rule(&self) -> String {
        "generated (spsc|mpsc with 1-3 writer handles, push scripts with 0/1/20/100-row batches, rotation threshold, reader drains or leaves early, \
         optional disk quota sized from a dry run so that a push fails, schedule with bounded preemptions) run under the harness scheduler on real temp files; \
         non-trivial = the reader parked at least once AND (no quota: >=2 spill files created | quota: a push failed after an earlier push succeeded); distinct by case JSON"
            .into()
    }
    fn assumptions(&self) -> Vec<String> {
        vec![
            "sequentially consistent interleavings at Mutex::lock granularity in spill_pool.rs (hook H4); file I/O of the reader is treated as synchronous (blocking pool flushed before every park)".into(),
            "push failures are injected through DiskManager's max_temp_directory_size only (write(2) errors of the OS are C21's domain)".into(),
            "a batch whose push returned Err may or may not be delivered".into(),
        ]
    }
    fn run(&self, case: &Case) -> CaseResult {
        if case.writers.is_empty() {
            return CaseResult::discard("outside domain: no writer");
        }
        judge(case)
    }
}
