mod c15;

fn main() {
    vf_kit::dispatch! {
        "c15" => c15::C15,
    }
}
