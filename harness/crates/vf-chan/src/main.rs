mod c15;
mod c16;

fn main() {
    vf_kit::dispatch! {
        "c15" => c15::C15,
        "c16" => c16::C16,
    }
}
