//! C15 — exchange (distribution) channels: no loss, order, close, no deadlock, under generated
//! interleavings driven by the harness-owned scheduler (`vf_kit::sched`, hooks H1–H3).
//!
//! **Domain.** `channels(n)` with n ∈ 1..=3, or `partition_aware_channels(n_in, n_out)` (n_in·n_out ≤ 4;
//! one independent gate per input). 1–3 *sender actors*; each belongs to one gate (= one input task,
//! as in `RepartitionExec`) and holds one sender handle (original or clone) for a subset of that
//! gate's channels, so a channel has 0–3 handles. Sender script: `Send` / `TrySend` (poll once and
//! cancel the future if the gate is closed) / `Drop` of one handle; remaining handles are dropped at
//! the end (≤ 5 ops). 1–3 *consumer actors* own the receivers (each receiver has one owner);
//! consumer script: `Recv` (await), `Try` (poll once, abandon if pending), `Drop`, then either drain
//! every remaining receiver to end-of-stream or just drop them. The schedule (≤ 3 preemptions
//! quick, ≤ 4 thorough, plus forced-choice bytes) is interpreted at every lock / atomic access in
//! `distributor_channels.rs`, at every `Pending`, and between script operations.
//! A sender actor never holds handles of two gates: with that restriction every script terminates
//! under a correct implementation (a blocked receiver implies an empty open channel, hence an open
//! gate, hence no blocked sender of that gate), so a logical deadlock is always a defect.
//!
//! **Oracle** (history recorded under the baton, so log order is real-time order):
//! a received value was sent to that channel, is received at most once, and never if its `send`
//! returned `Err` or was cancelled; per channel, if `send(v1)` completed `Ok` before `send(v2)`
//! started (in particular for the same sender) then v2 is not delivered before v1; `recv` returns
//! `None` only after the drop of every sender handle of the channel has begun and every value sent
//! `Ok` to it has been received; after `None` it stays `None`; `send` returns `Err` only after the
//! receiver's drop has begun; the scheduler never reaches a logical deadlock (nobody runnable, no
//! wake pending, somebody unfinished) — lost wake-ups show up exactly like this; no panic in the
//! code under test.
//!
//! **Non-trivial**: some sender was parked by the closed gate and at least one preemption happened
//! at a lock/atomic access inside `distributor_channels.rs`.
//!
//! **Exhaustive sub-run** (`Property::extra`): `channels(2)`, one sender per channel with 2 messages
//! each, two draining receivers: every schedule with ≤ 2 preemptions and ≤ 2 (quick) / ≤ 3
//! (thorough) forced choices deviating from round robin is enumerated (`sched::explore`).
//!
//! **Deviations from DESIGN.md**: schedule = `sched::Schedule` ((gap, pick) preemption list + forced
//! bytes) rather than one `Vec<u8>`; sender actors may hold handles to several channels of one gate
//! (the realistic RepartitionExec shape) instead of "one sender per actor"; `TrySend`/`Try` model
//! future cancellation; the exhaustive sub-run bounds forced-choice deviations as well as preemptions.
//!
//! **Sensitivity probes** (patches in `vf-chan/probes/`, run with `tools/mutrun <patch> -- ./check C15 quick`;
//! log: `probes/probes.log`):
//! * `c15-p1-rxdrop-no-wake` — `DistributionReceiver::drop` no longer calls `wake_channel_senders`:
//!   **VIOLATION** after 71 cases (logical deadlock: a sender parked on the gate is never told that its
//!   receiver is gone).
//! * `c15-p2-txdrop-double-decr` — last-sender drop decrements `empty_channels` also when `data` is
//!   `None`: **VIOLATION** after 172 cases (deadlock: gate closed while an open channel is empty).
//! * `c15-p3-send-register-on-open-gate` (race-only: `SendFuture::poll` registers its waker even if the
//!   gate was opened between the `empty_channels` load and the gate lock):
//!   **VIOLATION** after 521 cases (deadlock, reconfirmed) — needs a preemption between the atomic load and the gate lock.
//! * prepared but not run for lack of machine time (patch files present): `c15-p4-recv-no-recheck` (expected to
//!   be invisible to this property: it only lets the buffer grow), `c15-p5-push-front` (order).

use datafusion_physical_plan::repartition::verif_hooks::{DistributionReceiver, DistributionSender, channels, partition_aware_channels};
use proptest::prelude::*;
use serde::{Deserialize, Serialize};
use serde_json::{Value, json};
use std::collections::{BTreeMap, BTreeSet};
use std::sync::Mutex;
use std::task::Poll;
use vf_kit::engine::*;
use vf_kit::sched::{self, Actor, ActorCtx, Bounds, Options, Report, Schedule, Verdict};

vf_kit::df_sched_adapter!();

pub struct C15;

#[derive(Clone, Debug, Serialize, Deserialize, PartialEq)]
pub enum SOp {
    /// `send(v).await` on the handle in slot (clamped)
    Send { slot: u8 },
    /// poll `send(v)` once; if the gate is closed, cancel the future (v is never sent)
    TrySend { slot: u8 },
    /// drop the handle in the slot
    Drop { slot: u8 },
}

#[derive(Clone, Debug, Serialize, Deserialize, PartialEq)]
pub enum ROp {
    Recv { slot: u8 },
    /// poll `recv()` once; abandon the future if pending
    Try { slot: u8 },
    Drop { slot: u8 },
}

#[derive(Clone, Debug, Serialize, Deserialize)]
pub struct SenderActor {
    /// input / gate index (clamped to n_in-1)
    pub gate: u8,
    /// output indices this actor holds a handle for (clamped, de-duplicated; empty → [0])
    pub outs: Vec<u8>,
    pub ops: Vec<SOp>,
}

#[derive(Clone, Debug, Serialize, Deserialize)]
pub struct ConsumerActor {
    pub ops: Vec<ROp>,
    /// after the script: drain every receiver still held to end-of-stream (else just drop them)
    pub drain: bool,
}

#[derive(Clone, Debug, Serialize, Deserialize)]
pub struct Case {
    /// false: `channels(n_out)` (n_in is ignored = 1); true: `partition_aware_channels(n_in, n_out)`
    pub partition_aware: bool,
    pub n_in: u8,
    pub n_out: u8,
    pub senders: Vec<SenderActor>,
    pub consumers: Vec<ConsumerActor>,
    /// owner (consumer index, clamped) of each receiver, by flat channel id `in·n_out + out`
    pub rx_owner: Vec<u8>,
    pub schedule: Schedule,
}

#[derive(Clone, Debug)]
#[allow(dead_code)]
enum Ev {
    SendStart { ch: usize, v: u32 },
    SendEnd { ch: usize, v: u32, ok: bool },
    SendCancelled { ch: usize, v: u32 },
    TxDropStart { ch: usize },
    TxDropEnd { ch: usize },
    RecvStart { ch: usize },
    RecvEnd { ch: usize, got: Option<u32> },
    RecvAbandoned { ch: usize },
    RxDropStart { ch: usize },
    RxDropEnd { ch: usize },
}

struct Dims {
    n_in: usize,
    n_out: usize,
}

fn dims(case: &Case) -> Dims {
    let n_out = (case.n_out as usize).clamp(1, 3);
    let n_in = if case.partition_aware { (case.n_in as usize).clamp(1, 3) } else { 1 };
    Dims { n_in, n_out }
}

/// resolved sender actor: (gate, flat channel ids of its handles)
fn sender_channels(case: &Case, d: &Dims) -> Vec<Vec<usize>> {
    case.senders
        .iter()
        .map(|s| {
            let g = (s.gate as usize).min(d.n_in - 1);
            let mut outs: Vec<usize> = vec![];
            for o in &s.outs {
                let o = (*o as usize).min(d.n_out - 1);
                if !outs.contains(&o) {
                    outs.push(o);
                }
            }
            if outs.is_empty() {
                outs.push(0);
            }
            outs.into_iter().map(|o| g * d.n_out + o).collect()
        })
        .collect()
}

struct Outcome15 {
    report: Report,
    history: Vec<Ev>,
    handles_per_channel: Vec<usize>,
}

fn execute(case: &Case) -> Outcome15 {
    let d = dims(case);
    let n_ch = d.n_in * d.n_out;
    let (mut txs, mut rxs): (Vec<Option<DistributionSender<u32>>>, Vec<Option<DistributionReceiver<u32>>>) = if case.partition_aware {
        let (t, r) = partition_aware_channels::<u32>(d.n_in, d.n_out);
        (t.into_iter().flatten().map(Some).collect(), r.into_iter().flatten().map(Some).collect())
    } else {
        let (t, r) = channels::<u32>(d.n_out);
        (t.into_iter().map(Some).collect(), r.into_iter().map(Some).collect())
    };
    let sch = sender_channels(case, &d);
    let mut handles_per_channel = vec![0usize; n_ch];
    // distribute handles: the last holder gets the original, the others clones (set-up, un-instrumented)
    let mut actor_handles: Vec<Vec<(usize, DistributionSender<u32>)>> = sch.iter().map(|_| vec![]).collect();
    for ch in 0..n_ch {
        let holders: Vec<usize> = (0..sch.len()).filter(|a| sch[*a].contains(&ch)).collect();
        handles_per_channel[ch] = holders.len();
        let mut orig = txs[ch].take();
        for (k, a) in holders.iter().enumerate() {
            let h = if k + 1 == holders.len() { orig.take() } else { orig.clone() };
            if let Some(h) = h {
                actor_handles[*a].push((ch, h));
            }
        }
        drop(orig); // nobody sends on this channel: closed from the start
    }
    for (a, hs) in actor_handles.iter_mut().enumerate() {
        // slot order = order of `outs`
        hs.sort_by_key(|(ch, _)| sch[a].iter().position(|c| c == ch));
    }
    let n_cons = case.consumers.len().max(1);
    let mut consumer_rx: Vec<Vec<(usize, DistributionReceiver<u32>)>> = (0..n_cons).map(|_| vec![]).collect();
    for ch in 0..n_ch {
        let owner = (case.rx_owner.get(ch).copied().unwrap_or(0) as usize).min(n_cons - 1);
        consumer_rx[owner].push((ch, rxs[ch].take().expect("one receiver per channel")));
    }

    let history: Mutex<Vec<Ev>> = Mutex::new(Vec::new());
    let log = |e: Ev| history.lock().unwrap_or_else(|p| p.into_inner()).push(e);
    let mut actors: Vec<Actor<'_>> = vec![];
    for (a, (script, handles)) in case.senders.iter().zip(actor_handles).enumerate() {
        let log = &log;
        actors.push(Actor::new(format!("send{a}"), move |ctx: &ActorCtx| {
            let mut handles: Vec<Option<(usize, DistributionSender<u32>)>> = handles.into_iter().map(Some).collect();
            let mut seq = 0u32;
            for op in &script.ops {
                let (slot, kind) = match op {
                    SOp::Send { slot } => (*slot, 0),
                    SOp::TrySend { slot } => (*slot, 1),
                    SOp::Drop { slot } => (*slot, 2),
                };
                let slot = (slot as usize).min(handles.len() - 1);
                let Some((ch, _)) = handles[slot].as_ref() else { continue };
                let ch = *ch;
                match kind {
                    0 | 1 => {
                        let v = (a as u32 + 1) * 100 + seq;
                        seq += 1;
                        ctx.yield_now(format!("send({v})->ch{ch}"));
                        log(Ev::SendStart { ch, v });
                        let tx = &handles[slot].as_ref().unwrap().1;
                        if kind == 0 {
                            let r = ctx.block_on(tx.send(v));
                            log(Ev::SendEnd { ch, v, ok: r.is_ok() });
                        } else {
                            let mut fut = std::pin::pin!(tx.send(v));
                            match ctx.poll(fut.as_mut()) {
                                Poll::Ready(r) => log(Ev::SendEnd { ch, v, ok: r.is_ok() }),
                                Poll::Pending => log(Ev::SendCancelled { ch, v }),
                            }
                        }
                    }
                    _ => {
                        ctx.yield_now(format!("drop(tx ch{ch})"));
                        log(Ev::TxDropStart { ch });
                        drop(handles[slot].take());
                        log(Ev::TxDropEnd { ch });
                    }
                }
            }
            for h in handles.iter_mut() {
                if let Some((ch, tx)) = h.take() {
                    ctx.yield_now(format!("drop(tx ch{ch})"));
                    log(Ev::TxDropStart { ch });
                    drop(tx);
                    log(Ev::TxDropEnd { ch });
                }
            }
        }));
    }
    for (c, rx) in consumer_rx.into_iter().enumerate() {
        let log = &log;
        let script = case.consumers.get(c).cloned().unwrap_or(ConsumerActor { ops: vec![], drain: true });
        actors.push(Actor::new(format!("recv{c}"), move |ctx: &ActorCtx| {
            let mut rxs: Vec<Option<(usize, DistributionReceiver<u32>)>> = rx.into_iter().map(Some).collect();
            if rxs.is_empty() {
                return;
            }
            for op in &script.ops {
                let (slot, kind) = match op {
                    ROp::Recv { slot } => (*slot, 0),
                    ROp::Try { slot } => (*slot, 1),
                    ROp::Drop { slot } => (*slot, 2),
                };
                let slot = (slot as usize).min(rxs.len() - 1);
                let Some((ch, _)) = rxs[slot].as_ref() else { continue };
                let ch = *ch;
                match kind {
                    0 => {
                        ctx.yield_now(format!("recv(ch{ch})"));
                        log(Ev::RecvStart { ch });
                        let got = ctx.block_on(rxs[slot].as_mut().unwrap().1.recv());
                        log(Ev::RecvEnd { ch, got });
                    }
                    1 => {
                        ctx.yield_now(format!("try_recv(ch{ch})"));
                        log(Ev::RecvStart { ch });
                        let rx = &mut rxs[slot].as_mut().unwrap().1;
                        let mut fut = std::pin::pin!(rx.recv());
                        match ctx.poll(fut.as_mut()) {
                            Poll::Ready(got) => log(Ev::RecvEnd { ch, got }),
                            Poll::Pending => log(Ev::RecvAbandoned { ch }),
                        }
                    }
                    _ => {
                        ctx.yield_now(format!("drop(rx ch{ch})"));
                        log(Ev::RxDropStart { ch });
                        drop(rxs[slot].take());
                        log(Ev::RxDropEnd { ch });
                    }
                }
            }
            for h in rxs.iter_mut() {
                if let Some((ch, mut rx)) = h.take() {
                    if script.drain {
                        loop {
                            ctx.yield_now(format!("recv(ch{ch})"));
                            log(Ev::RecvStart { ch });
                            let got = ctx.block_on(rx.recv());
                            log(Ev::RecvEnd { ch, got });
                            if got.is_none() {
                                break;
                            }
                        }
                    }
                    ctx.yield_now(format!("drop(rx ch{ch})"));
                    log(Ev::RxDropStart { ch });
                    drop(rx);
                    log(Ev::RxDropEnd { ch });
                }
            }
        }));
    }
    let report = sched::run(&case.schedule, &Options { step_limit: 20_000 }, &verif_install, actors);
    let history = std::mem::take(&mut *history.lock().unwrap_or_else(|p| p.into_inner()));
    Outcome15 { report, history, handles_per_channel }
}

#[derive(Default)]
struct ChanModel {
    send_started: BTreeMap<u32, usize>,
    send_ok_at: BTreeMap<u32, usize>,
    send_failed: BTreeSet<u32>,
    cancelled: BTreeSet<u32>,
    received: Vec<u32>,
    tx_drop_started: usize,
    rx_drop_started: bool,
    saw_none: bool,
}

/// history invariant; Err(message) on the first violated clause
fn check_history(history: &[Ev], handles_per_channel: &[usize], complete: bool) -> Result<(), String> {
    let mut m: Vec<ChanModel> = handles_per_channel.iter().map(|_| ChanModel::default()).collect();
    let mut seen_anywhere: BTreeSet<u32> = BTreeSet::new();
    for (i, e) in history.iter().enumerate() {
        match e {
            Ev::SendStart { ch, v } => {
                m[*ch].send_started.insert(*v, i);
            }
            Ev::SendEnd { ch, v, ok } => {
                if *ok {
                    m[*ch].send_ok_at.insert(*v, i);
                } else {
                    if !m[*ch].rx_drop_started {
                        return Err(format!("event {i}: send({v}) on channel {ch} returned Err although the receiver has not been dropped"));
                    }
                    m[*ch].send_failed.insert(*v);
                }
            }
            Ev::SendCancelled { ch, v } => {
                m[*ch].cancelled.insert(*v);
            }
            Ev::TxDropStart { ch } => m[*ch].tx_drop_started += 1,
            Ev::RxDropStart { ch } => m[*ch].rx_drop_started = true,
            Ev::TxDropEnd { .. } | Ev::RxDropEnd { .. } | Ev::RecvStart { .. } | Ev::RecvAbandoned { .. } => {}
            Ev::RecvEnd { ch, got: Some(v) } => {
                let c = &mut m[*ch];
                if c.saw_none {
                    return Err(format!("event {i}: channel {ch} delivered {v} after reporting end-of-stream"));
                }
                let Some(started) = c.send_started.get(v).copied() else {
                    return Err(format!("event {i}: channel {ch} delivered {v}, which was never sent to it"));
                };
                if !seen_anywhere.insert(*v) {
                    return Err(format!("event {i}: value {v} delivered twice"));
                }
                if c.send_failed.contains(v) || c.cancelled.contains(v) {
                    return Err(format!("event {i}: value {v} delivered although its send failed / was cancelled"));
                }
                // FIFO: nothing whose send completed before this one's send started may still be undelivered
                for (v1, done_at) in &c.send_ok_at {
                    if *done_at < started && !c.received.contains(v1) {
                        return Err(format!("event {i}: channel {ch} delivered {v} before {v1}, although send({v1}) had completed before send({v}) started"));
                    }
                }
                c.received.push(*v);
            }
            Ev::RecvEnd { ch, got: None } => {
                let c = &mut m[*ch];
                if c.tx_drop_started < handles_per_channel[*ch] {
                    return Err(format!(
                        "event {i}: recv on channel {ch} returned None while only {} of {} sender handles have been dropped",
                        c.tx_drop_started, handles_per_channel[*ch]
                    ));
                }
                for v in c.send_ok_at.keys() {
                    if !c.received.contains(v) {
                        return Err(format!("event {i}: recv on channel {ch} returned None but value {v} (send returned Ok) was never delivered"));
                    }
                }
                c.saw_none = true;
            }
        }
    }
    if complete {
        for (ch, c) in m.iter().enumerate() {
            for v in c.send_failed.iter().chain(c.cancelled.iter()) {
                if c.received.contains(v) {
                    return Err(format!("channel {ch}: value {v} delivered although its send failed / was cancelled"));
                }
            }
        }
    }
    Ok(())
}

fn fmt_history(h: &[Ev]) -> String {
    let mut s = String::new();
    for (i, e) in h.iter().enumerate() {
        s.push_str(&format!("\n    h{i}: {e:?}"));
    }
    s
}

/// run + oracle; Ok((report, labels, nontrivial)) or Err(violation / inconclusive)
fn judge(case: &Case) -> CaseResult {
    let r = judge_once(case, std::env::var_os("VF_CHAN_DETCHECK").is_some());
    if r.is_violation() {
        // determinism guard: only report what an independent second execution confirms
        let again = judge_once(case, false);
        if !again.is_violation() || again.labels.first() != r.labels.first() {
            return CaseResult::inconclusive("a violation did not reproduce on immediate re-execution (harness non-determinism)").label("non-reproducible");
        }
    }
    r
}

fn judge_once(case: &Case, detcheck: bool) -> CaseResult {
    let out = execute(case);
    if detcheck {
        let b = execute(case);
        if b.report.trace != out.report.trace || b.report.decisions != out.report.decisions || format!("{:?}", b.history) != format!("{:?}", out.history) {
            panic!("harness non-determinism: two executions of the same case differ\nA: {}{}\nB: {}{}", out.report.describe(200), fmt_history(&out.history), b.report.describe(200), fmt_history(&b.history));
        }
    }
    let rep = &out.report;
    if let Some(p) = rep.panics.first() {
        if p.location.contains("/harness/crates/") || p.location.contains("crates/vf-") {
            panic!("harness panic inside actor {} at {}: {}", p.actor, p.location, p.message);
        }
        return CaseResult::violation(format!("panic in code under test at {}: {}\n{}{}", p.location, truncate(&p.message, 400), rep.describe(40), fmt_history(&out.history)))
            .label("panic");
    }
    let complete = match &rep.verdict {
        Verdict::Completed => true,
        Verdict::StepLimit => return CaseResult::inconclusive("scheduler step limit").label("step-limit"),
        Verdict::Deadlock { .. } => false,
    };
    if let Err(m) = check_history(&out.history, &out.handles_per_channel, complete) {
        return CaseResult::violation(format!("{m}\n{}{}", rep.describe(60), fmt_history(&out.history))).label("history");
    }
    if !complete {
        return CaseResult::violation(format!("{}{}", rep.describe(60), fmt_history(&out.history))).label("deadlock");
    }
    // classification
    let n_send = case.senders.len();
    let sender_parked = rep.parks.iter().take(n_send).any(|p| *p > 0);
    let recv_parked = rep.parks.iter().skip(n_send).any(|p| *p > 0);
    let code_preemptions = rep.preemptions.iter().filter(|i| rep.is_code_event(**i)).count();
    let mut r = CaseResult::pass().nontrivial(sender_parked && code_preemptions > 0);
    let d = dims(case);
    r = r.label(if case.partition_aware { format!("partition-aware {}x{}", d.n_in, d.n_out) } else { format!("channels({})", d.n_out) });
    r = r.label(format!("senders={n_send}"));
    r = r.label(format!("preemptions={}", rep.preemptions.len()));
    r = r.label(format!("code-preemptions={}", code_preemptions.min(3)));
    if sender_parked {
        r = r.label("gate-closed(sender parked)");
    }
    if recv_parked {
        r = r.label("receiver-parked");
    }
    if out.handles_per_channel.iter().any(|h| *h >= 2) {
        r = r.label("multi-sender-channel");
    }
    let mut send_err = false;
    let mut cancelled = false;
    let mut none_seen = false;
    let mut abandoned = false;
    let mut early_rx_drop = false;
    let mut delivered = 0usize;
    let mut saw_none_ch: BTreeSet<usize> = BTreeSet::new();
    for e in &out.history {
        match e {
            Ev::SendEnd { ok: false, .. } => send_err = true,
            Ev::SendCancelled { .. } => cancelled = true,
            Ev::RecvEnd { got: None, ch } => {
                none_seen = true;
                saw_none_ch.insert(*ch);
            }
            Ev::RecvEnd { got: Some(_), .. } => delivered += 1,
            Ev::RecvAbandoned { .. } => abandoned = true,
            Ev::RxDropStart { ch } => {
                if !saw_none_ch.contains(ch) {
                    early_rx_drop = true;
                }
            }
            _ => {}
        }
    }
    for (f, l) in [(send_err, "send-err"), (cancelled, "send-cancelled"), (none_seen, "end-of-stream"), (abandoned, "recv-abandoned"), (early_rx_drop, "receiver-dropped-early")] {
        if f {
            r = r.label(l);
        }
    }
    r = r.label(format!("delivered={}", match delivered { 0 => "0", 1..=3 => "1-3", 4..=7 => "4-7", _ => "8+" }));
    r
}

fn sop() -> BoxedStrategy<SOp> {
    prop_oneof![
        6 => (0u8..3).prop_map(|slot| SOp::Send { slot }),
        1 => (0u8..3).prop_map(|slot| SOp::TrySend { slot }),
        1 => (0u8..3).prop_map(|slot| SOp::Drop { slot }),
    ]
    .boxed()
}

fn rop() -> BoxedStrategy<ROp> {
    prop_oneof![
        5 => (0u8..4).prop_map(|slot| ROp::Recv { slot }),
        1 => (0u8..4).prop_map(|slot| ROp::Try { slot }),
        1 => (0u8..4).prop_map(|slot| ROp::Drop { slot }),
    ]
    .boxed()
}

impl Property for C15 {
    type Case = Case;
    fn id(&self) -> &'static str {
        "C15"
    }
    fn sub(&self) -> &'static str {
        "c15"
    }
    fn strategy(&self, tier: Tier) -> BoxedStrategy<Case> {
        let max_pre = tier.pick(3, 4);
        let layout = prop_oneof![
            3 => (1u8..=3).prop_map(|n| (false, 1u8, n)),
            1 => prop_oneof![Just((true, 2u8, 1u8)), Just((true, 2u8, 2u8)), Just((true, 1u8, 2u8)), Just((true, 3u8, 1u8))],
        ];
        let sender = (0u8..3, prop::collection::vec(0u8..3, 1..=3), prop::collection::vec(sop(), 0..=5)).prop_map(|(gate, outs, ops)| SenderActor { gate, outs, ops });
        let consumer = (prop::collection::vec(rop(), 0..=4), prop::bool::weighted(0.8)).prop_map(|(ops, drain)| ConsumerActor { ops, drain });
        (
            layout,
            prop::collection::vec(sender, 1..=3),
            prop::collection::vec(consumer, 1..=3),
            prop::collection::vec(0u8..3, 4),
            Schedule::strategy(max_pre, 40, 10),
        )
            .prop_map(|((partition_aware, n_in, n_out), senders, consumers, rx_owner, schedule)| Case { partition_aware, n_in, n_out, senders, consumers, rx_owner, schedule })
            .boxed()
    }
    fn budget(&self, tier: Tier) -> Budget {
        Budget::new(tier.pick(150_000, 5_000_000), tier.pick(8, 16)).min_nontrivial(tier.pick(5_000, 200_000)).case_timeout(300).shrink(4000, 120)
    }
    fn rule(&self) -> String {
        "generated (channel layout, sender scripts, consumer scripts, receiver ownership, schedule with bounded preemptions) run under the harness scheduler; \
         non-trivial = a sender was parked by the closed gate AND ≥1 preemption at a lock/atomic access inside distributor_channels.rs; distinct by case JSON. \
         Plus an exhaustive enumeration of all bounded schedules of the smallest two-channel configuration (exhaustive_subrun)"
            .into()
    }
    fn assumptions(&self) -> Vec<String> {
        vec![
            "sequentially consistent interleavings at lock/atomic granularity (the shims of hook H1); weak-memory reorderings are out of scope".into(),
            "a sender task holds handles of one gate only (as RepartitionExec input tasks do)".into(),
            "preemption bound 3 (quick) / 4 (thorough); message and actor counts bounded as in the rule".into(),
        ]
    }
    fn run(&self, case: &Case) -> CaseResult {
        if case.senders.is_empty() || case.senders.len() > 3 || case.consumers.len() > 3 {
            return CaseResult::discard("outside domain: actor counts");
        }
        judge(case)
    }
    fn extra(&self, tier: Tier, _seed: u64) -> Result<Value, (String, Case)> {
        let base = Case {
            partition_aware: false,
            n_in: 1,
            n_out: 2,
            senders: vec![
                SenderActor { gate: 0, outs: vec![0], ops: vec![SOp::Send { slot: 0 }, SOp::Send { slot: 0 }] },
                SenderActor { gate: 0, outs: vec![1], ops: vec![SOp::Send { slot: 0 }, SOp::Send { slot: 0 }] },
            ],
            consumers: vec![ConsumerActor { ops: vec![], drain: true }, ConsumerActor { ops: vec![], drain: true }],
            rx_owner: vec![0, 1, 0, 0],
            schedule: Schedule::default(),
        };
        let bounds = Bounds { max_preemptions: 2, max_forced_deviations: tier.pick(2, 3), max_runs: tier.pick(2_000_000, 50_000_000) };
        let mut gate_closed = 0u64;
        let t0 = std::time::Instant::now();
        let res = sched::explore(&bounds, |s| {
            let mut c = base.clone();
            c.schedule = s.clone();
            let out = execute(&c);
            if let Some(p) = out.report.panics.first() {
                return Err(format!("panic at {}: {}\n{}", p.location, p.message, out.report.describe(60)));
            }
            let complete = out.report.completed();
            if out.report.verdict == Verdict::StepLimit {
                return Err("step limit in the exhaustive sub-run".to_string());
            }
            check_history(&out.history, &out.handles_per_channel, complete).map_err(|m| format!("{m}\n{}{}", out.report.describe(60), fmt_history(&out.history)))?;
            if !complete {
                return Err(format!("{}{}", out.report.describe(60), fmt_history(&out.history)));
            }
            if out.report.parks.iter().take(2).any(|p| *p > 0) {
                gate_closed += 1;
            }
            Ok(out.report)
        });
        match res {
            Ok(stats) => Ok(json!({"exhaustive_subrun": {
                "config": "channels(2), 2 sender actors x 2 sends (one per channel), 2 draining receivers",
                "max_preemptions": bounds.max_preemptions,
                "max_forced_deviations": bounds.max_forced_deviations,
                "schedules_enumerated": stats.runs,
                "exhaustive": stats.complete,
                "max_decision_points": stats.max_decisions,
                "schedules_with_gate_closed": gate_closed,
                "wall_s": t0.elapsed().as_secs_f64(),
            }})),
            Err((schedule, m)) => {
                let mut c = base.clone();
                c.schedule = schedule;
                Err((format!("exhaustive sub-run: {m}"), c))
            }
        }
    }
}
