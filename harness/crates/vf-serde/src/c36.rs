//! C36 — physical plans survive the protobuf wire format.
//!
//! Domain: the physical plan the engine builds for a `refsql` query (C01 grammar, deterministic) over the
//! case's tables — MemTables (memory scans travel inline as IPC), or listing tables over per-case Parquet /
//! CSV files — under one of [`variants`] (session configurations chosen so that hash joins in both partition
//! modes, sort-merge / nested-loop / cross / piecewise-merge joins, single and partial+final aggregates, both
//! window executors, sorts with fetch / TopK, hash and round-robin repartitioning, coalescing, unions /
//! interleave, recursive queries, dynamic filters and Parquet/CSV/memory scans all occur). Wire form: binary
//! (`physical_plan_to_bytes`) or JSON (`physical_plan_to_json`).
//!
//! Oracle, whenever ENCODING succeeds (encode errors are discards, histogrammed): decoding with a fresh
//! session's `TaskContext` succeeds; the decoded plan has the same `displayable(..).indent(true)` text; node by
//! node (pre-order) the same `schema()`, `output_partitioning()` and `output_ordering()`; and executing it
//! (fresh session) returns the rows the original returns (multiset; sorted when the query orders).
//! The plan is encoded BEFORE the original is executed (dynamic filters are stateful).
//!
//! Non-trivial: ≥ 4 nodes and ≥ 1 join / aggregate / window / sort node.
//!
//! Deviations from DESIGN.md: directly constructed operators the SQL planner never emits (symmetric hash join
//! over unbounded inputs, range partitioning) are not built yet; `unnest` is outside the refsql grammar.
//!
//! # Recorded findings (message-shape rules in ../signatures.json; regression cases under /verif/regressions/C36/c36/)
//! `generate-series-exec-loses-projection-and-ordering` (LazyMemoryExec decoded without projection / ordering: run-time
//! failure with an empty projection, otherwise ordering-derived text and properties differ; the rule hides every
//! plan with a generate_series scan whose round trip differs in ordering), `parquet-source-reorder-options-dropped`,
//! `union-exec-decode-readds-coercion-projection`. (A decoded node whose schema differs only in field
//! nullability — seen for the aggregate-statistics `ProjectionExec` over `PlaceholderRowExec` — is labelled, not reported.)
//!
//! # Sensitivity probes (mutrun, /verif/probes/vf-serde/m5-physical-probes.diff, quick tier, seed 0)
//! * `SortExecNode.fetch` always -1 → DETECTED: "decoded plan differs in its textual form: `SortExec: TopK(fetch=N), ..`
//!   => `SortExec: expr=..`" (≈ 60 plans).
//! * HashJoinExec `PartitionMode::Partitioned` encoded as CollectLeft → DETECTED: "`HashJoinExec: mode=Partitioned ..`
//!   => `HashJoinExec: mode=CollectLeft ..`" (≈ 10 plans).
//! * (m1) physical aggregate `distinct` always false and window `partition_by` emptied in datafusion-proto's
//!   to_proto → NOT detected at quick tier: the optimizer rewrites single DISTINCT aggregates into two-level
//!   group-bys before physical planning and window execution partitions by the exec node's `partition_keys`, so
//!   neither field is observable for the generated plans (kept as a note: multi-DISTINCT aggregates are rare in
//!   the grammar).
use crate::c35::Wire;
use crate::common::*;
use datafusion::physical_plan::{ExecutionPlan, ExecutionPlanProperties, displayable};
use datafusion_proto::bytes::{physical_plan_from_bytes, physical_plan_from_json, physical_plan_to_bytes, physical_plan_to_json};
use proptest::prelude::*;
use serde::{Deserialize, Serialize};
use std::sync::Arc;
use std::time::Duration;
use vf_df::Variant;
use vf_kit::engine::*;
use vf_kit::refsql::{self, SqlCase};

pub struct C36;

#[derive(Clone, Debug, Serialize, Deserialize)]
pub struct Case {
    pub sql: SqlCase,
    pub source: Source,
    /// index into [`variants`]
    pub variant: u8,
    pub wire: Wire,
}

fn opt(k: &str, v: &str) -> (String, String) {
    (k.to_string(), v.to_string())
}

pub fn variants() -> Vec<(&'static str, Variant)> {
    let d = Variant::default();
    vec![
        ("single-partition", d.clone()),
        ("tp4-hash-partitioned", Variant { target_partitions: 4, mem_partitions: 2, batch_rows: Some(3), options: vec![opt("datafusion.optimizer.hash_join_single_partition_threshold", "0"), opt("datafusion.optimizer.hash_join_single_partition_threshold_rows", "0")], ..d.clone() }),
        ("tp3-sort-merge", Variant { target_partitions: 3, mem_partitions: 2, batch_rows: Some(4), options: vec![opt("datafusion.optimizer.prefer_hash_join", "false")], ..d.clone() }),
        (
            "tp2-no-repartition",
            Variant {
                target_partitions: 2,
                mem_partitions: 2,
                batch_rows: Some(5),
                options: vec![opt("datafusion.optimizer.repartition_joins", "false"), opt("datafusion.optimizer.repartition_aggregations", "false"), opt("datafusion.optimizer.repartition_windows", "false"), opt("datafusion.optimizer.enable_round_robin_repartition", "false")],
                ..d.clone()
            },
        ),
        (
            "tp4-pushdown-small-batches",
            Variant {
                target_partitions: 4,
                mem_partitions: 3,
                batch_rows: Some(2),
                batch_size: Some(2),
                options: vec![opt("datafusion.execution.parquet.pushdown_filters", "true"), opt("datafusion.optimizer.prefer_existing_sort", "true"), opt("datafusion.optimizer.enable_window_topn", "true")],
                ..d.clone()
            },
        ),
        ("tp1-piecewise-no-dynamic", Variant { options: vec![opt("datafusion.optimizer.enable_piecewise_merge_join", "true"), opt("datafusion.optimizer.enable_dynamic_filter_pushdown", "false"), opt("datafusion.optimizer.prefer_hash_join", "false")], ..d.clone() }),
        ("tp2-collect-left", Variant { target_partitions: 2, mem_partitions: 2, batch_rows: Some(3), options: vec![opt("datafusion.optimizer.enable_unions_to_filter", "true"), opt("datafusion.optimizer.prefer_existing_union", "true")], ..d }),
    ]
}

fn encode(plan: Arc<dyn ExecutionPlan>, wire: Wire) -> datafusion::error::Result<Vec<u8>> {
    Ok(match wire {
        Wire::Bytes => physical_plan_to_bytes(plan)?.to_vec(),
        Wire::Json => physical_plan_to_json(plan)?.into_bytes(),
    })
}

fn nodes(plan: &Arc<dyn ExecutionPlan>, out: &mut Vec<Arc<dyn ExecutionPlan>>) {
    out.push(plan.clone());
    for c in plan.children() {
        nodes(c, out);
    }
}

fn node_facts(n: &Arc<dyn ExecutionPlan>) -> (String, String, String) {
    let schema = format!("{:?}", n.schema());
    let part = format!("{:?}", n.output_partitioning());
    let ord = match n.output_ordering() {
        Some(o) => format!("{o}"),
        None => "none".to_string(),
    };
    (schema, part, ord)
}

async fn run_async(case: &Case, fx: &Fixture, vname: &str) -> CaseResult {
    let sql = refsql::to_sql(&case.sql.query);
    let a = match fx.session().await {
        Ok(s) => s,
        Err(e) => return setup_failure("session A", e),
    };
    let state = a.ctx.state();
    let logical = match state.create_logical_plan(&sql).await {
        Ok(p) => p,
        Err(e) => return CaseResult::discard(format!("planning: {:?}", err_class(&e))),
    };
    let plan = match no_panic(state.create_physical_plan(&logical)).await {
        None => return CaseResult::discard("physical planning of the original panics (outside this property)"),
        Some(Ok(p)) => p,
        Some(Err(e)) => return CaseResult::discard(format!("physical planning: {:?}", err_class(&e))),
    };
    let mut kinds = vec![];
    physical_kinds(&plan, &mut kinds);
    let n_nodes = kinds.len();
    let mut labels: Vec<String> = kinds.iter().collect::<std::collections::BTreeSet<_>>().into_iter().map(|k| format!("op:{k}")).collect();
    labels.push(fx.source.label().into());
    labels.push(format!("variant:{vname}"));
    labels.push(format!("wire:{:?}", case.wire));
    let text0 = displayable(plan.as_ref()).indent(true).to_string();
    for marker in ["mode=Partitioned", "mode=CollectLeft", "mode=Partial", "mode=FinalPartitioned", "mode=Final,", "mode=Single", "TopK", "DynamicFilter", "preserve_order", "Hash(", "RoundRobinBatch", "predicate="] {
        if text0.contains(marker) {
            labels.push(format!("text:{}", marker.trim_end_matches(['(', ','])));
        }
    }
    let ctxt = || format!("\n  source={:?} variant={vname} wire={:?}\n  sql: {sql}\n  original plan:\n{text0}", fx.source, case.wire);

    // encode first: dynamic filters are stateful
    let bytes = match encode(plan.clone(), case.wire) {
        Ok(b) => b,
        Err(e) => return CaseResult::discard(format!("encode: {}", err_key(&e))).labels(labels).label("encode-refused"),
    };
    let original = match no_panic(exec_physical(&a.ctx, plan.clone())).await {
        None => return CaseResult::discard("original plan panics while planning / running (outside this property)"),
        Some(Ok(x)) => x,
        Some(Err(e)) => return CaseResult::discard(format!("original plan fails to run: {:?}", err_class(&e))).labels(labels),
    };
    let b = match fx.session().await {
        Ok(s) => s,
        Err(e) => return setup_failure("session B", e),
    };
    let tc = b.ctx.task_ctx();
    let back = match case.wire {
        Wire::Bytes => physical_plan_from_bytes(&bytes, &tc),
        Wire::Json => physical_plan_from_json(&String::from_utf8_lossy(&bytes), &tc),
    };
    let back = match back {
        Ok(p) => p,
        Err(e) => return CaseResult::violation(format!("plan encodes but does not decode: {}{}", err_text(&e), ctxt())).labels(labels),
    };
    let text1 = displayable(back.as_ref()).indent(true).to_string();
    if text0 != text1 {
        // normalise away the two recorded text-level findings, see what is left
        let mut tags: Vec<&'static str> = vec![];
        let (mut a, mut b) = (text0.clone(), text1.clone());
        let (sa, sb) = (strip_union_coercion_projections(&a), strip_union_coercion_projections(&b));
        if sb != b {
            tags.push("union-exec-decode-readds-coercion-projection");
            a = sa;
            b = sb;
        }
        let (pa, pb) = (strip_parquet_reorder_options(&a), strip_parquet_reorder_options(&b));
        if pa.trim_end() != a.trim_end() && pb.trim_end() == b.trim_end() {
            tags.push("parquet-source-reorder-options-dropped");
            a = pa;
            b = pb;
        }
        if a.trim_end() == b.trim_end() && !tags.is_empty() {
            return known_violation(&tags, format!("decoded plan differs in its textual form only by recorded findings: {}{}\n  decoded plan:\n{text1}", first_diff(&text0, &text1), ctxt())).labels(labels);
        }
        return CaseResult::violation(format!("decoded plan differs in its textual form: {}{}\n  decoded plan:\n{text1}", first_diff(&a, &b), ctxt())).labels(labels);
    }
    let (mut n0, mut n1) = (vec![], vec![]);
    nodes(&plan, &mut n0);
    nodes(&back, &mut n1);
    if n0.len() != n1.len() {
        return CaseResult::violation(format!("decoded plan has {} nodes, original {}{}", n1.len(), n0.len(), ctxt())).labels(labels);
    }
    for (i, (x, y)) in n0.iter().zip(&n1).enumerate() {
        let (fx0, fy0) = (node_facts(x), node_facts(y));
        let same_but_nullability = |a: &arrow::datatypes::SchemaRef, b: &arrow::datatypes::SchemaRef| {
            a.fields().len() == b.fields().len() && a.metadata() == b.metadata() && a.fields().iter().zip(b.fields().iter()).all(|(f, g)| f.name() == g.name() && f.data_type() == g.data_type() && f.metadata() == g.metadata())
        };
        if x.schema() != y.schema() && same_but_nullability(&x.schema(), &y.schema()) {
            // the statement lists structure, expressions, partitioning, ordering and options — not field nullability
            labels.push("schema-nullability-differs(not demanded)".into());
        } else if x.schema() != y.schema() {
            return CaseResult::violation(format!("node {i} ({}) schema differs after the round trip:\n  original: {}\n  decoded:  {}{}", x.name(), fx0.0, fy0.0, ctxt())).labels(labels);
        }
        if fx0.1 != fy0.1 {
            return CaseResult::violation(format!("node {i} ({}) output_partitioning differs after the round trip:\n  original: {}\n  decoded:  {}{}", x.name(), fx0.1, fy0.1, ctxt())).labels(labels);
        }
        if fx0.2 != fy0.2 {
            return CaseResult::violation(format!("node {i} ({}) output_ordering differs after the round trip:\n  original: {}\n  decoded:  {}{}", x.name(), fx0.2, fy0.2, ctxt())).labels(labels);
        }
    }
    let decoded = match exec_physical(&b.ctx, back).await {
        Ok(x) => x,
        Err(e) => return CaseResult::violation(format!("decoded plan fails to run although the original runs: {}{}", err_text(&e), ctxt())).labels(labels),
    };
    if let Some(d) = compare_rows(&case.sql.query, &field_names(&original.schema), &original.rows, &decoded.rows) {
        return CaseResult::violation(format!("decoded plan returns other rows: {d}{}", ctxt())).labels(labels);
    }
    if original.rows.is_empty() {
        labels.push("empty-result".into());
    }
    let interesting = kinds.iter().any(|k| k.contains("Join") || k.contains("Aggregate") || k.contains("Window") || k.contains("Sort"));
    CaseResult::pass().nontrivial(n_nodes >= 4 && interesting).labels(labels)
}

impl Property for C36 {
    type Case = Case;
    fn id(&self) -> &'static str {
        "C36"
    }
    fn sub(&self) -> &'static str {
        "c36"
    }
    fn strategy(&self, tier: Tier) -> BoxedStrategy<Case> {
        let nv = variants().len() as u8;
        (refsql::case_strategy(&gen_config(tier)), source_strategy(), 0u8..nv, prop_oneof![3 => Just(Wire::Bytes), 1 => Just(Wire::Json)]).prop_map(|(sql, source, variant, wire)| Case { sql, source, variant, wire }).boxed()
    }
    fn budget(&self, tier: Tier) -> Budget {
        Budget::new(tier.pick(700, 40_000), tier.pick(8, 16)).min_nontrivial(tier.pick(100, 5_000)).case_timeout(120).shrink(400, 60)
    }
    fn rule(&self) -> String {
        "refsql query (C01 grammar, deterministic) over 3 tables as MemTables or Parquet/CSV listing tables, physical plan built under one of 7 session variants, binary or JSON wire; \
         non-trivial = plan with >= 4 nodes and a join / aggregate / window / sort node; distinct by case JSON"
            .into()
    }
    fn assumptions(&self) -> Vec<String> {
        vec![
            "the decoding session has the default function registry and reads the same files; memory scans carry their data".into(),
            "displayable(..).indent(true) text + per-node schema/partitioning/ordering is the observable 'structure, expressions, partitioning, ordering and options'".into(),
            "refsql::deterministic_on decides whether the original plan's rows are a function of the input".into(),
        ]
    }
    fn known_signature(&self, case: &Case) -> Option<String> {
        signature_of("C36", "c36", case, || run_inner(case))
    }
    fn run(&self, case: &Case) -> CaseResult {
        finish("c36", case, cached("c36", case, || run_inner(case)))
    }
}

fn run_inner(case: &Case) -> CaseResult {
        if !refsql::deterministic_on(&case.sql.query, &case.sql.db()) {
            return CaseResult::discard("reference: query not deterministic on this data, or reference evaluation fails");
        }
        let vs = variants();
        let (vname, variant) = &vs[(case.variant as usize).min(vs.len() - 1)];
        let fx = match Fixture::new(&case.sql.tables, case.source, variant) {
            Ok(f) => f,
            Err(e) => return setup_failure("fixture", e),
        };
        let rt = match runtime() {
            Ok(r) => r,
            Err(e) => return setup_failure("runtime", e),
        };
        let r = rt.block_on(async { tokio::time::timeout(Duration::from_secs(40), run_async(case, &fx, vname)).await });
        rt.shutdown_timeout(Duration::from_millis(200));
        match r {
            Ok(r) => r,
            Err(_) => CaseResult::inconclusive("timeout"),
        }
    }
