//! C38 — SQL generated from a plan means the same as the plan.
//!
//! Domain: logical plans (as planned, or after the optimizer) of `refsql` queries (C01 grammar, deterministic)
//! over MemTables; `plan_to_sql` with the default dialect. Expressions: every expression of the Projection /
//! Filter nodes of the as-planned plan that contains no subquery / outer reference, through `expr_to_sql`.
//!
//! Oracle (plans): whenever `plan_to_sql` succeeds (any unparser error = discard, histogrammed), the text
//! `stmt.to_string()` must plan in a FRESH session with the same tables (`SessionContext::sql`), run, and return
//! the original plan's rows (multiset; sorted when the query orders) with logically equal column types and the
//! same number of columns. Column names are not demanded (the statement is silent).
//! Oracle (expressions): whenever `expr_to_sql(e)` succeeds, the text parses back against the schema of the
//! node's input (`SessionContext::parse_sql_expr`) and evaluating `e` and the re-parsed expression side by side
//! over the node's input gives equal values row by row (float rule of refsql::cmp). A parse failure is a
//! violation; run-time errors of the ORIGINAL expression are skipped.
//!
//! About 15 % of the cases replace the refsql query by a CAST / TRY_CAST probe query over `t0` (`CastQuery`:
//! 1-3 `[TRY_]CAST(<operand> AS <type>)` select items and an optional `WHERE (cast) IS [NOT] NULL`; operands are
//! literals that convert, literals that do not ('abc', '2024-02-30'), out-of-range numbers, NULL, booleans,
//! columns and compound expressions) — same oracle: rows and types of the re-planned text, plus the
//! expression-level side-by-side evaluation. A CAST that fails in the ORIGINAL is a discard.
//!
//! Non-trivial: generated SQL differs from the input SQL text and the plan has a join / subquery / aggregate /
//! window / set operation.
//!
//! Deviation from DESIGN.md: the other dialects ("text parses with sqlparser's matching dialect") are not
//! exercised here.
//!
//! # Recorded findings (message-shape rules in ../signatures.json — FAMILIES keyed by symptom + construct;
//! regression cases under /verif/regressions/C38/c38/)
//! as-planned plans and expressions: `expr-unparser-nested-negation-becomes-comment` (`- (- x)` → `--x`),
//! `unparser-missing-parentheses-around-predicate-operand` (`(NOT x) IS NULL` → `NOT x IS NULL`: other value),
//! `expr-unparser-identifier-quote-not-escaped`, `unparser-semi-anti-join-scoping` (also wrong rows);
//! optimized plans: `unparser-sort-fetch-overrides-limit` (wrong rows), `unparser-null-equal-join-keys-become-plain-equality`
//! (wrong rows), `unparser-empty-relation-without-rows-as-fromless-select` (wrong rows), `unparser-cross-join-with-one-row-empty-relation-drops-from`
//! (wrong rows), `unparser-empty-projection-select-from`, `unparser-typed-null-literal-becomes-untyped`,
//! `unparser-optimized-plan-sql-does-not-plan` (coarse family).
//! A plan scanning a table function is a discard (printed as a quoted table name — limitation, not demanded);
//! `NotImplemented` while re-planning / running the generated SQL is a discard.
//!
//! # Sensitivity probes (mutrun, /verif/probes/vf-serde/m4-unparser-probes.diff, quick tier, seed 0)
//! * binary expressions printed without `Nested` parentheses (`a + b * c / 7` for `(a + b) * (c / 7)`) → DETECTED:
//!   "the unparsed SQL returns other rows: multisets differ" (plans) and "expr_to_sql output does not parse back".
//! * `JoinType::Right` printed as LEFT OUTER JOIN → DETECTED: "the unparsed SQL returns other rows: row count differs".
use crate::common::*;
use datafusion::common::tree_node::{TreeNode, TreeNodeRecursion};
use datafusion::error::DataFusionError;
use datafusion::logical_expr::{Expr, LogicalPlan};
use datafusion::prelude::{DataFrame, SessionContext};
use datafusion_sql::unparser::{expr_to_sql, plan_to_sql};
use proptest::prelude::*;
use serde::{Deserialize, Serialize};
use std::time::Duration;
use vf_df::{Variant, batches_to_rows};
use vf_kit::engine::*;
use vf_kit::refsql::{self, SqlCase};

pub struct C38;

#[derive(Clone, Debug, Serialize, Deserialize)]
pub struct Case {
    pub sql: SqlCase,
    pub optimized: bool,
    /// Some = a CAST / TRY_CAST probe query over `t0` replaces `sql.query` (the refsql grammar only casts
    /// columns and total expressions): literals that convert, that do not convert, out-of-range numbers, NULL,
    /// columns and compound operands, in projection and filter position
    #[serde(default)]
    pub casts: Option<CastQuery>,
}

#[derive(Clone, Debug, Serialize, Deserialize)]
pub struct CastItem {
    pub try_: bool,
    pub operand: u8,
    pub ty: u8,
}

#[derive(Clone, Debug, Serialize, Deserialize)]
pub struct CastQuery {
    pub items: Vec<CastItem>,
    /// (cast, negated): WHERE (cast) IS [NOT] NULL
    pub filter: Option<(CastItem, bool)>,
}

const CAST_OPERANDS: [&str; 20] = ["'12'", "'abc'", "' 7'", "'1.5'", "'true'", "'2024-02-30'", "'2024-02-28'", "300", "-1", "2147483648", "1.5", "NULL", "true", "r0.a", "r0.s", "r0.f", "r0.id", "(r0.a + 300)", "r0.p", "(r0.s || 'x')"];
const CAST_TYPES: [&str; 8] = ["INT", "TINYINT", "SMALLINT", "BIGINT", "DOUBLE", "VARCHAR", "BOOLEAN", "DATE"];

fn cast_item_sql(c: &CastItem) -> String {
    let op = CAST_OPERANDS[pick_index((c.operand as u16) << 8, CAST_OPERANDS.len())];
    let ty = CAST_TYPES[pick_index((c.ty as u16) << 8, CAST_TYPES.len())];
    format!("{}({op} AS {ty})", if c.try_ { "TRY_CAST" } else { "CAST" })
}

fn cast_query_sql(q: &CastQuery) -> String {
    let mut items: Vec<String> = q.items.iter().enumerate().map(|(i, c)| format!("{} AS k{i}", cast_item_sql(c))).collect();
    items.push("r0.id AS kid".into());
    let mut sql = format!("SELECT {} FROM t0 AS r0", items.join(", "));
    if let Some((c, neg)) = &q.filter {
        sql.push_str(&format!(" WHERE (({}) IS {}NULL)", cast_item_sql(c), if *neg { "NOT " } else { "" }));
    }
    sql
}

fn cast_query_strategy() -> BoxedStrategy<CastQuery> {
    let item = || (prop::bool::weighted(0.7), any::<u8>(), any::<u8>()).prop_map(|(try_, operand, ty)| CastItem { try_, operand, ty });
    (prop::collection::vec(item(), 1..4), prop::option::of((item(), any::<bool>()))).prop_map(|(items, filter)| CastQuery { items, filter }).boxed()
}

fn has_subquery_or_outer(e: &Expr) -> bool {
    e.exists(|x| Ok(matches!(x, Expr::ScalarSubquery(_) | Expr::Exists(_) | Expr::InSubquery(_) | Expr::SetComparison(_) | Expr::OuterReferenceColumn(..) | Expr::AggregateFunction(_) | Expr::WindowFunction(_) | Expr::Placeholder(_) | Expr::GroupingSet(_) | Expr::Unnest(_)))).unwrap_or(true)
}

/// (node input, expressions) of Projection / Filter nodes
fn expr_sites(plan: &LogicalPlan) -> Vec<(LogicalPlan, Vec<Expr>)> {
    let mut out = vec![];
    let _ = plan.apply(|n| {
        match n {
            LogicalPlan::Projection(p) => out.push((p.input.as_ref().clone(), p.expr.clone())),
            LogicalPlan::Filter(f) => out.push((f.input.as_ref().clone(), vec![f.predicate.clone()])),
            _ => {}
        }
        Ok(TreeNodeRecursion::Continue)
    });
    out
}

async fn check_exprs(ctx: &SessionContext, plan: &LogicalPlan, labels: &mut Vec<String>) -> Result<usize, String> {
    let mut checked = 0;
    for (input, exprs) in expr_sites(plan) {
        // inputs with outer references cannot run alone
        let mut outer = false;
        let _ = input.apply_with_subqueries(|n| {
            if n.expressions().iter().any(|e| e.exists(|x| Ok(matches!(x, Expr::OuterReferenceColumn(..)))).unwrap_or(true)) {
                outer = true;
            }
            Ok(TreeNodeRecursion::Continue)
        });
        if outer {
            continue;
        }
        for e in exprs {
            let e = e.unalias();
            if has_subquery_or_outer(&e) || matches!(e, Expr::Column(_) | Expr::Literal(..)) {
                continue;
            }
            let ast = match expr_to_sql(&e) {
                Ok(a) => a,
                Err(_) => {
                    labels.push("expr_to_sql-refused".into());
                    continue;
                }
            };
            let text = ast.to_string();
            let back = match ctx.parse_sql_expr(&text, input.schema()) {
                Ok(b) => b,
                Err(er) => return Err(format!("expr_to_sql output does not parse back against the input schema\n  expr: {e}\n  text: {text}\n  error: {}", err_text(&er))),
            };
            let df = DataFrame::new(ctx.state(), input.clone());
            let both = match df.select(vec![e.clone().alias("x__orig"), back.clone().alias("y__back")]) {
                Ok(d) => d,
                Err(_) => {
                    // can the original alone be projected? if not, the site is unusable; otherwise the re-parsed one is at fault
                    let alone = DataFrame::new(ctx.state(), input.clone()).select(vec![e.clone().alias("x__orig")]);
                    if alone.is_err() {
                        continue;
                    }
                    match DataFrame::new(ctx.state(), input.clone()).select(vec![back.clone().alias("y__back")]) {
                        Err(er) => return Err(format!("re-parsed expression cannot be planned over the same input\n  expr: {e}\n  text: {text}\n  re-parsed: {back}\n  error: {}", err_text(&er))),
                        Ok(_) => continue,
                    }
                }
            };
            let batches = match both.collect().await {
                Ok(b) => b,
                Err(_) => {
                    // tell apart: original fails (skip) vs only the re-parsed one fails (violation)
                    let a = match DataFrame::new(ctx.state(), input.clone()).select(vec![e.clone().alias("x__orig")]) {
                        Ok(d) => d.collect().await,
                        Err(er) => Err(er),
                    };
                    if a.is_err() {
                        labels.push("expr-original-fails".into());
                        continue;
                    }
                    let b = match DataFrame::new(ctx.state(), input.clone()).select(vec![back.clone().alias("y__back")]) {
                        Ok(d) => d.collect().await,
                        Err(er) => Err(er),
                    };
                    match b {
                        Err(er) => return Err(format!("re-parsed expression fails to evaluate although the original evaluates\n  expr: {e}\n  text: {text}\n  re-parsed: {back}\n  error: {}", err_text(&er))),
                        Ok(_) => continue,
                    }
                }
            };
            for r in batches_to_rows(&batches) {
                if !refsql::value_matches(&r[0], &r[1]) {
                    return Err(format!("expression and its unparsed-then-reparsed form evaluate differently: {} vs {}\n  expr: {e}\n  text: {text}\n  re-parsed: {back}", refsql::fmt_row(&r[0..1]), refsql::fmt_row(&r[1..2])));
                }
            }
            checked += 1;
        }
    }
    Ok(checked)
}

async fn run_async(case: &Case, fx: &Fixture) -> CaseResult {
    let sql = match &case.casts {
        Some(q) => cast_query_sql(q),
        None => refsql::to_sql(&case.sql.query),
    };
    let a = match fx.session().await {
        Ok(s) => s,
        Err(e) => return setup_failure("session A", e),
    };
    let state = a.ctx.state();
    let analyzed = match state.create_logical_plan(&sql).await {
        Ok(p) => p,
        Err(e) => return CaseResult::discard(format!("planning: {:?}", err_class(&e))),
    };
    let plan = if case.optimized {
        match state.optimize(&analyzed) {
            Ok(p) => p,
            Err(e) => return CaseResult::discard(format!("optimizer: {:?}", err_class(&e))),
        }
    } else {
        analyzed.clone()
    };
    if !table_function_scans(&plan, &fx.tables).is_empty() {
        return CaseResult::discard("plan scans a table function (unparsed as a quoted table name; known limitation, not demanded)");
    }
    let original = match no_panic(exec_logical(&a.ctx, &plan)).await {
        None => return CaseResult::discard("original plan panics while planning / running (outside this property)"),
        Some(Ok(x)) => x,
        Some(Err(e)) => return CaseResult::discard(format!("original plan fails to run: {:?}", err_class(&e))),
    };
    let kinds = logical_kinds(&plan);
    let mut labels: Vec<String> = kinds.iter().map(|k| format!("node:{k}")).collect();
    labels.push(if case.optimized { "plan:optimized".into() } else { "plan:analyzed".into() });
    labels.extend(refsql::features(&case.sql.query).into_iter().map(|f| format!("sql:{f}")));

    // expressions (as-planned plan only: its Projection/Filter expressions are what users wrote)
    if !case.optimized {
        match check_exprs(&a.ctx, &analyzed, &mut labels).await {
            Ok(n) => {
                if n > 0 {
                    labels.push("exprs-checked".into());
                }
            }
            Err(m) => return CaseResult::violation(format!("{m}\n  sql: {sql}")).labels(labels).label("expr_to_sql"),
        }
    }

    let stmt = match plan_to_sql(&plan) {
        Ok(s) => s,
        Err(e) => {
            let class = match e.find_root() {
                DataFusionError::NotImplemented(_) => "not-implemented",
                DataFusionError::Internal(_) => "internal",
                _ => "other",
            };
            return CaseResult::discard(format!("unparser: {}", err_key(&e))).labels(labels).label(format!("unparser-refused:{class}"));
        }
    };
    let text = stmt.to_string();
    let ctxt = || format!("\n  optimized={}\n  sql:      {sql}\n  unparsed: {text}\n  plan:\n{}", case.optimized, plan.display_indent());
    let b = match fx.session().await {
        Ok(s) => s,
        Err(e) => return setup_failure("session B", e),
    };
    let df = match b.ctx.sql(&text).await {
        Ok(d) => d,
        Err(e) if matches!(e.find_root(), DataFusionError::NotImplemented(_)) => return CaseResult::discard(format!("re-planning the unparsed SQL: {}", err_key(&e))).labels(labels),
        Err(e) => return CaseResult::violation(format!("the unparser accepts the plan but its SQL does not plan: {}{}", err_text(&e), ctxt())).labels(labels),
    };
    let schema1: arrow::datatypes::SchemaRef = std::sync::Arc::new(df.schema().as_arrow().clone());
    let rows1 = match df.collect().await {
        Ok(bs) => batches_to_rows(&bs),
        Err(e) if matches!(e.find_root(), DataFusionError::NotImplemented(_)) => return CaseResult::discard(format!("running the unparsed SQL: {}", err_key(&e))).labels(labels),
        // engine defect reproducible without the unparser (logical `IS [NOT] TRUE` non-nullable vs physical nullable): out of scope here
        Err(e) if e.to_string().contains("Physical input schema should be the same as the one converted from logical input schema") => return CaseResult::discard("re-planned SQL hits the engine's physical/logical schema nullability mismatch (not an unparser matter)").labels(labels),
        Err(e) => return CaseResult::violation(format!("the unparsed SQL fails to run although the plan runs: {}{}", err_text(&e), ctxt())).labels(labels),
    };
    if let Some(m) = types_logically_equal(&original.schema, &schema1) {
        return CaseResult::violation(format!("output types of the unparsed SQL differ: {m}{}", ctxt())).labels(labels);
    }
    // ORDER BY refers to output names: use the original's names for both (positions are what is compared)
    let row_diff = match &case.casts {
        Some(_) => refsql::multiset_diff(&original.rows, &rows1),
        None => compare_rows(&case.sql.query, &field_names(&original.schema), &original.rows, &rows1),
    };
    if let Some(d) = row_diff {
        // recorded finding: join keys with NullEquality::NullEqualsNull (not visible in the plan text) are printed `a = b`
        let mut null_equal_join = false;
        let _ = plan.apply_with_subqueries(|n| {
            if let LogicalPlan::Join(j) = n {
                if !j.on.is_empty() && j.null_equality == datafusion::common::NullEquality::NullEqualsNull {
                    null_equal_join = true;
                }
            }
            Ok(TreeNodeRecursion::Continue)
        });
        // recorded finding: predicates (NOT / IS [NOT] x / IN / LIKE / BETWEEN) printed bare as operands of IS-tests and comparisons
        let mut bare_operand = false;
        let _ = plan.apply_with_subqueries(|n| {
            for e in n.expressions() {
                let _ = e.apply(|x| {
                    let pred = |y: &Expr| matches!(y, Expr::Not(_) | Expr::IsNull(_) | Expr::IsNotNull(_) | Expr::IsTrue(_) | Expr::IsFalse(_) | Expr::IsUnknown(_) | Expr::IsNotTrue(_) | Expr::IsNotFalse(_) | Expr::IsNotUnknown(_) | Expr::InList(_) | Expr::Like(_) | Expr::SimilarTo(_) | Expr::Between(_));
                    match x {
                        Expr::IsNull(c) | Expr::IsNotNull(c) | Expr::IsTrue(c) | Expr::IsFalse(c) | Expr::IsUnknown(c) | Expr::IsNotTrue(c) | Expr::IsNotFalse(c) | Expr::IsNotUnknown(c) if matches!(c.as_ref(), Expr::Not(_)) => bare_operand = true,
                        Expr::BinaryExpr(b) if b.op.supports_propagation() && (pred(&b.left) || pred(&b.right)) => bare_operand = true,
                        _ => {}
                    }
                    Ok(TreeNodeRecursion::Continue)
                });
            }
            Ok(TreeNodeRecursion::Continue)
        });
        if bare_operand {
            return known_violation(&["unparser-missing-parentheses-around-predicate-operand"], format!("the unparsed SQL returns other rows (plan holds a predicate as operand of an IS-test / comparison, printed without parentheses): {d}{}", ctxt())).labels(labels);
        }
        if null_equal_join && !text.contains("IS NOT DISTINCT FROM") {
            return known_violation(&["unparser-null-equal-join-keys-become-plain-equality"], format!("the unparsed SQL returns other rows (plan has a join with null-equal keys, the text has none): {d}{}", ctxt())).labels(labels);
        }
        return CaseResult::violation(format!("the unparsed SQL returns other rows: {d}{}", ctxt())).labels(labels);
    }
    if field_names(&original.schema) != field_names(&schema1) {
        labels.push("column-names-differ".into());
    }
    if original.rows.is_empty() {
        labels.push("empty-result".into());
    }
    let differs = text != sql;
    if case.casts.is_some() {
        labels.push("cast-probe".into());
        if sql.contains("TRY_CAST('") || sql.contains("TRY_CAST(3") || sql.contains("TRY_CAST(2") || sql.contains("TRY_CAST(NULL") {
            labels.push("cast-probe:try_cast-over-literal".into());
        }
    }
    CaseResult::pass().nontrivial(differs && (has_interesting_logical(&kinds) || case.casts.is_some())).labels(labels)
}

impl Property for C38 {
    type Case = Case;
    fn id(&self) -> &'static str {
        "C38"
    }
    fn sub(&self) -> &'static str {
        "c38"
    }
    fn strategy(&self, tier: Tier) -> BoxedStrategy<Case> {
        (refsql::case_strategy(&gen_config(tier)), any::<bool>(), prop::option::weighted(0.15, cast_query_strategy())).prop_map(|(sql, optimized, casts)| Case { sql, optimized, casts }).boxed()
    }
    fn budget(&self, tier: Tier) -> Budget {
        Budget::new(tier.pick(800, 60_000), tier.pick(8, 16)).min_nontrivial(tier.pick(100, 5_000)).discard_cap(0.6).case_timeout(120).shrink(400, 60)
    }
    fn rule(&self) -> String {
        "refsql query (C01 grammar, deterministic) over 3 MemTables, analyzed or optimized logical plan, plan_to_sql (default dialect) -> text -> SessionContext::sql in a fresh session; \
         plus expr_to_sql -> parse_sql_expr for the Projection/Filter expressions of the analyzed plan; \
         non-trivial = generated SQL differs from the input text and the plan has a join / subquery / aggregate / window / set operation; distinct by case JSON"
            .into()
    }
    fn assumptions(&self) -> Vec<String> {
        vec![
            "the re-planning session has the same tables registered under the same names and the default dialect/config".into(),
            "any unparser error means 'the unparser does not accept the plan'".into(),
            "refsql::deterministic_on decides whether the original plan's rows are a function of the input".into(),
        ]
    }
    fn known_signature(&self, case: &Case) -> Option<String> {
        signature_of("C38", "c38", case, || run_inner(case))
    }
    fn run(&self, case: &Case) -> CaseResult {
        finish("c38", case, cached("c38", case, || run_inner(case)))
    }
}

fn run_inner(case: &Case) -> CaseResult {
        if case.casts.is_none() && !refsql::deterministic_on(&case.sql.query, &case.sql.db()) {
            return CaseResult::discard("reference: query not deterministic on this data, or reference evaluation fails");
        }
        let fx = match Fixture::new(&case.sql.tables, Source::Mem, &Variant::default()) {
            Ok(f) => f,
            Err(e) => return setup_failure("fixture", e),
        };
        let rt = match runtime() {
            Ok(r) => r,
            Err(e) => return setup_failure("runtime", e),
        };
        let r = rt.block_on(async { tokio::time::timeout(Duration::from_secs(40), run_async(case, &fx)).await });
        rt.shutdown_timeout(Duration::from_millis(200));
        match r {
            Ok(r) => r,
            Err(_) => CaseResult::inconclusive("timeout"),
        }
    }
