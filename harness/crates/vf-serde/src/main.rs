//! vf-serde — serialization round-trip properties C35 (logical proto), C36 (physical proto),
//! C37 (Substrait), C38 (plan → SQL). Shared helpers in `common`, expression trees in `exprgen`.
mod c35;
mod c36;
mod c37;
mod c38;
mod common;
mod exprgen;

fn main() {
    vf_kit::dispatch! {
        "c35" => c35::C35,
        "c36" => c36::C36,
        "c37" => c37::C37,
        "c38" => c38::C38,
    }
}
