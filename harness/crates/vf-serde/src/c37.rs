//! C37 — the Substrait round trip preserves query results.
//!
//! Domain: logical plans (as planned, or optimized) of `refsql` queries (C01 grammar, deterministic) over the
//! case's tables (MemTables or Parquet listing tables; Substrait refers to tables by name, the consuming
//! session is a FRESH one with the same tables registered).
//!
//! Oracle: `to_substrait_plan(plan)` → protobuf bytes → `deserialize_bytes` → `from_substrait_plan` in the fresh
//! session → execute: same rows as the original plan (multiset; sorted when the query orders), same column
//! names, logically equal column types. Producer errors of any kind and consumer errors of class
//! ANY class are discards (the statement quantifies over supported plans: a refused way back means the plan is
//! not one; histogrammed by message, label `consumer-refused:plan-error` for non-NotImplemented classes, e.g.
//! `0 PRECEDING` frame bounds, LeftMark joins, joins without condition). Once `from_substrait_plan` has YIELDED a
//! plan, that plan must run and return the same rows: an error while planning / executing it is a violation.
//!
//! Non-trivial: plan has a join, aggregate, set operation, window or subquery, and the result is non-empty.
//!
//! # Recorded findings (message-shape rules in ../signatures.json — FAMILIES keyed by symptom + construct, coarser
//! than a root cause; regression cases under /verif/regressions/C37/c37/)
//! `substrait-range-frame-offset-becomes-unbounded` (wrong rows), `substrait-alias-loss-breaks-correlated-subquery`
//! (wrong rows, or the yielded plan fails in the analyzer), `substrait-consumer-self-join-alias-breaks-references`
//! (yielded plan fails), `substrait-null-aware-anti-join-flag-lost` (wrong rows). The engine's own `Physical input
//! schema should be the same ...` internal error on the consumed side is a discard (reproducible without Substrait).
//! A plan scanning a table function (generate_series) is a discard: Substrait names tables and the consuming
//! session has no such table.
//!
//! # Sensitivity probes (mutrun, /verif/probes/vf-serde/m3-substrait-probes.diff, quick tier, seed 0)
//! * producer maps `JoinType::LeftAnti` to `LeftSemi` → DETECTED: "the consumed plan returns other rows: row count
//!   differs / multisets differ".
//! * producer swaps `DescNullsFirst` / `DescNullsLast` → DETECTED: "the consumed plan returns other rows: result not
//!   sorted by the ORDER BY although the original's is".
use crate::common::*;
use datafusion::error::DataFusionError;
use datafusion_substrait::logical_plan::consumer::from_substrait_plan;
use datafusion_substrait::logical_plan::producer::to_substrait_plan;
use datafusion_substrait::serializer::deserialize_bytes;
use proptest::prelude::*;
use prost::Message;
use serde::{Deserialize, Serialize};
use std::time::Duration;
use vf_df::Variant;
use vf_kit::engine::*;
use vf_kit::refsql::{self, SqlCase};

pub struct C37;

#[derive(Clone, Debug, Serialize, Deserialize)]
pub struct Case {
    pub sql: SqlCase,
    pub source: Source,
    pub optimized: bool,
}

fn unsupported(e: &DataFusionError) -> bool {
    matches!(e.find_root(), DataFusionError::NotImplemented(_) | DataFusionError::Substrait(_))
}

async fn run_async(case: &Case, fx: &Fixture) -> CaseResult {
    let sql = refsql::to_sql(&case.sql.query);
    let a = match fx.session().await {
        Ok(s) => s,
        Err(e) => return setup_failure("session A", e),
    };
    let state = a.ctx.state();
    let mut plan = match state.create_logical_plan(&sql).await {
        Ok(p) => p,
        Err(e) => return CaseResult::discard(format!("planning: {:?}", err_class(&e))),
    };
    if case.optimized {
        plan = match state.optimize(&plan) {
            Ok(p) => p,
            Err(e) => return CaseResult::discard(format!("optimizer: {:?}", err_class(&e))),
        };
    }
    if !table_function_scans(&plan, &fx.tables).is_empty() {
        return CaseResult::discard("plan scans a table function (Substrait names tables; the consuming session has no such table)");
    }
    let original = match no_panic(exec_logical(&a.ctx, &plan)).await {
        None => return CaseResult::discard("original plan panics while planning / running (outside this property)"),
        Some(Ok(x)) => x,
        Some(Err(e)) => return CaseResult::discard(format!("original plan fails to run: {:?}", err_class(&e))),
    };
    let kinds = logical_kinds(&plan);
    let mut labels: Vec<String> = kinds.iter().map(|k| format!("node:{k}")).collect();
    labels.push(fx.source.label().into());
    labels.push(if case.optimized { "plan:optimized".into() } else { "plan:analyzed".into() });
    labels.extend(refsql::features(&case.sql.query).into_iter().map(|f| format!("sql:{f}")));

    let sp = match to_substrait_plan(&plan, &state) {
        Ok(p) => p,
        Err(e) => return CaseResult::discard(format!("producer: {}", err_key(&e))).labels(labels).label("producer-refused"),
    };
    let bytes = sp.encode_to_vec();
    let ctxt = || format!("\n  source={:?} optimized={}\n  sql: {sql}\n  original plan:\n{}", fx.source, case.optimized, plan.display_indent());
    let sp2 = match deserialize_bytes(&bytes) {
        Ok(p) => p,
        Err(e) => return CaseResult::violation(format!("Substrait plan bytes do not decode: {}{}", err_text(&e), ctxt())).labels(labels),
    };
    let b = match fx.session().await {
        Ok(s) => s,
        Err(e) => return setup_failure("session B", e),
    };
    let back = match from_substrait_plan(&b.ctx.state(), &sp2).await {
        Ok(p) => p,
        // the statement speaks about SUPPORTED plans: when the way back is refused (any error class) the plan is not one
        Err(e) => {
            let class = if unsupported(&e) { "consumer-refused" } else { "consumer-refused:plan-error" };
            let key: String = err_key(&e).chars().take(48).collect();
            return CaseResult::discard(format!("consumer: {key}")).labels(labels).label(class);
        }
    };
    let ctxt2 = || format!("{}\n  consumed plan:\n{}", ctxt(), back.display_indent());
    let decoded = match exec_logical(&b.ctx, &back).await {
        Ok(x) => x,
        Err(e) if matches!(e.find_root(), DataFusionError::NotImplemented(_)) => return CaseResult::discard(format!("consumed plan not executable: {}", err_key(&e))).labels(labels),
        // engine defect reproducible without Substrait (SingleDistinctToGroupBy + `IS TRUE` nullability): out of scope here
        Err(e) if e.to_string().contains("Physical input schema should be the same as the one converted from logical input schema") => return CaseResult::discard("consumed plan hits the engine's physical/logical schema nullability mismatch (not a Substrait matter)").labels(labels),
        Err(e) => return CaseResult::violation(format!("the consumed plan fails to run although the original runs: {}{}", err_text(&e), ctxt2())).labels(labels),
    };
    let (n0, n1) = (field_names(&original.schema), field_names(&decoded.schema));
    if n0 != n1 {
        return CaseResult::violation(format!("column names differ after the round trip: {n0:?} vs {n1:?}{}", ctxt2())).labels(labels);
    }
    if let Some(m) = types_logically_equal(&original.schema, &decoded.schema) {
        return CaseResult::violation(format!("output types differ after the round trip: {m}{}", ctxt2())).labels(labels);
    }
    if let Some(d) = compare_rows(&case.sql.query, &n0, &original.rows, &decoded.rows) {
        return CaseResult::violation(format!("the consumed plan returns other rows: {d}{}", ctxt2())).labels(labels);
    }
    if original.rows.is_empty() {
        labels.push("empty-result".into());
    }
    CaseResult::pass().nontrivial(has_interesting_logical(&kinds) && !original.rows.is_empty()).labels(labels)
}

impl Property for C37 {
    type Case = Case;
    fn id(&self) -> &'static str {
        "C37"
    }
    fn sub(&self) -> &'static str {
        "c37"
    }
    fn strategy(&self, tier: Tier) -> BoxedStrategy<Case> {
        (refsql::case_strategy(&gen_config(tier)), prop_oneof![4 => Just(Source::Mem), 1 => Just(Source::Parquet)], any::<bool>()).prop_map(|(sql, source, optimized)| Case { sql, source, optimized }).boxed()
    }
    fn budget(&self, tier: Tier) -> Budget {
        Budget::new(tier.pick(700, 40_000), tier.pick(8, 16)).min_nontrivial(tier.pick(60, 3_000)).discard_cap(0.7).case_timeout(120).shrink(400, 60)
    }
    fn rule(&self) -> String {
        "refsql query (C01 grammar, deterministic) over 3 tables (MemTables or Parquet listing tables), analyzed or optimized logical plan, through to_substrait_plan -> bytes -> from_substrait_plan in a fresh session; \
         non-trivial = plan has a join / aggregate / set operation / window / subquery and a non-empty result; distinct by case JSON"
            .into()
    }
    fn assumptions(&self) -> Vec<String> {
        vec![
            "the consuming session has the same tables registered under the same names".into(),
            "a plan is 'supported' when the producer accepts it and the consumer does not answer NotImplemented / Substrait-error".into(),
            "refsql::deterministic_on decides whether the original plan's rows are a function of the input".into(),
        ]
    }
    fn known_signature(&self, case: &Case) -> Option<String> {
        signature_of("C37", "c37", case, || run_inner(case))
    }
    fn run(&self, case: &Case) -> CaseResult {
        finish("c37", case, cached("c37", case, || run_inner(case)))
    }
}

fn run_inner(case: &Case) -> CaseResult {
        if !refsql::deterministic_on(&case.sql.query, &case.sql.db()) {
            return CaseResult::discard("reference: query not deterministic on this data, or reference evaluation fails");
        }
        let fx = match Fixture::new(&case.sql.tables, case.source, &Variant::default()) {
            Ok(f) => f,
            Err(e) => return setup_failure("fixture", e),
        };
        let rt = match runtime() {
            Ok(r) => r,
            Err(e) => return setup_failure("runtime", e),
        };
        let r = rt.block_on(async { tokio::time::timeout(Duration::from_secs(40), run_async(case, &fx)).await });
        rt.shutdown_timeout(Duration::from_millis(200));
        match r {
            Ok(r) => r,
            Err(_) => CaseResult::inconclusive("timeout"),
        }
    }
