//! Shared helpers of the serialization round-trip checks C35–C38.
//!
//! * [`gen_config`] — the `refsql` generator configuration used by all four checks (deterministic source:
//!   no deliberate top-k over ties, no unguarded division; every case is additionally filtered with the
//!   dynamic `refsql::deterministic_on`, so that "the original plan's rows" is a function of the input).
//! * [`Fixture`] — the tables of a case materialised for a [`Source`]: MemTables, or listing tables over
//!   Parquet / CSV files written into a per-case temp dir. [`Fixture::session`] builds a FRESH
//!   `SessionContext` (fresh `RuntimeEnv`) with the tables registered under their names; the encoding and
//!   the decoding side of a round trip each get their own session.
//! * [`NameCodec`] — `LogicalExtensionCodec` that encodes a MemTable scan as the table name and resolves
//!   the name among the providers of the decoding session (anything else: `NotImplemented`).
//! * execution and comparison: [`exec_logical`], [`exec_physical`], [`compare_rows`] (multiset equality with
//!   the float rule of `refsql::cmp`, plus sortedness w.r.t. the top-level ORDER BY when the query orders —
//!   exactly what ORDER BY promises; ties on equal keys may legitimately come in another order).
use arrow::datatypes::SchemaRef;
use datafusion::catalog::TableProvider;
use datafusion::common::tree_node::TreeNodeRecursion;
use datafusion::common::{DFSchema, TableReference, not_impl_err};
use datafusion::datasource::MemTable;
use datafusion::error::{DataFusionError, Result as DfResult};
use datafusion::execution::TaskContext;
use datafusion::logical_expr::{Extension, LogicalPlan};
use datafusion::physical_plan::ExecutionPlan;
use datafusion::prelude::{CsvReadOptions, DataFrame, ParquetReadOptions, SessionContext};
use datafusion_proto::logical_plan::LogicalExtensionCodec;
use proptest::prelude::*;
use serde::{Deserialize, Serialize};
use std::collections::{BTreeSet, HashMap};
use std::sync::Arc;
use vf_df::{ErrClass, StrEncoding, Variant, batches_to_rows, classify_error, table_to_batches};
use vf_kit::engine::{CaseResult, Tier, truncate};
use vf_kit::refsql::{self, GenConfig, Query, Table, Value};

#[derive(Clone, Copy, Debug, PartialEq, Eq, Serialize, Deserialize)]
pub enum Source {
    Mem,
    Parquet,
    Csv,
}

impl Source {
    pub fn label(self) -> &'static str {
        match self {
            Source::Mem => "source:mem",
            Source::Parquet => "source:parquet",
            Source::Csv => "source:csv",
        }
    }
}

pub fn source_strategy() -> BoxedStrategy<Source> {
    prop_oneof![3 => Just(Source::Mem), 2 => Just(Source::Parquet), 1 => Just(Source::Csv)].boxed()
}

pub fn gen_config(tier: Tier) -> GenConfig {
    let mut cfg = GenConfig::standard(3, tier.pick(8, 24), tier.pick(2, 3));
    cfg.tape_len = tier.pick(400, 700);
    cfg.topk_ties = false;
    cfg.unguarded_div_pct = 0;
    cfg
}

/// What went wrong while setting a case up (never a verdict about the engine).
pub fn setup_failure(what: &str, e: impl std::fmt::Display) -> CaseResult {
    CaseResult::inconclusive(format!("setup: {what}: {}", truncate(&e.to_string(), 200)))
}

pub fn err_class(e: &DataFusionError) -> ErrClass {
    classify_error(e)
}

pub fn err_text(e: &DataFusionError) -> String {
    truncate(&e.strip_backtrace(), 1200)
}

/// short, digit-free key of an error message for discard histograms
pub fn err_key(e: &DataFusionError) -> String {
    let t = e.strip_backtrace();
    let t = t.lines().next().unwrap_or("").to_string();
    truncate(&t, 90)
}

// ---------------------------------------------------------------------------------------------
// fixture

pub struct Fixture {
    pub tables: Vec<Table>,
    pub source: Source,
    pub variant: Variant,
    dir: Option<tempfile::TempDir>,
}

pub struct Session {
    pub ctx: SessionContext,
    pub providers: HashMap<String, Arc<dyn TableProvider>>,
}

const CSV_NULL: &str = "\\N";
const CSV_NULL_REGEX: &str = "^\\\\N$";

impl Fixture {
    pub fn new(tables: &[Table], source: Source, variant: &Variant) -> Result<Fixture, String> {
        let mut fx = Fixture { tables: tables.to_vec(), source, variant: variant.clone(), dir: None };
        if source == Source::Mem {
            return Ok(fx);
        }
        let dir = tempfile::tempdir().map_err(|e| e.to_string())?;
        for t in tables {
            let tdir = dir.path().join(&t.name);
            std::fs::create_dir_all(&tdir).map_err(|e| e.to_string())?;
            let (schema, batches) = table_to_batches(t, StrEncoding::Utf8, variant.batch_rows)?;
            let nfiles = variant.mem_partitions.max(1);
            let mut parts: Vec<Vec<arrow::record_batch::RecordBatch>> = vec![vec![]; nfiles];
            for (i, b) in batches.into_iter().enumerate() {
                parts[i % nfiles].push(b);
            }
            for (i, part) in parts.iter().enumerate() {
                if part.is_empty() && i > 0 {
                    continue;
                }
                match source {
                    Source::Parquet => {
                        let f = std::fs::File::create(tdir.join(format!("part-{i}.parquet"))).map_err(|e| e.to_string())?;
                        let mut w = datafusion::parquet::arrow::ArrowWriter::try_new(f, schema.clone(), None).map_err(|e| e.to_string())?;
                        for b in part {
                            w.write(b).map_err(|e| e.to_string())?;
                        }
                        w.close().map_err(|e| e.to_string())?;
                    }
                    Source::Csv => {
                        let f = std::fs::File::create(tdir.join(format!("part-{i}.csv"))).map_err(|e| e.to_string())?;
                        let mut w = arrow::csv::WriterBuilder::new().with_header(true).with_null(CSV_NULL.to_string()).build(f);
                        if part.is_empty() {
                            let empty = arrow::record_batch::RecordBatch::new_empty(schema.clone());
                            w.write(&empty).map_err(|e| e.to_string())?;
                        }
                        for b in part {
                            w.write(b).map_err(|e| e.to_string())?;
                        }
                    }
                    Source::Mem => {}
                }
            }
        }
        fx.dir = Some(dir);
        Ok(fx)
    }

    pub fn table_dir(&self, name: &str) -> String {
        match &self.dir {
            Some(d) => format!("{}/{}/", d.path().display(), name),
            None => String::new(),
        }
    }

    /// A fresh session (fresh context and runtime env) with every table registered under its name.
    pub async fn session(&self) -> Result<Session, String> {
        let ctx = vf_df::build_context(&self.variant, |b| b).map_err(|e| e.to_string())?;
        for t in &self.tables {
            let schema = vf_df::schema_of(&t.cols, StrEncoding::Utf8);
            match self.source {
                Source::Mem => {
                    let mt = vf_df::mem_table(t, &self.variant)?;
                    ctx.register_table(t.name.as_str(), Arc::new(mt)).map_err(|e| e.to_string())?;
                }
                Source::Parquet => {
                    ctx.register_parquet(t.name.as_str(), self.table_dir(&t.name), ParquetReadOptions::new().schema(&schema)).await.map_err(|e| e.to_string())?;
                }
                Source::Csv => {
                    let opts = CsvReadOptions::new().schema(&schema).has_header(true).null_regex(Some(CSV_NULL_REGEX.to_string()));
                    ctx.register_csv(t.name.as_str(), self.table_dir(&t.name), opts).await.map_err(|e| e.to_string())?;
                }
            }
        }
        let mut providers = HashMap::new();
        for t in &self.tables {
            let p = ctx.table_provider(t.name.as_str()).await.map_err(|e| e.to_string())?;
            providers.insert(t.name.clone(), p);
        }
        Ok(Session { ctx, providers })
    }
}

// ---------------------------------------------------------------------------------------------
// codec

/// MemTable scans travel as the table name; the decoding side resolves the name among its own providers.
#[derive(Debug)]
pub struct NameCodec {
    pub providers: HashMap<String, Arc<dyn TableProvider>>,
}

impl LogicalExtensionCodec for NameCodec {
    fn try_decode(&self, _buf: &[u8], _inputs: &[LogicalPlan], _ctx: &TaskContext) -> DfResult<Extension> {
        not_impl_err!("NameCodec: no extension nodes")
    }
    fn try_encode(&self, _node: &Extension, _buf: &mut Vec<u8>) -> DfResult<()> {
        not_impl_err!("NameCodec: no extension nodes")
    }
    fn try_decode_table_provider(&self, buf: &[u8], _table_ref: &TableReference, _schema: SchemaRef, _ctx: &TaskContext) -> DfResult<Arc<dyn TableProvider>> {
        let name = String::from_utf8_lossy(buf).to_string();
        match self.providers.get(&name) {
            Some(p) => Ok(p.clone()),
            None => Err(DataFusionError::Execution(format!("NameCodec: table '{name}' is not registered in the decoding session"))),
        }
    }
    fn try_encode_table_provider(&self, table_ref: &TableReference, node: Arc<dyn TableProvider>, buf: &mut Vec<u8>) -> DfResult<()> {
        if !node.is::<MemTable>() {
            return not_impl_err!("NameCodec: table provider of '{}' is not a MemTable", table_ref.table());
        }
        buf.extend_from_slice(table_ref.table().as_bytes());
        Ok(())
    }
}

// ---------------------------------------------------------------------------------------------
// execution

pub struct Exec {
    pub schema: SchemaRef,
    pub rows: Vec<Vec<Value>>,
}

pub async fn exec_logical(ctx: &SessionContext, plan: &LogicalPlan) -> DfResult<Exec> {
    let df = DataFrame::new(ctx.state(), plan.clone());
    let schema: SchemaRef = Arc::new(df.schema().as_arrow().clone());
    let batches = df.collect().await?;
    Ok(Exec { schema, rows: batches_to_rows(&batches) })
}

pub async fn exec_physical(ctx: &SessionContext, plan: Arc<dyn ExecutionPlan>) -> DfResult<Exec> {
    let schema = plan.schema();
    let batches = datafusion::physical_plan::collect(plan, ctx.task_ctx()).await?;
    Ok(Exec { schema, rows: batches_to_rows(&batches) })
}

/// None = `got` is an acceptable rendering of `expected`: equal as multisets and, when the query has a
/// top-level ORDER BY under which `expected` itself is sorted, `got` is sorted too.
pub fn compare_rows(query: &Query, names: &[String], expected: &[Vec<Value>], got: &[Vec<Value>]) -> Option<String> {
    if let Some(d) = refsql::multiset_diff(expected, got) {
        return Some(d);
    }
    if !query.order_by.is_empty() && refsql::sortedness_violation(names, expected, &query.order_by).is_none() {
        if let Some(v) = refsql::sortedness_violation(names, got, &query.order_by) {
            return Some(format!("result not sorted by the ORDER BY although the original's is: {v}\n  original: {}\n  got:      {}", refsql::fmt_rows(expected, 30), refsql::fmt_rows(got, 30)));
        }
    }
    None
}

pub fn field_names(schema: &SchemaRef) -> Vec<String> {
    schema.fields().iter().map(|f| f.name().clone()).collect()
}

/// output types logically equal (Utf8 ~ LargeUtf8 ~ Utf8View, dictionary ~ value type, …), position by position
pub fn types_logically_equal(a: &SchemaRef, b: &SchemaRef) -> Option<String> {
    if a.fields().len() != b.fields().len() {
        return Some(format!("{} columns vs {}", a.fields().len(), b.fields().len()));
    }
    for (i, (x, y)) in a.fields().iter().zip(b.fields().iter()).enumerate() {
        if !DFSchema::datatype_is_logically_equal(x.data_type(), y.data_type()) {
            return Some(format!("column {i} ({}): {} vs {}", x.name(), x.data_type(), y.data_type()));
        }
    }
    None
}

// ---------------------------------------------------------------------------------------------
// plan shapes

pub fn logical_kind(n: &LogicalPlan) -> String {
    let d = format!("{}", n.display());
    let head = d.split(':').next().unwrap_or("").trim();
    let head: String = head.chars().take(28).collect();
    if head.is_empty() { "?".into() } else { head }
}

pub fn logical_kinds(plan: &LogicalPlan) -> BTreeSet<String> {
    let mut kinds = BTreeSet::new();
    let _ = plan.apply_with_subqueries(|n| {
        kinds.insert(logical_kind(n));
        Ok(TreeNodeRecursion::Continue)
    });
    kinds
}

pub fn logical_node_count(plan: &LogicalPlan) -> usize {
    let mut n = 0;
    let _ = plan.apply_with_subqueries(|_| {
        n += 1;
        Ok(TreeNodeRecursion::Continue)
    });
    n
}

pub fn physical_kinds(plan: &Arc<dyn ExecutionPlan>, out: &mut Vec<String>) {
    out.push(plan.name().to_string());
    for c in plan.children() {
        physical_kinds(c, out);
    }
}

pub fn has_interesting_logical(kinds: &BTreeSet<String>) -> bool {
    kinds.iter().any(|k| k.contains("Join") || k == "Aggregate" || k == "WindowAggr" || k == "Union" || k.starts_with("Subquery") || k == "RecursiveQuery" || k.starts_with("Distinct"))
}

pub fn runtime() -> Result<tokio::runtime::Runtime, std::io::Error> {
    tokio::runtime::Builder::new_current_thread().enable_all().build()
}

// ---------------------------------------------------------------------------------------------
// known findings, per-thread result cache, survey mode

/// A violation whose only causes are recorded findings: the message starts with `[known:a,b] `.
pub fn known_violation(tags: &[&'static str], detail: String) -> CaseResult {
    let mut t: Vec<&str> = tags.to_vec();
    t.sort();
    t.dedup();
    CaseResult::violation(format!("[known:{}] {detail}", t.join(",")))
}

pub fn known_tags(r: &CaseResult) -> Vec<String> {
    if let vf_kit::engine::Outcome::Violation(m) = &r.outcome {
        if let Some(rest) = m.strip_prefix("[known:") {
            if let Some(end) = rest.find(']') {
                return rest[..end].split(',').map(|s| s.to_string()).collect();
            }
        }
    }
    vec![]
}

fn open_signatures(id: &str) -> Vec<String> {
    static ALL: std::sync::OnceLock<Vec<(String, String)>> = std::sync::OnceLock::new();
    let all = ALL.get_or_init(|| {
        let mut out = vec![];
        let path = vf_kit::engine::verif_root().join("known_findings.json");
        if let Ok(text) = std::fs::read_to_string(path) {
            if let Ok(v) = serde_json::from_str::<serde_json::Value>(&text) {
                for e in v.get("findings").and_then(|f| f.as_array()).cloned().unwrap_or_default() {
                    if e.get("status").and_then(|x| x.as_str()) == Some("open") {
                        if let (Some(p), Some(s)) = (e.get("property").and_then(|x| x.as_str()), e.get("signature").and_then(|x| x.as_str())) {
                            out.push((p.to_string(), s.to_string()));
                        }
                    }
                }
            }
        }
        out
    });
    all.iter().filter(|(p, _)| p == id).map(|(_, s)| s.clone()).collect()
}

#[derive(Clone, Debug, Deserialize)]
struct Rule {
    property: String,
    signature: String,
    /// every one of these must occur in the HEAD of the message: the first line and its continuation lines
    /// (error text, expected/got, expr/text lines) up to — not including — the echoed `sql:` line
    #[serde(default)]
    head: Vec<String>,
    /// at least one of these must occur in the head (when non-empty)
    #[serde(default)]
    head_any: Vec<String>,
    /// every one of these must occur in the printed PLAN(S) (text after the first `plan:` line)
    #[serde(default)]
    plan: Vec<String>,
    /// at least one of these must occur in the printed plan(s) (when non-empty)
    #[serde(default)]
    plan_any: Vec<String>,
    /// all of these must occur together in ONE line of the printed plan(s)
    #[serde(default)]
    plan_line: Vec<String>,
}

/// Message-shape rules (`crates/vf-serde/signatures.json`): recorded findings recognised by the symptom in the
/// head of the violation message plus a construct of the printed plan (first matching rule wins). The echoed
/// SQL / unparsed SQL text is never looked at.
fn rules() -> &'static Vec<Rule> {
    static RULES: std::sync::OnceLock<Vec<Rule>> = std::sync::OnceLock::new();
    RULES.get_or_init(|| {
        let path = vf_kit::engine::verif_root().join("harness/crates/vf-serde/signatures.json");
        match std::fs::read_to_string(&path) {
            Ok(t) => match serde_json::from_str::<Vec<Rule>>(&t) {
                Ok(r) => r,
                Err(e) => {
                    eprintln!("warning: {} does not parse: {e}", path.display());
                    vec![]
                }
            },
            Err(_) => vec![],
        }
    })
}

/// (head, plans) of a violation message
fn message_sections(msg: &str) -> (String, String) {
    let mut head = String::new();
    let mut rest_at = msg.len();
    let mut pos = 0;
    for line in msg.split_inclusive('\n') {
        let t = line.trim_start();
        if t.starts_with("sql:") || t.starts_with("unparsed:") || t.ends_with("plan:\n") || t.trim_end().ends_with("plan:") {
            rest_at = pos;
            break;
        }
        head.push_str(line);
        pos += line.len();
    }
    let rest = &msg[rest_at.min(msg.len())..];
    let plans = match rest.find("plan:\n") {
        Some(i) => rest[i + 6..].to_string(),
        None => String::new(),
    };
    (head, plans)
}

fn rule_signature(id: &str, msg: &str) -> Option<String> {
    let (head, plans) = message_sections(msg);
    rules()
        .iter()
        .find(|r| {
            r.property == id
                && (!r.head.is_empty() || !r.head_any.is_empty())
                && r.head.iter().all(|s| head.contains(s.as_str()))
                && (r.head_any.is_empty() || r.head_any.iter().any(|s| head.contains(s.as_str())))
                && r.plan.iter().all(|s| plans.contains(s.as_str()))
                && (r.plan_any.is_empty() || r.plan_any.iter().any(|s| plans.contains(s.as_str())))
                && (r.plan_line.is_empty() || plans.lines().any(|l| r.plan_line.iter().all(|s| l.contains(s.as_str()))))
        })
        .map(|r| r.signature.clone())
}

/// The signature the engine matches against known_findings.json. Tagged violations (`[known:a,b]`): the first
/// tag when every tag is still open (a case showing two recorded findings is excluded while both are open),
/// otherwise a tag that is no longer open (→ the engine reports the case). Untagged violations: the first
/// matching message-shape rule. Everything else: none.
pub fn pick_signature(id: &str, r: &CaseResult) -> Option<String> {
    let tags = known_tags(r);
    if tags.is_empty() {
        if let vf_kit::engine::Outcome::Violation(m) = &r.outcome {
            return rule_signature(id, m);
        }
        return None;
    }
    let open = open_signatures(id);
    if tags.iter().all(|t| open.contains(t)) {
        // every cause is an open finding: excluded through the first one
        Some(tags[0].clone())
    } else {
        // some cause is no longer open: surface it (it is not in the engine's known set → reported)
        tags.iter().find(|t| !open.contains(t)).cloned()
    }
}

thread_local! {
    static LAST: std::cell::RefCell<Option<(u64, CaseResult)>> = const { std::cell::RefCell::new(None) };
}

/// `known_signature` and `run` see the same case back to back on the same thread: run it once.
pub fn cached<C: Serialize>(sub: &str, case: &C, f: impl FnOnce() -> CaseResult) -> CaseResult {
    let mut key_src = serde_json::to_vec(case).unwrap_or_default();
    key_src.extend_from_slice(sub.as_bytes());
    let key = vf_kit::engine::fnv1a(&key_src);
    if let Some(hit) = LAST.with(|c| c.borrow().as_ref().filter(|(k, _)| *k == key).map(|(_, r)| r.clone())) {
        return hit;
    }
    let r = f();
    LAST.with(|c| *c.borrow_mut() = Some((key, r.clone())));
    r
}

/// `known_signature` body: never lets a panic of the code under test escape (the engine calls it outside its
/// panic guard); the subsequent `run` re-executes the case under the guard.
pub fn signature_of<C: Serialize>(id: &str, sub: &str, case: &C, f: impl FnOnce() -> CaseResult) -> Option<String> {
    match std::panic::catch_unwind(std::panic::AssertUnwindSafe(|| cached(sub, case, f))) {
        Ok(r) => pick_signature(id, &r),
        Err(_) => None,
    }
}

/// Development aid: with `VF_SERDE_SURVEY=<dir>` set, violations do not stop the run; they are counted as
/// inconclusive under their first line and the first full message per class is written to `<dir>`.
pub fn finish<C: Serialize>(sub: &str, case: &C, r: CaseResult) -> CaseResult {
    let Some(dir) = std::env::var_os("VF_SERDE_SURVEY") else { return r };
    let vf_kit::engine::Outcome::Violation(m) = &r.outcome else { return r };
    let first = m.lines().next().unwrap_or("");
    let id = sub[..3].to_uppercase();
    let key: String = match rule_signature(&id, m) {
        Some(sig) if !first.starts_with("[known:") => format!("[rule:{sig}]"),
        _ => first.chars().filter(|c| !c.is_ascii_digit()).take(110).collect(),
    };
    let dir = std::path::PathBuf::from(dir);
    let _ = std::fs::create_dir_all(&dir);
    for i in 0..3 {
        let path = dir.join(format!("{sub}-{:016x}-{i}.txt", vf_kit::engine::fnv1a(key.as_bytes())));
        if !path.exists() {
            let _ = std::fs::write(&path, format!("{m}\n\nCASE:\n{}\n", serde_json::to_string(case).unwrap_or_default()));
            break;
        }
    }
    let mut out = CaseResult::inconclusive(format!("SURVEY {key}"));
    out.labels = r.labels.clone();
    out
}

/// plan text with nested `Union` lines folded into their parent `Union` (what EliminateNestedUnion produces)
pub fn flatten_unions(text: &str) -> String {
    let lines: Vec<&str> = text.lines().collect();
    let indent = |l: &str| l.len() - l.trim_start().len();
    let is_union = |l: &str| {
        let t = l.trim_start();
        t == "Union" || t.starts_with("Union [")
    };
    // stack of (indent of a Union line as printed, shift applied below it)
    let mut out: Vec<String> = vec![];
    let mut stack: Vec<(usize, usize, bool)> = vec![]; // (orig indent, shift for children, is union)
    for l in lines {
        let ind = indent(l);
        while let Some(&(i, _, _)) = stack.last() {
            if i >= ind { stack.pop(); } else { break; }
        }
        let (parent_shift, parent_is_union) = stack.last().map(|&(_, s, u)| (s, u)).unwrap_or((0, false));
        if is_union(l) && parent_is_union {
            // drop this line; its children move up by one level (2 spaces)
            stack.push((ind, parent_shift + 2, true));
            continue;
        }
        let new_ind = ind.saturating_sub(parent_shift);
        out.push(format!("{}{}", " ".repeat(new_ind), l.trim_start()));
        stack.push((ind, parent_shift, is_union(l)));
    }
    out.join("\n")
}

/// the table-function scans of a plan (TableScan whose name is not one of the registered tables)
pub fn table_function_scans(plan: &LogicalPlan, tables: &[Table]) -> Vec<String> {
    let mut out = vec![];
    let _ = plan.apply_with_subqueries(|n| {
        if let LogicalPlan::TableScan(ts) = n {
            let name = ts.table_name.table().to_string();
            if !tables.iter().any(|t| t.name == name) {
                out.push(name);
            }
        }
        Ok(TreeNodeRecursion::Continue)
    });
    out
}

/// first pair of lines in which two plan texts differ (trimmed, shortened) — puts the cause into the first
/// line of a violation message
pub fn first_diff(a: &str, b: &str) -> String {
    let (la, lb): (Vec<&str>, Vec<&str>) = (a.lines().collect(), b.lines().collect());
    for i in 0..la.len().max(lb.len()) {
        let (x, y) = (la.get(i).copied().unwrap_or("<end>").trim(), lb.get(i).copied().unwrap_or("<end>").trim());
        if x != y {
            // node name + the region around the first differing character
            let (cx, cy): (Vec<char>, Vec<char>) = (x.chars().collect(), y.chars().collect());
            let mut k = 0;
            while k < cx.len() && k < cy.len() && cx[k] == cy[k] {
                k += 1;
            }
            let name = |c: &Vec<char>| -> String { c.iter().take_while(|ch| **ch != ':' && **ch != ' ').collect() };
            let around = |c: &Vec<char>| -> String {
                let from = k.saturating_sub(48);
                let part: String = c.iter().skip(from).take(130).collect();
                if from > 0 { format!("…{part}") } else { part }
            };
            return format!("[{}] `{}` => [{}] `{}`", name(&cx), around(&cx), name(&cy), around(&cy));
        }
    }
    "<no line differs>".into()
}

/// Run a future of the code under test on the ORIGINAL side of a round trip: a panic there is outside these
/// properties (the plan never gets to the round trip) and becomes `None`.
pub async fn no_panic<T>(f: impl std::future::Future<Output = T>) -> Option<T> {
    use futures::FutureExt;
    std::panic::AssertUnwindSafe(f).catch_unwind().await.ok()
}

/// Does the plan hold a Union whose stored schema differs from the one `Union::try_new_with_loose_types`
/// derives from its inputs (what the decoder does)? The optimizer keeps the original schema when it drops
/// or rewrites branches.
pub fn union_schema_drift(plan: &LogicalPlan) -> bool {
    let mut drift = false;
    let _ = plan.apply_with_subqueries(|n| {
        if let LogicalPlan::Union(u) = n {
            match datafusion::logical_expr::Union::try_new_with_loose_types(u.inputs.clone()) {
                Ok(d) => {
                    if d.schema != u.schema {
                        drift = true;
                    }
                }
                Err(_) => drift = true,
            }
        }
        Ok(TreeNodeRecursion::Continue)
    });
    drift
}

/// `UnionExec::try_new` (used by the decoder) wraps every child whose schema differs from the union schema in a
/// coercing `ProjectionExec: expr=[k0@0 as k0, CAST(k1@1 AS T) as k1, ..]` (recorded finding
/// `union-exec-decode-readds-coercion-projection`). This removes exactly such lines (direct children of a
/// UnionExec / InterleaveExec line, every item a column or a CAST of a column kept under its own name) from an
/// indented plan text and moves their subtrees up.
pub fn strip_union_coercion_projections(text: &str) -> String {
    fn is_coercion(line: &str) -> bool {
        let t = line.trim();
        let Some(body) = t.strip_prefix("ProjectionExec: expr=[").and_then(|r| r.strip_suffix(']')) else { return false };
        if body.is_empty() {
            return false;
        }
        body.split(", ").all(|item| {
            let Some((lhs, name)) = item.rsplit_once(" as ") else { return false };
            let col = match lhs.strip_prefix("CAST(") {
                Some(r) => match r.split_once(" AS ") {
                    Some((c, ty)) if ty.ends_with(')') && !ty.contains(' ') => c,
                    _ => return false,
                },
                None => lhs,
            };
            match col.rsplit_once('@') {
                Some((n, idx)) => n == name && !idx.is_empty() && idx.chars().all(|c| c.is_ascii_digit()),
                None => false,
            }
        })
    }
    let indent = |l: &str| l.len() - l.trim_start().len();
    let lines: Vec<&str> = text.lines().collect();
    let mut out: Vec<String> = vec![];
    // stack of (original indent, is union, shift applied to children)
    let mut stack: Vec<(usize, bool, usize)> = vec![];
    for l in lines {
        if l.trim().is_empty() {
            out.push(l.to_string());
            continue;
        }
        let ind = indent(l);
        while let Some(&(i, _, _)) = stack.last() {
            if i >= ind { stack.pop(); } else { break; }
        }
        let (parent_union, parent_shift) = stack.last().map(|&(_, u, s)| (u, s)).unwrap_or((false, 0));
        if parent_union && is_coercion(l) {
            stack.push((ind, true, parent_shift + 2));
            continue;
        }
        let t = l.trim_start();
        let is_union = t.starts_with("UnionExec") || t.starts_with("InterleaveExec");
        out.push(format!("{}{}", " ".repeat(ind.saturating_sub(parent_shift)), t));
        stack.push((ind, is_union, parent_shift));
    }
    out.join("\n")
}

/// plan text without ParquetSource's `sort_order_for_reorder=[..]` / `reverse_row_groups=true` options (recorded
/// finding `parquet-source-reorder-options-dropped`: they are not encoded)
pub fn strip_parquet_reorder_options(text: &str) -> String {
    let mut out = String::new();
    for line in text.lines() {
        let mut l = line.to_string();
        while let Some(i) = l.find(", sort_order_for_reorder=[") {
            let start = i + ", sort_order_for_reorder=[".len();
            let mut depth = 1;
            let mut end = l.len();
            for (k, ch) in l[start..].char_indices() {
                match ch {
                    '[' => depth += 1,
                    ']' => {
                        depth -= 1;
                        if depth == 0 {
                            end = start + k + 1;
                            break;
                        }
                    }
                    _ => {}
                }
            }
            l.replace_range(i..end, "");
        }
        l = l.replace(", reverse_row_groups=true", "");
        out.push_str(&l);
        out.push('\n');
    }
    out
}
