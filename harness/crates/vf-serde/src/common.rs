//! Shared helpers of the serialization round-trip checks C35–C38.
//!
//! * [`gen_config`] — the `refsql` generator configuration used by all four checks (deterministic source:
//!   no deliberate top-k over ties, no unguarded division; every case is additionally filtered with the
//!   dynamic `refsql::deterministic_on`, so that "the original plan's rows" is a function of the input).
//! * [`Fixture`] — the tables of a case materialised for a [`Source`]: MemTables, or listing tables over
//!   Parquet / CSV files written into a per-case temp dir. [`Fixture::session`] builds a FRESH
//!   `SessionContext` (fresh `RuntimeEnv`) with the tables registered under their names; the encoding and
//!   the decoding side of a round trip each get their own session.
//! * [`NameCodec`] — `LogicalExtensionCodec` that encodes a MemTable scan as the table name and resolves
//!   the name among the providers of the decoding session (anything else: `NotImplemented`).
//! * execution and comparison: [`exec_logical`], [`exec_physical`], [`compare_rows`] (multiset equality with
//!   the float rule of `refsql::cmp`, plus sortedness w.r.t. the top-level ORDER BY when the query orders —
//!   exactly what ORDER BY promises; ties on equal keys may legitimately come in another order).
use arrow::datatypes::SchemaRef;
use datafusion::catalog::TableProvider;
use datafusion::common::tree_node::{TreeNode, TreeNodeRecursion};
use datafusion::common::{DFSchema, TableReference, not_impl_err};
use datafusion::datasource::MemTable;
use datafusion::error::{DataFusionError, Result as DfResult};
use datafusion::execution::TaskContext;
use datafusion::logical_expr::{Extension, LogicalPlan};
use datafusion::physical_plan::ExecutionPlan;
use datafusion::prelude::{CsvReadOptions, DataFrame, ParquetReadOptions, SessionContext};
use datafusion_proto::logical_plan::LogicalExtensionCodec;
use proptest::prelude::*;
use serde::{Deserialize, Serialize};
use std::collections::{BTreeSet, HashMap};
use std::sync::Arc;
use vf_df::{ErrClass, StrEncoding, Variant, batches_to_rows, classify_error, table_to_batches};
use vf_kit::engine::{CaseResult, Tier, truncate};
use vf_kit::refsql::{self, GenConfig, Query, Table, Value};

#[derive(Clone, Copy, Debug, PartialEq, Eq, Serialize, Deserialize)]
pub enum Source {
    Mem,
    Parquet,
    Csv,
}

impl Source {
    pub fn label(self) -> &'static str {
        match self {
            Source::Mem => "source:mem",
            Source::Parquet => "source:parquet",
            Source::Csv => "source:csv",
        }
    }
}

pub fn source_strategy() -> BoxedStrategy<Source> {
    prop_oneof![3 => Just(Source::Mem), 2 => Just(Source::Parquet), 1 => Just(Source::Csv)].boxed()
}

pub fn gen_config(tier: Tier) -> GenConfig {
    let mut cfg = GenConfig::standard(3, tier.pick(8, 24), tier.pick(2, 3));
    cfg.tape_len = tier.pick(400, 700);
    cfg.topk_ties = false;
    cfg.unguarded_div_pct = 0;
    cfg
}

/// What went wrong while setting a case up (never a verdict about the engine).
pub fn setup_failure(what: &str, e: impl std::fmt::Display) -> CaseResult {
    CaseResult::inconclusive(format!("setup: {what}: {}", truncate(&e.to_string(), 200)))
}

pub fn err_class(e: &DataFusionError) -> ErrClass {
    classify_error(e)
}

pub fn err_text(e: &DataFusionError) -> String {
    truncate(&e.strip_backtrace(), 1200)
}

/// short, digit-free key of an error message for discard histograms
pub fn err_key(e: &DataFusionError) -> String {
    let t = e.strip_backtrace();
    let t = t.lines().next().unwrap_or("").to_string();
    truncate(&t, 90)
}

// ---------------------------------------------------------------------------------------------
// fixture

pub struct Fixture {
    pub tables: Vec<Table>,
    pub source: Source,
    pub variant: Variant,
    dir: Option<tempfile::TempDir>,
}

pub struct Session {
    pub ctx: SessionContext,
    pub providers: HashMap<String, Arc<dyn TableProvider>>,
}

const CSV_NULL: &str = "\\N";
const CSV_NULL_REGEX: &str = "^\\\\N$";

impl Fixture {
    pub fn new(tables: &[Table], source: Source, variant: &Variant) -> Result<Fixture, String> {
        let mut fx = Fixture { tables: tables.to_vec(), source, variant: variant.clone(), dir: None };
        if source == Source::Mem {
            return Ok(fx);
        }
        let dir = tempfile::tempdir().map_err(|e| e.to_string())?;
        for t in tables {
            let tdir = dir.path().join(&t.name);
            std::fs::create_dir_all(&tdir).map_err(|e| e.to_string())?;
            let (schema, batches) = table_to_batches(t, StrEncoding::Utf8, variant.batch_rows)?;
            let nfiles = variant.mem_partitions.max(1);
            let mut parts: Vec<Vec<arrow::record_batch::RecordBatch>> = vec![vec![]; nfiles];
            for (i, b) in batches.into_iter().enumerate() {
                parts[i % nfiles].push(b);
            }
            for (i, part) in parts.iter().enumerate() {
                if part.is_empty() && i > 0 {
                    continue;
                }
                match source {
                    Source::Parquet => {
                        let f = std::fs::File::create(tdir.join(format!("part-{i}.parquet"))).map_err(|e| e.to_string())?;
                        let mut w = datafusion::parquet::arrow::ArrowWriter::try_new(f, schema.clone(), None).map_err(|e| e.to_string())?;
                        for b in part {
                            w.write(b).map_err(|e| e.to_string())?;
                        }
                        w.close().map_err(|e| e.to_string())?;
                    }
                    Source::Csv => {
                        let f = std::fs::File::create(tdir.join(format!("part-{i}.csv"))).map_err(|e| e.to_string())?;
                        let mut w = arrow::csv::WriterBuilder::new().with_header(true).with_null(CSV_NULL.to_string()).build(f);
                        if part.is_empty() {
                            let empty = arrow::record_batch::RecordBatch::new_empty(schema.clone());
                            w.write(&empty).map_err(|e| e.to_string())?;
                        }
                        for b in part {
                            w.write(b).map_err(|e| e.to_string())?;
                        }
                    }
                    Source::Mem => {}
                }
            }
        }
        fx.dir = Some(dir);
        Ok(fx)
    }

    pub fn table_dir(&self, name: &str) -> String {
        match &self.dir {
            Some(d) => format!("{}/{}/", d.path().display(), name),
            None => String::new(),
        }
    }

    /// A fresh session (fresh context and runtime env) with every table registered under its name.
    pub async fn session(&self) -> Result<Session, String> {
        let ctx = vf_df::build_context(&self.variant, |b| b).map_err(|e| e.to_string())?;
        for t in &self.tables {
            let schema = vf_df::schema_of(&t.cols, StrEncoding::Utf8);
            match self.source {
                Source::Mem => {
                    let mt = vf_df::mem_table(t, &self.variant)?;
                    ctx.register_table(t.name.as_str(), Arc::new(mt)).map_err(|e| e.to_string())?;
                }
                Source::Parquet => {
                    ctx.register_parquet(t.name.as_str(), self.table_dir(&t.name), ParquetReadOptions::new().schema(&schema)).await.map_err(|e| e.to_string())?;
                }
                Source::Csv => {
                    let opts = CsvReadOptions::new().schema(&schema).has_header(true).null_regex(Some(CSV_NULL_REGEX.to_string()));
                    ctx.register_csv(t.name.as_str(), self.table_dir(&t.name), opts).await.map_err(|e| e.to_string())?;
                }
            }
        }
        let mut providers = HashMap::new();
        for t in &self.tables {
            let p = ctx.table_provider(t.name.as_str()).await.map_err(|e| e.to_string())?;
            providers.insert(t.name.clone(), p);
        }
        Ok(Session { ctx, providers })
    }
}

// ---------------------------------------------------------------------------------------------
// codec

/// MemTable scans travel as the table name; the decoding side resolves the name among its own providers.
#[derive(Debug)]
pub struct NameCodec {
    pub providers: HashMap<String, Arc<dyn TableProvider>>,
}

impl LogicalExtensionCodec for NameCodec {
    fn try_decode(&self, _buf: &[u8], _inputs: &[LogicalPlan], _ctx: &TaskContext) -> DfResult<Extension> {
        not_impl_err!("NameCodec: no extension nodes")
    }
    fn try_encode(&self, _node: &Extension, _buf: &mut Vec<u8>) -> DfResult<()> {
        not_impl_err!("NameCodec: no extension nodes")
    }
    fn try_decode_table_provider(&self, buf: &[u8], _table_ref: &TableReference, _schema: SchemaRef, _ctx: &TaskContext) -> DfResult<Arc<dyn TableProvider>> {
        let name = String::from_utf8_lossy(buf).to_string();
        match self.providers.get(&name) {
            Some(p) => Ok(p.clone()),
            None => Err(DataFusionError::Execution(format!("NameCodec: table '{name}' is not registered in the decoding session"))),
        }
    }
    fn try_encode_table_provider(&self, table_ref: &TableReference, node: Arc<dyn TableProvider>, buf: &mut Vec<u8>) -> DfResult<()> {
        if !node.is::<MemTable>() {
            return not_impl_err!("NameCodec: table provider of '{}' is not a MemTable", table_ref.table());
        }
        buf.extend_from_slice(table_ref.table().as_bytes());
        Ok(())
    }
}

// ---------------------------------------------------------------------------------------------
// execution

pub struct Exec {
    pub schema: SchemaRef,
    pub rows: Vec<Vec<Value>>,
}

pub async fn exec_logical(ctx: &SessionContext, plan: &LogicalPlan) -> DfResult<Exec> {
    let df = DataFrame::new(ctx.state(), plan.clone());
    let schema: SchemaRef = Arc::new(df.schema().as_arrow().clone());
    let batches = df.collect().await?;
    Ok(Exec { schema, rows: batches_to_rows(&batches) })
}

pub async fn exec_physical(ctx: &SessionContext, plan: Arc<dyn ExecutionPlan>) -> DfResult<Exec> {
    let schema = plan.schema();
    let batches = datafusion::physical_plan::collect(plan, ctx.task_ctx()).await?;
    Ok(Exec { schema, rows: batches_to_rows(&batches) })
}

/// None = `got` is an acceptable rendering of `expected`: equal as multisets and, when the query has a
/// top-level ORDER BY under which `expected` itself is sorted, `got` is sorted too.
pub fn compare_rows(query: &Query, names: &[String], expected: &[Vec<Value>], got: &[Vec<Value>]) -> Option<String> {
    if let Some(d) = refsql::multiset_diff(expected, got) {
        return Some(d);
    }
    if !query.order_by.is_empty() && refsql::sortedness_violation(names, expected, &query.order_by).is_none() {
        if let Some(v) = refsql::sortedness_violation(names, got, &query.order_by) {
            return Some(format!("result not sorted by the ORDER BY although the original's is: {v}\n  original: {}\n  got:      {}", refsql::fmt_rows(expected, 30), refsql::fmt_rows(got, 30)));
        }
    }
    None
}

pub fn field_names(schema: &SchemaRef) -> Vec<String> {
    schema.fields().iter().map(|f| f.name().clone()).collect()
}

/// output types logically equal (Utf8 ~ LargeUtf8 ~ Utf8View, dictionary ~ value type, …), position by position
pub fn types_logically_equal(a: &SchemaRef, b: &SchemaRef) -> Option<String> {
    if a.fields().len() != b.fields().len() {
        return Some(format!("{} columns vs {}", a.fields().len(), b.fields().len()));
    }
    for (i, (x, y)) in a.fields().iter().zip(b.fields().iter()).enumerate() {
        if !DFSchema::datatype_is_logically_equal(x.data_type(), y.data_type()) {
            return Some(format!("column {i} ({}): {} vs {}", x.name(), x.data_type(), y.data_type()));
        }
    }
    None
}

// ---------------------------------------------------------------------------------------------
// plan shapes

pub fn logical_kind(n: &LogicalPlan) -> String {
    let d = format!("{}", n.display());
    let head = d.split(':').next().unwrap_or("").trim();
    let head: String = head.chars().take(28).collect();
    if head.is_empty() { "?".into() } else { head }
}

pub fn logical_kinds(plan: &LogicalPlan) -> BTreeSet<String> {
    let mut kinds = BTreeSet::new();
    let _ = plan.apply_with_subqueries(|n| {
        kinds.insert(logical_kind(n));
        Ok(TreeNodeRecursion::Continue)
    });
    kinds
}

pub fn logical_node_count(plan: &LogicalPlan) -> usize {
    let mut n = 0;
    let _ = plan.apply_with_subqueries(|_| {
        n += 1;
        Ok(TreeNodeRecursion::Continue)
    });
    n
}

pub fn physical_kinds(plan: &Arc<dyn ExecutionPlan>, out: &mut Vec<String>) {
    out.push(plan.name().to_string());
    for c in plan.children() {
        physical_kinds(c, out);
    }
}

pub fn has_interesting_logical(kinds: &BTreeSet<String>) -> bool {
    kinds.iter().any(|k| k.contains("Join") || k == "Aggregate" || k == "WindowAggr" || k == "Union" || k.starts_with("Subquery") || k == "RecursiveQuery" || k.starts_with("Distinct"))
}

pub fn runtime() -> Result<tokio::runtime::Runtime, std::io::Error> {
    tokio::runtime::Builder::new_current_thread().enable_all().build()
}
