//! C35 — logical plans, expressions and scalar values survive the protobuf wire format.
//!
//! Three kinds of cases (one `Case` enum, weights ≈ 8 : 45 : 45 by count):
//!
//! * `Plan` — a `refsql` query (C01 grammar, deterministic by construction and by `deterministic_on`) planned by
//!   a `SessionContext` over the case's tables, which are MemTables (→ `NameCodec`, a harness
//!   `LogicalExtensionCodec` that ships the table name) or listing tables over per-case Parquet / CSV files
//!   (→ the default codec, `logical_plan_to_bytes` / `logical_plan_to_json`). The plan is taken as planned
//!   (analyzed) or after the optimizer; wire form binary or JSON. Oracle, whenever ENCODING succeeds:
//!   decoding in a FRESH session (same tables registered) succeeds, the decoded plan's
//!   `display_indent_schema()` text equals the original's, and executing it gives the original plan's rows
//!   (multiset; sorted when the query orders). Additionally every expression held by a node of the plan
//!   is round-tripped alone (`serialize_expr` → bytes → `parse_expr`) and must decode `==`.
//!   Encoding errors are discards, histogrammed by message (the statement quantifies over plans "whose
//!   encoding succeeds"); planning / run-time errors of the ORIGINAL are discards too.
//! * `Expr` — an expression built from a plain-data tree (`exprgen`): shapes the SQL grammar does not reach
//!   (LIKE/ILIKE/SIMILAR TO with escape, IS [NOT] TRUE/FALSE/UNKNOWN, TRY_CAST, typed placeholders, grouping
//!   sets, window frames of all units/bounds, aggregate DISTINCT/FILTER/ORDER BY/null treatment, aliases
//!   with relation, IN lists, CASE with operand, …). Oracle: `serialize_expr` ok ⇒ bytes → `parse_expr` ok and
//!   `==`; also through `Serializeable::to_bytes/from_bytes_with_ctx` and the JSON form of the node.
//! * `Scalar` — a `ScalarValue` of every variant (type and value from `vf_kit::data`, built with
//!   `ScalarValue::try_from_array` from a one-row array rendered under a generated physical layout).
//!   Oracle: `to_proto` ok ⇒ bytes/JSON → `from_proto` ok, equal (`==`) and same `data_type()`.
//!   Nested scalars compare with arrow's array equality; a verdict "different" on values with identical
//!   type and identical logical content (independent reader `array_to_values`) is arrow's, not DataFusion's,
//!   and is labelled, not reported.
//!
//! Non-trivial: plan with ≥ 3 distinct node kinds; expression of depth ≥ 3; nested scalar (or a non-NULL
//! scalar of a parameterised type).
//!
//! Deviations from DESIGN.md: DML / COPY / DDL plans are not generated (the refsql grammar has none; left for
//! a later corpus pass); expressions come from the plans plus a local generator instead of the C04 generator
//! (which lives in another binary crate).
//!
//! # Recorded findings (known_findings.json, one regression case each under /verif/regressions/C35/c35/)
//! Code-level tags — a case is excluded only when the difference is EXACTLY what the recorded spot explains
//! (expressions: the decoded expression equals the original under some subset of the lossy rewrites in
//! `lossy_with`; plans: the texts agree after the stated normalisation and the rows still agree):
//! `column-relation-unquoted`, `literal-metadata-dropped`, `window-frame-causal-flag-not-encoded`,
//! `binary-operator-not-decodable`, `json-nonfinite-float`, `json-float-not-exact`,
//! `float16-scalar-as-float32`, `nested-scalar-ipc-union-or-ree-child` (coarse: any failure of a scalar with a
//! Union / RunEndEncoded child below the top level), `empty-relation-schema-dropped` (coarse: any text / schema
//! decode difference of a plan holding an EmptyRelation with columns), `union-schema-not-encoded` (plan holds a Union whose stored schema differs from
//! the one derived from its inputs).
//! REPAIRED in /repo (entries `fixed`, cases replayed as plain regressions, signatures no longer recognised):
//! alias-metadata-dropped, cast-metadata-dropped, like-escape-char-non-ascii, limit-fetch-none-decoded-as-max,
//! union-nary-decoded-nested — patches:
//! /verif/fixes/C35-alias-metadata-decoded.diff, C35-cast-metadata-decoded.diff, C35-like-escape-char-non-ascii.diff,
//! C35-limit-fetch-none.diff, C35-union-nary-decoded-flat.diff.
//!
//! # Sensitivity probes (mutrun, /verif/probes/vf-serde/m1-proto-probes.diff, quick tier, seed 0)
//! * logical `SortNode.fetch` always -1 (fetch dropped in to_proto) → DETECTED: "decoded plan differs in its
//!   textual form: `Sort: .., fetch=N [..]` => `Sort: .. [..]`" (≈ 30 plans).
//! * `AggregateUdfExprNode.distinct` always false → DETECTED: "plan encodes but does not decode: No field named
//!   \"sum(DISTINCT r0.b)\"" (15 plans) and "expression decodes to a different expression" (expr cases).
//!
//! Other behaviour: a plan scanning a table function (generate_series) is a discard (no provider codec);
//! a panic while planning / running the ORIGINAL plan is a discard (outside this property).
use crate::common::*;
use crate::exprgen::{self, ESpec};
use datafusion::common::ScalarValue;
use datafusion::common::tree_node::{TreeNode, TreeNodeRecursion};
use datafusion::logical_expr::{Expr, LogicalPlan};
use datafusion::prelude::SessionContext;
use datafusion_proto::bytes::{
    Serializeable, logical_plan_from_bytes, logical_plan_from_bytes_with_extension_codec, logical_plan_from_json, logical_plan_from_json_with_extension_codec, logical_plan_to_bytes,
    logical_plan_to_bytes_with_extension_codec, logical_plan_to_json, logical_plan_to_json_with_extension_codec,
};
use datafusion_proto::logical_plan::from_proto::parse_expr;
use datafusion_proto::logical_plan::to_proto::serialize_expr;
use datafusion_proto::logical_plan::{DefaultLogicalExtensionCodec, LogicalExtensionCodec};
use datafusion_proto::protobuf;
use proptest::prelude::*;
use prost::Message;
use serde::{Deserialize, Serialize};
use std::time::Duration;
use vf_df::{ErrClass, Variant};
use vf_kit::data::{self, ColumnSpec, DType, DTypeCfg, Encoding};
use vf_kit::engine::*;
use vf_kit::refsql::{self, SqlCase};

pub struct C35;

#[derive(Clone, Copy, Debug, PartialEq, Eq, Serialize, Deserialize)]
pub enum Wire {
    Bytes,
    Json,
}

#[derive(Clone, Debug, Serialize, Deserialize)]
pub struct PlanCase {
    pub sql: SqlCase,
    pub source: Source,
    pub optimized: bool,
    pub wire: Wire,
}

#[derive(Clone, Debug, Serialize, Deserialize)]
pub struct ScalarCase {
    pub dtype: DType,
    pub value: data::Value,
    pub enc: Encoding,
}

#[derive(Clone, Debug, Serialize, Deserialize)]
pub enum Case {
    Plan(PlanCase),
    Expr(ESpec),
    Scalar(ScalarCase),
}

fn plan_strategy(tier: Tier) -> BoxedStrategy<PlanCase> {
    (refsql::case_strategy(&gen_config(tier)), source_strategy(), any::<bool>(), prop_oneof![2 => Just(Wire::Bytes), 1 => Just(Wire::Json)]).prop_map(|(sql, source, optimized, wire)| PlanCase { sql, source, optimized, wire }).boxed()
}

fn scalar_strategy(tier: Tier) -> BoxedStrategy<ScalarCase> {
    data::dtype_strategy(&DTypeCfg::all(tier.pick(2, 3))).prop_flat_map(|dt| (data::value_strategy(&dt), data::encoding_strategy(&dt), Just(dt))).prop_map(|(value, enc, dtype)| ScalarCase { dtype, value, enc }).boxed()
}

// ---------------------------------------------------------------------------------------------
// plans

fn encode_plan(plan: &LogicalPlan, wire: Wire, codec: Option<&dyn LogicalExtensionCodec>) -> datafusion::error::Result<Vec<u8>> {
    Ok(match (wire, codec) {
        (Wire::Bytes, None) => logical_plan_to_bytes(plan)?.to_vec(),
        (Wire::Bytes, Some(c)) => logical_plan_to_bytes_with_extension_codec(plan, c)?.to_vec(),
        (Wire::Json, None) => logical_plan_to_json(plan)?.into_bytes(),
        (Wire::Json, Some(c)) => logical_plan_to_json_with_extension_codec(plan, c)?.into_bytes(),
    })
}

fn decode_plan(bytes: &[u8], wire: Wire, ctx: &SessionContext, codec: Option<&dyn LogicalExtensionCodec>) -> datafusion::error::Result<LogicalPlan> {
    let tc = ctx.task_ctx();
    match (wire, codec) {
        (Wire::Bytes, None) => logical_plan_from_bytes(bytes, &tc),
        (Wire::Bytes, Some(c)) => logical_plan_from_bytes_with_extension_codec(bytes, &tc, c),
        (Wire::Json, None) => logical_plan_from_json(&String::from_utf8_lossy(bytes), &tc),
        (Wire::Json, Some(c)) => logical_plan_from_json_with_extension_codec(&String::from_utf8_lossy(bytes), &tc, c),
    }
}

/// every expression held directly by a node of the plan (subquery plans included)
fn plan_exprs(plan: &LogicalPlan) -> Vec<Expr> {
    let mut out = vec![];
    let _ = plan.apply_with_subqueries(|n| {
        out.extend(n.expressions());
        Ok(TreeNodeRecursion::Continue)
    });
    out
}

pub fn expr_depth(e: &Expr) -> usize {
    let mut max = 0usize;
    fn go(e: &Expr, d: usize, max: &mut usize) {
        *max = (*max).max(d);
        let _ = e.apply_children(|c| {
            go(c, d + 1, max);
            Ok(TreeNodeRecursion::Continue)
        });
    }
    go(e, 1, &mut max);
    max
}

/// What the recorded lossy spots of the expression encoding do to an expression, with the findings involved:
/// * `column-relation-unquoted` — `Column::relation` travels as its UNQUOTED text and is re-parsed;
/// * `literal-metadata-dropped` — `Expr::Literal(_, Some(metadata))` is encoded without the metadata;
/// * `alias-metadata-dropped` — `Alias::metadata` is encoded but not decoded;
/// * `cast-metadata-dropped` — the metadata of a CAST / TRY_CAST target field is encoded but not decoded;
/// * `window-frame-causal-flag-not-encoded` — `WindowFrame::causal` is not encoded; the decoder recomputes it with
///   `new_bounds`, while frames whose bounds were rewritten by type coercion keep a stale flag.
fn lossy_with(e: &Expr, mask: u8) -> (Expr, Vec<&'static str>) {
    use datafusion::common::tree_node::Transformed;
    use datafusion::common::{Column, TableReference};
    use datafusion::logical_expr::expr::{Cast, TryCast};
    let mut tags: Vec<&'static str> = vec![];
    let out = e
        .clone()
        .transform_up(|x| {
            Ok(match x {
                Expr::Column(c) if mask & 1 != 0 && c.relation.is_some() => {
                    let r = c.relation.as_ref().map(|r| TableReference::parse_str_normalized(&r.to_string(), true));
                    if r != c.relation {
                        tags.push("column-relation-unquoted");
                        Transformed::yes(Expr::Column(Column::new(r, c.name)))
                    } else {
                        Transformed::no(Expr::Column(c))
                    }
                }
                Expr::Literal(v, Some(_)) if mask & 2 != 0 => {
                    tags.push("literal-metadata-dropped");
                    Transformed::yes(Expr::Literal(v, None))
                }
                Expr::Alias(a) if mask & 4 != 0 && a.metadata.is_some() => {
                    tags.push("alias-metadata-dropped");
                    Transformed::yes(Expr::Alias(a.with_metadata(None)))
                }
                Expr::Cast(c) if mask & 8 != 0 && !c.field.metadata().is_empty() => {
                    tags.push("cast-metadata-dropped");
                    let f = c.field.as_ref().clone().with_metadata(Default::default());
                    Transformed::yes(Expr::Cast(Cast::new_from_field(c.expr, std::sync::Arc::new(f))))
                }
                Expr::TryCast(c) if mask & 8 != 0 && !c.field.metadata().is_empty() => {
                    tags.push("cast-metadata-dropped");
                    let f = c.field.as_ref().clone().with_metadata(Default::default());
                    Transformed::yes(Expr::TryCast(TryCast::new_from_field(c.expr, std::sync::Arc::new(f))))
                }
                Expr::WindowFunction(mut wf) if mask & 16 != 0 => {
                    let f = &wf.params.window_frame;
                    let re = datafusion::logical_expr::WindowFrame::new_bounds(f.units, f.start_bound.clone(), f.end_bound.clone());
                    if &re != f {
                        tags.push("window-frame-causal-flag-not-encoded");
                        wf.params.window_frame = re;
                        Transformed::yes(Expr::WindowFunction(wf))
                    } else {
                        Transformed::no(Expr::WindowFunction(wf))
                    }
                }
                o => Transformed::no(o),
            })
        })
        .map(|t| t.data)
        .unwrap_or_else(|_| e.clone());
    tags.sort();
    tags.dedup();
    (out, tags)
}

/// all recorded lossy spots applied
fn lossy(e: &Expr) -> (Expr, Vec<&'static str>) {
    lossy_with(e, 19)
}

/// Is `back` what `e` becomes under some subset of the recorded lossy spots? (Subsets, so that repairing one
/// of them does not turn the cases that also show another one into unexplained differences.)
fn explain_by_lossy(e: &Expr, back: &Expr) -> Option<Vec<&'static str>> {
    // alias / cast metadata (bits 4, 8) were repaired upstream: no longer explained away
    let mut masks: Vec<u8> = (1..32u8).filter(|m| m & 12 == 0).collect();
    masks.sort_by_key(|m| m.count_ones());
    for m in masks {
        let (l, tags) = lossy_with(e, m);
        if !tags.is_empty() && &l == back {
            return Some(tags);
        }
    }
    None
}

pub enum ExprRt {
    Refused,
    Same,
    /// differs exactly by the recorded findings named
    Known(Vec<&'static str>),
}

/// recorded findings that make a successfully encoded expression undecodable
fn decode_failure_tag(msg: &str) -> Option<&'static str> {
    if msg.contains("Unsupported binary operator") {
        Some("binary-operator-not-decodable")
    } else {
        None
    }
}

/// Round trip of one expression through the node + wire bytes.
fn expr_round_trip(e: &Expr, enc_codec: &dyn LogicalExtensionCodec, dec_ctx: &SessionContext, dec_codec: &dyn LogicalExtensionCodec) -> Result<ExprRt, String> {
    let node = match serialize_expr(e, enc_codec) {
        Ok(n) => n,
        Err(_) => return Ok(ExprRt::Refused),
    };
    let bytes = node.encode_to_vec();
    let node2 = protobuf::LogicalExprNode::decode(bytes.as_slice()).map_err(|er| format!("expression encoded bytes do not decode: {er}; expression `{e}`"))?;
    let back = match parse_expr(&node2, &dec_ctx.task_ctx(), dec_codec) {
        Ok(b) => b,
        Err(er) => {
            let m = er.to_string();
            if let Some(t) = decode_failure_tag(&m) {
                return Ok(ExprRt::Known(vec![t]));
            }
            return Err(format!("expression encodes but does not decode: {}\n  expression: `{e}`", truncate(&m, 600)));
        }
    };
    if &back != e {
        if let Some(tags) = explain_by_lossy(e, &back) {
            return Ok(ExprRt::Known(tags));
        }
        return Err(format!("expression decodes to a different expression\n  original: {e}\n  decoded:  {back}\n  original (debug): {}\n  decoded  (debug): {}", truncate(&format!("{e:?}"), 1500), truncate(&format!("{back:?}"), 1500)));
    }
    Ok(ExprRt::Same)
}

async fn run_plan_async(pc: &PlanCase, fx: &Fixture) -> CaseResult {
    let sql = refsql::to_sql(&pc.sql.query);
    let a = match fx.session().await {
        Ok(s) => s,
        Err(e) => return setup_failure("session A", e),
    };
    let state = a.ctx.state();
    let mut plan = match state.create_logical_plan(&sql).await {
        Ok(p) => p,
        Err(e) => return CaseResult::discard(format!("planning: {:?}", err_class(&e))),
    };
    if pc.optimized {
        plan = match state.optimize(&plan) {
            Ok(p) => p,
            Err(e) => return CaseResult::discard(format!("optimizer: {:?}", err_class(&e))),
        };
    }
    if !table_function_scans(&plan, &fx.tables).is_empty() {
        return CaseResult::discard("plan scans a table function (no provider codec for it)");
    }
    let original = match no_panic(exec_logical(&a.ctx, &plan)).await {
        None => return CaseResult::discard("original plan panics while planning / running (outside this property)"),
        Some(Ok(x)) => x,
        Some(Err(e)) => return CaseResult::discard(format!("original plan fails to run: {:?}", err_class(&e))),
    };
    let kinds = logical_kinds(&plan);
    let mut known: Vec<&'static str> = vec![];
    let mut labels: Vec<String> = kinds.iter().map(|k| format!("node:{k}")).collect();
    labels.push(fx.source.label().into());
    labels.push(if pc.optimized { "plan:optimized".into() } else { "plan:analyzed".into() });
    labels.push(format!("wire:{:?}", pc.wire));
    labels.extend(refsql::features(&pc.sql.query).into_iter().map(|f| format!("sql:{f}")));

    let use_codec = fx.source == Source::Mem;
    let codec_a = NameCodec { providers: a.providers.clone() };
    let bytes = match encode_plan(&plan, pc.wire, if use_codec { Some(&codec_a) } else { None }) {
        Ok(b) => b,
        Err(e) => {
            let mut r = CaseResult::discard(format!("encode: {}", err_key(&e))).labels(labels);
            if err_class(&e) == ErrClass::Internal {
                r = r.label("encode-internal-error");
            }
            return r.label("encode-refused");
        }
    };
    let b = match fx.session().await {
        Ok(s) => s,
        Err(e) => return setup_failure("session B", e),
    };
    let codec_b = NameCodec { providers: b.providers.clone() };
    let ctxt = || format!("\n  source={:?} optimized={} wire={:?}\n  sql: {sql}\n  original plan:\n{}", fx.source, pc.optimized, pc.wire, plan.display_indent_schema());
    // recorded finding `empty-relation-schema-dropped`: EmptyRelation travels without its schema
    let mut schema_empty_rel = false;
    let _ = plan.apply_with_subqueries(|n| {
        if let LogicalPlan::EmptyRelation(e) = n {
            if !e.schema.fields().is_empty() {
                schema_empty_rel = true;
            }
        }
        Ok(TreeNodeRecursion::Continue)
    });
    // recorded finding `union-schema-not-encoded`: UnionNode carries only the inputs
    let union_drift = union_schema_drift(&plan);
    let schema_error = |e: &datafusion::error::DataFusionError| err_class(e) == ErrClass::SchemaError || ["SchemaError", "Schema error", "FieldNotFound", "No field named"].iter().any(|k| e.to_string().contains(k));
    let back = match decode_plan(&bytes, pc.wire, &b.ctx, if use_codec { Some(&codec_b) } else { None }) {
        Ok(p) => p,
        Err(e) if !schema_empty_rel && union_drift && schema_error(&e) => {
            return known_violation(&["union-schema-not-encoded"], format!("plan encodes but does not decode: {}{}", err_text(&e), ctxt())).labels(labels);
        }
        Err(e) if schema_empty_rel && (err_class(&e) == ErrClass::SchemaError || ["SchemaError", "Schema error", "FieldNotFound", "No field named"].iter().any(|k| e.to_string().contains(k))) => {
            return known_violation(&["empty-relation-schema-dropped"], format!("plan encodes but does not decode: {}{}", err_text(&e), ctxt())).labels(labels);
        }
        Err(e) => return CaseResult::violation(format!("plan encodes but does not decode: {}{}", err_text(&e), ctxt())).labels(labels),
    };
    let t0 = plan.display_indent_schema().to_string();
    let t1 = back.display_indent_schema().to_string();
    if t0 != t1 {
        if schema_empty_rel {
            return known_violation(&["empty-relation-schema-dropped"], format!("decoded plan differs in its textual form: {}{}\n  decoded plan:\n{t1}", first_diff(&t0, &t1), ctxt())).labels(labels);
        }
        if union_drift {
            return known_violation(&["union-schema-not-encoded"], format!("decoded plan differs in its textual form: {}{}\n  decoded plan:\n{t1}", first_diff(&t0, &t1), ctxt())).labels(labels);
        }
        return CaseResult::violation(format!("decoded plan differs in its textual form: {}{}\n  decoded plan:\n{t1}", first_diff(&t0, &t1), ctxt())).labels(labels);
    }
    // expressions of the plan, one by one
    let default_codec = DefaultLogicalExtensionCodec {};
    let (enc_c, dec_c): (&dyn LogicalExtensionCodec, &dyn LogicalExtensionCodec) = if use_codec { (&codec_a, &codec_b) } else { (&default_codec, &default_codec) };
    let mut n_exprs = 0;
    let mut max_depth = 0;
    for e in plan_exprs(&plan) {
        match expr_round_trip(&e, enc_c, &b.ctx, dec_c) {
            Ok(ExprRt::Same) => {
                n_exprs += 1;
                max_depth = max_depth.max(expr_depth(&e));
            }
            Ok(ExprRt::Known(k)) => known.extend(k),
            Ok(ExprRt::Refused) => labels.push("plan-expr-encode-refused".into()),
            Err(m) => return CaseResult::violation(format!("{m}{}", ctxt())).labels(labels),
        }
    }
    if n_exprs > 0 {
        labels.push("plan-exprs-checked".into());
    }
    if max_depth >= 3 {
        labels.push("plan-expr-depth>=3".into());
    }
    let decoded = match no_panic(exec_logical(&b.ctx, &back)).await {
        // a recorded difference of the decoded plan (e.g. fetch=i64::MAX) may also make it fail or panic at run time
        None if !known.is_empty() => return known_violation(&known, format!("decoded plan (differing by recorded findings) panics at run time{}", ctxt())).labels(labels),
        None => return CaseResult::violation(format!("decoded plan panics at run time although the original runs{}", ctxt())).labels(labels),
        Some(Ok(x)) => x,
        Some(Err(e)) if !known.is_empty() => return known_violation(&known, format!("decoded plan (differing by recorded findings) fails to run: {}{}", err_text(&e), ctxt())).labels(labels),
        Some(Err(e)) => return CaseResult::violation(format!("decoded plan fails to run although the original runs: {}{}", err_text(&e), ctxt())).labels(labels),
    };
    if decoded.schema.fields() != original.schema.fields() {
        return CaseResult::violation(format!("decoded plan has another output schema: {:?} vs {:?}{}", decoded.schema, original.schema, ctxt())).labels(labels);
    }
    if let Some(d) = compare_rows(&pc.sql.query, &field_names(&original.schema), &original.rows, &decoded.rows) {
        return CaseResult::violation(format!("decoded plan returns other rows: {d}{}", ctxt())).labels(labels);
    }
    if original.rows.is_empty() {
        labels.push("empty-result".into());
    }
    if !known.is_empty() {
        return known_violation(&known, format!("the round trip differs only by recorded findings{}\n  decoded plan:\n{t1}", ctxt())).labels(labels);
    }
    CaseResult::pass().nontrivial(kinds.len() >= 3).labels(labels)
}

fn run_plan(pc: &PlanCase) -> CaseResult {
    if !refsql::deterministic_on(&pc.sql.query, &pc.sql.db()) {
        return CaseResult::discard("reference: query not deterministic on this data, or reference evaluation fails");
    }
    let fx = match Fixture::new(&pc.sql.tables, pc.source, &Variant::default()) {
        Ok(f) => f,
        Err(e) => return setup_failure("fixture", e),
    };
    let rt = match runtime() {
        Ok(r) => r,
        Err(e) => return setup_failure("runtime", e),
    };
    let r = rt.block_on(async { tokio::time::timeout(Duration::from_secs(40), run_plan_async(pc, &fx)).await });
    rt.shutdown_timeout(Duration::from_millis(200));
    match r {
        Ok(r) => r,
        Err(_) => CaseResult::inconclusive("timeout"),
    }
}

// ---------------------------------------------------------------------------------------------
// expressions

fn run_expr(spec: &ESpec) -> CaseResult {
    let ctx = SessionContext::new();
    let e = match exprgen::build(spec, &ctx) {
        Ok(e) => e,
        Err(why) => return CaseResult::discard(format!("expression not constructible: {why}")),
    };
    let mut labels = exprgen::labels(spec);
    let codec = DefaultLogicalExtensionCodec {};
    let fresh = SessionContext::new();
    let mut known: Vec<&'static str> = vec![];
    match expr_round_trip(&e, &codec, &fresh, &codec) {
        Ok(ExprRt::Refused) => return CaseResult::discard("encode refused").labels(labels),
        Ok(ExprRt::Same) => {}
        Ok(ExprRt::Known(k)) => known.extend(k),
        Err(m) => return CaseResult::violation(m).labels(labels),
    }
    let (lossy_e, _) = lossy(&e);
    let undecodable = known.iter().any(|k| *k == "binary-operator-not-decodable");
    let has_known = !known.is_empty();
    let accept = |back: &Expr| *back == e || (has_known && (*back == lossy_e || explain_by_lossy(&e, back).is_some()));
    let nan_literal = e.exists(|x| Ok(matches!(x, Expr::Literal(ScalarValue::Float32(Some(v)), _) if !v.is_finite()) || matches!(x, Expr::Literal(ScalarValue::Float64(Some(v)), _) if !v.is_finite()))).unwrap_or(false);
    // the bytes helpers
    match e.to_bytes() {
        Err(_) => labels.push("to_bytes-refused".into()),
        Ok(bytes) => match Expr::from_bytes_with_ctx(&bytes, &fresh.task_ctx()) {
            Err(_) if undecodable => {}
            Err(er) => return CaseResult::violation(format!("Expr::to_bytes succeeds, from_bytes_with_ctx fails: {}\n  expression: `{e}`", err_text(&er))).labels(labels),
            Ok(back) => {
                if !accept(&back) {
                    return CaseResult::violation(format!("Expr::to_bytes/from_bytes_with_ctx changes the expression\n  original: {e}\n  decoded:  {back}")).labels(labels);
                }
            }
        },
    }
    // JSON form of the node
    if let Ok(node) = serialize_expr(&e, &codec) {
        match serde_json::to_string(&node) {
            Err(_) => labels.push("json-refused".into()),
            Ok(js) => {
                let node2: protobuf::LogicalExprNode = match serde_json::from_str(&js) {
                    Ok(n) => n,
                    Err(er) => return CaseResult::violation(format!("JSON form of the expression node does not parse back: {er}\n  expr: {e}\n  json: {}", truncate(&js, 1500))).labels(labels),
                };
                match parse_expr(&node2, &fresh.task_ctx(), &codec) {
                    Err(_) if undecodable => {}
                    Err(er) if nan_literal && er.to_string().contains("Missing required field") => {
                        known.push("json-nonfinite-float");
                        let _ = er;
                    }
                    Err(er) => return CaseResult::violation(format!("expression does not decode from its JSON form: {er}\n  expression: `{e}`")).labels(labels),
                    Ok(back) => {
                        if !accept(&back) {
                            return CaseResult::violation(format!("JSON round trip changes the expression\n  original: {e}\n  decoded:  {back}")).labels(labels);
                        }
                    }
                }
            }
        }
    }
    if !known.is_empty() {
        return known_violation(&known, format!("expression round trip differs only by recorded findings: `{e}`")).labels(labels);
    }
    let depth = expr_depth(&e);
    CaseResult::pass().nontrivial(depth >= 3).labels(labels)
}

// ---------------------------------------------------------------------------------------------
// scalars

fn guarded_eq(a: &ScalarValue, b: &ScalarValue) -> Option<bool> {
    std::panic::catch_unwind(std::panic::AssertUnwindSafe(|| a == b)).ok()
}

fn logical_of(s: &ScalarValue) -> Option<data::Value> {
    s.to_array().ok().and_then(|a| data::array_to_values(a.as_ref()).into_iter().next())
}

fn scalar_same(a: &ScalarValue, b: &ScalarValue) -> Result<&'static str, String> {
    if a.data_type() != b.data_type() {
        return Err(format!("data type changes: {} → {}", a.data_type(), b.data_type()));
    }
    match guarded_eq(a, b) {
        None => Ok("eq-panicked(arrow)"),
        Some(true) => Ok("equal"),
        Some(false) => {
            let la = logical_of(a);
            if a.data_type().is_nested() && la.is_some() && format!("{la:?}") == format!("{:?}", logical_of(b)) {
                Ok("eq-false-negative(arrow)")
            } else {
                Err(format!("value changes: {a:?} → {b:?}"))
            }
        }
    }
}

/// Union or run-end-encoded data BELOW the top level of a nested type: such scalars travel as Arrow IPC of a
/// (possibly sliced) one-row array, and arrow's IPC writer/reader mishandles these children (recorded finding
/// `nested-scalar-ipc-union-or-ree-child`).
fn exotic_child(dt: &DType, top: bool) -> bool {
    use DType::*;
    match dt {
        Union(fs, _) => !top || fs.iter().any(|(_, _, d)| exotic_child(d, false)),
        RunEndEncoded(_, v) => !top || exotic_child(v, false),
        Dictionary(_, v) => exotic_child(v, top),
        List(c) | LargeList(c) | ListView(c) | LargeListView(c) | FixedSizeList(c, _) => exotic_child(c, false),
        Struct(fs) => fs.iter().any(|(_, d)| exotic_child(d, false)),
        Map(k, v) => exotic_child(k, false) || exotic_child(v, false),
        _ => false,
    }
}

fn has_float(v: &data::Value) -> bool {
    match v {
        data::Value::Float(_) => true,
        data::Value::List(vs) | data::Value::Struct(vs) => vs.iter().any(has_float),
        data::Value::Map(kv) => kv.iter().any(|(k, v)| has_float(k) || has_float(v)),
        data::Value::Union(_, b) => has_float(b),
        _ => false,
    }
}

fn nonfinite_float(v: &data::Value) -> bool {
    match v {
        data::Value::Float(f) => !f.is_finite(),
        data::Value::List(vs) | data::Value::Struct(vs) => vs.iter().any(nonfinite_float),
        data::Value::Map(kv) => kv.iter().any(|(k, v)| nonfinite_float(k) || nonfinite_float(v)),
        data::Value::Union(_, b) => nonfinite_float(b),
        _ => false,
    }
}

fn run_scalar(sc: &ScalarCase) -> CaseResult {
    let col = ColumnSpec { dtype: sc.dtype.clone(), values: vec![sc.value.clone()] };
    let arr = match data::try_render(&col, &sc.enc) {
        Ok(a) => a,
        Err(e) => return CaseResult::discard(format!("not renderable: {}", truncate(&e.to_string(), 60))),
    };
    let sv = match ScalarValue::try_from_array(arr.as_ref(), 0) {
        Ok(s) => s,
        Err(_) => return CaseResult::discard(format!("no ScalarValue for {}", sc.dtype.kind())),
    };
    let mut kinds = std::collections::BTreeSet::new();
    sc.dtype.kinds(&mut kinds);
    let mut labels: Vec<String> = kinds.iter().map(|k| format!("type:{k}")).collect();
    if sv.is_null() {
        labels.push("null".into());
    }
    let proto: protobuf::ScalarValue = match (&sv).try_into() {
        Ok(p) => p,
        Err(e) => {
            let e: datafusion_proto::protobuf::ToProtoError = e;
            return CaseResult::discard(format!("scalar encode refused: {}", truncate(&e.to_string(), 50))).labels(labels);
        }
    };
    let describe = || format!("{sv:?} (type {})", sv.data_type());
    // binary
    let bytes = proto.encode_to_vec();
    let proto2 = match protobuf::ScalarValue::decode(bytes.as_slice()) {
        Ok(p) => p,
        Err(e) => return CaseResult::violation(format!("scalar bytes do not decode: {e}; scalar {}", describe())).labels(labels),
    };
    let back = match ScalarValue::try_from(&proto2) {
        Ok(s) => s,
        Err(e) => return CaseResult::violation(format!("scalar encodes but does not decode: {e}; scalar {}", describe())).labels(labels),
    };
    match scalar_same(&sv, &back) {
        Ok(l) => labels.push(l.into()),
        Err(m) => {
            let (t0, t1) = (sv.data_type().to_string(), back.data_type().to_string());
            if (t0 != t1 && t0.replace("Float16", "Float32") == t1) || (format!("{sv:?}") != format!("{back:?}") && format!("{sv:?}").replace("Float16(", "Float32(") == format!("{back:?}")) {
                return known_violation(&["float16-scalar-as-float32"], format!("scalar round trip (binary): {m}")).labels(labels);
            }
            return CaseResult::violation(format!("scalar round trip (binary): {m}")).labels(labels);
        }
    }
    let nonfinite = nonfinite_float(&sc.value);
    // JSON
    match serde_json::to_string(&proto) {
        Err(_) => labels.push("json-refused".into()),
        Ok(js) => {
            let p3: protobuf::ScalarValue = match serde_json::from_str(&js) {
                Ok(p) => p,
                Err(e) => return CaseResult::violation(format!("scalar JSON does not parse back: {e}; scalar {}; json {}", describe(), truncate(&js, 800))).labels(labels),
            };
            let back = match ScalarValue::try_from(&p3) {
                Ok(s) => s,
                Err(e) if nonfinite => return known_violation(&["json-nonfinite-float"], format!("scalar does not decode from its JSON form: {e}; scalar {}", describe())).labels(labels),
                Err(e) => return CaseResult::violation(format!("scalar does not decode from its JSON form: {e}; scalar {}", describe())).labels(labels),
            };
            if let Err(m) = scalar_same(&sv, &back) {
                // the binary form round-trips (checked above): a float that comes back different from JSON is the
                // text parser's last-bit inexactness (recorded finding `json-float-not-exact`)
                if has_float(&sc.value) && sv.data_type() == back.data_type() {
                    return known_violation(&["json-float-not-exact"], format!("scalar round trip (JSON): {m}")).labels(labels);
                }
                return CaseResult::violation(format!("scalar round trip (JSON): {m}")).labels(labels);
            }
        }
    }
    // as a literal inside an expression
    let e = Expr::Literal(sv.clone(), None);
    let codec = DefaultLogicalExtensionCodec {};
    let fresh = SessionContext::new();
    if let Ok(node) = serialize_expr(&e, &codec) {
        match parse_expr(&node, &fresh.task_ctx(), &codec) {
            Err(er) => return CaseResult::violation(format!("literal {} does not decode: {er}", describe())).labels(labels),
            Ok(Expr::Literal(b2, _)) => {
                if let Err(m) = scalar_same(&sv, &b2) {
                    return CaseResult::violation(format!("literal round trip: {m}")).labels(labels);
                }
            }
            Ok(o) => return CaseResult::violation(format!("literal decodes to a non-literal {o}")).labels(labels),
        }
    }
    let parameterised = !matches!(sc.dtype.kind(), "bool" | "int" | "float" | "utf8" | "null");
    CaseResult::pass().nontrivial(sc.dtype.is_nested() || (!sv.is_null() && parameterised)).labels(labels)
}

fn run_inner(case: &Case) -> CaseResult {
    match case {
        Case::Plan(p) => run_plan(p).label("case:plan"),
        Case::Expr(e) => run_expr(e).label("case:expr"),
        Case::Scalar(s) => {
            let r = run_scalar(s);
            let r = match &r.outcome {
                Outcome::Violation(m) if !m.starts_with("[known:") && exotic_child(&s.dtype, true) => {
                    let mut k = known_violation(&["nested-scalar-ipc-union-or-ree-child"], m.clone());
                    k.labels = r.labels.clone();
                    k
                }
                _ => r,
            };
            r.label("case:scalar")
        }
    }
}

impl Property for C35 {
    type Case = Case;
    fn id(&self) -> &'static str {
        "C35"
    }
    fn sub(&self) -> &'static str {
        "c35"
    }
    fn strategy(&self, tier: Tier) -> BoxedStrategy<Case> {
        prop_oneof![
            8 => plan_strategy(tier).prop_map(Case::Plan),
            45 => exprgen::strategy(tier.pick(3, 4)).prop_map(Case::Expr),
            45 => scalar_strategy(tier).prop_map(Case::Scalar),
        ]
        .boxed()
    }
    fn budget(&self, tier: Tier) -> Budget {
        Budget::new(tier.pick(8_000, 600_000), tier.pick(8, 16)).min_nontrivial(tier.pick(1_000, 50_000)).case_timeout(120).shrink(600, 60)
    }
    fn rule(&self) -> String {
        "plan cases: refsql query (C01 grammar, deterministic) over 3 tables as MemTables (name codec) or Parquet/CSV listing tables (default codec), analyzed or optimized plan, binary or JSON wire; \
         expr cases: plain-data expression trees over the constructs of datafusion_expr::Expr; scalar cases: every ScalarValue variant from vf_kit::data. \
         non-trivial = plan with >= 3 distinct node kinds, or expression of depth >= 3, or nested / parameterised-type non-NULL scalar; distinct by case JSON"
            .into()
    }
    fn assumptions(&self) -> Vec<String> {
        vec![
            "the decoding session has the same tables (same data) and the default function registry, as the statement's 'fresh session' implies".into(),
            "Expr / ScalarValue `==` is the equality the statement means; arrow array equality false negatives on nested scalars are not counted".into(),
            "refsql::deterministic_on decides whether the original plan's rows are a function of the input".into(),
        ]
    }
    fn known_signature(&self, case: &Case) -> Option<String> {
        signature_of("C35", "c35", case, || run_inner(case))
    }
    fn run(&self, case: &Case) -> CaseResult {
        finish("c35", case, cached("c35", case, || run_inner(case)))
    }
}
