//! Plain-data expression trees (`ESpec`) and their rendering into `datafusion_expr::Expr`.
//!
//! The generator covers the `Expr` variants a caller can build through the public constructors /
//! `ExprFunctionExt` builder (the SQL grammar of `refsql` reaches only a part of them). Type correctness is
//! not attempted — serialization does not depend on it — but structural preconditions of real callers are
//! respected: window specifications are "regularized" the way the SQL planner and the DataFrame builder
//! leave them (RANGE/GROUPS frames carry the ORDER BY they need, offsets are UInt64 for ROWS/GROUPS),
//! functions are taken from the default registry, CAST targets are fields named "" as
//! `Cast::new` produces them.
//!
//! `meta` fields (field metadata on aliases, literals, cast targets and placeholders — how extension types
//! travel) are generated with a low weight and labelled, so that their loss is attributable.
use arrow::datatypes::{DataType, Field, Fields, IntervalUnit, TimeUnit};
use datafusion::common::metadata::FieldMetadata;
use datafusion::common::{Column, ScalarValue, TableReference};
use datafusion::execution::FunctionRegistry;
use datafusion::logical_expr::expr::{AggregateFunction, Alias, Between, BinaryExpr, Case, Cast, GroupingSet, InList, Like, NullTreatment, Placeholder, ScalarFunction, Sort, TryCast, Unnest, WindowFunction};
use datafusion::logical_expr::{Expr, ExprFunctionExt, Operator, WindowFrame, WindowFrameBound, WindowFrameUnits, WindowFunctionDefinition};
use datafusion::prelude::SessionContext;
use proptest::prelude::*;
use serde::{Deserialize, Serialize};
use std::collections::BTreeMap;
use std::sync::Arc;
use vf_kit::engine::pick_index;

pub type Meta = Vec<(String, String)>;

#[derive(Clone, Debug, Serialize, Deserialize)]
pub struct SortSpec {
    pub e: ESpec,
    pub asc: bool,
    pub nulls_first: bool,
}

#[derive(Clone, Debug, Serialize, Deserialize)]
pub enum Bound {
    UnboundedPreceding,
    Preceding(u8),
    CurrentRow,
    Following(u8),
    UnboundedFollowing,
}

#[derive(Clone, Debug, Serialize, Deserialize)]
pub struct FrameSpec {
    /// 0 rows, 1 range, 2 groups
    pub units: u8,
    pub start: Bound,
    pub end: Bound,
}

#[derive(Clone, Debug, Serialize, Deserialize)]
pub enum ESpec {
    Col { rel: u8, name: u8 },
    Lit { kind: u8, v: i64, meta: Meta },
    Alias { e: Box<ESpec>, rel: u8, name: u8, meta: Meta },
    Bin { op: u16, l: Box<ESpec>, r: Box<ESpec> },
    Like { kind: u8, negated: bool, e: Box<ESpec>, pat: Box<ESpec>, escape: Option<char> },
    Unary { op: u8, e: Box<ESpec> },
    Between { e: Box<ESpec>, negated: bool, low: Box<ESpec>, high: Box<ESpec> },
    Case { operand: Option<Box<ESpec>>, whens: Vec<(ESpec, ESpec)>, else_: Option<Box<ESpec>> },
    Cast { try_: bool, e: Box<ESpec>, ty: u8, nullable: bool, meta: Meta },
    Func { f: u16, args: Vec<ESpec> },
    Agg { f: u16, args: Vec<ESpec>, distinct: bool, filter: Option<Box<ESpec>>, order_by: Vec<SortSpec>, null_treatment: u8 },
    Win { f: u16, args: Vec<ESpec>, partition_by: Vec<ESpec>, order_by: Vec<SortSpec>, frame: Option<FrameSpec>, null_treatment: u8, distinct: bool, filter: Option<Box<ESpec>> },
    InList { e: Box<ESpec>, list: Vec<ESpec>, negated: bool },
    Placeholder { id: u8, ty: Option<u8>, nullable: bool, meta: Meta },
    Grouping { kind: u8, sets: Vec<Vec<ESpec>> },
    Unnest { e: Box<ESpec>, outer: bool },
}

const OPS: [Operator; 29] = [
    Operator::Eq,
    Operator::NotEq,
    Operator::Lt,
    Operator::LtEq,
    Operator::Gt,
    Operator::GtEq,
    Operator::Plus,
    Operator::Minus,
    Operator::Multiply,
    Operator::Divide,
    Operator::Modulo,
    Operator::And,
    Operator::Or,
    Operator::IsDistinctFrom,
    Operator::IsNotDistinctFrom,
    Operator::RegexMatch,
    Operator::RegexIMatch,
    Operator::RegexNotMatch,
    Operator::RegexNotIMatch,
    Operator::LikeMatch,
    Operator::ILikeMatch,
    Operator::NotLikeMatch,
    Operator::NotILikeMatch,
    Operator::BitwiseAnd,
    Operator::BitwiseOr,
    Operator::BitwiseXor,
    Operator::BitwiseShiftRight,
    Operator::BitwiseShiftLeft,
    Operator::StringConcat,
];
const MORE_OPS: [Operator; 14] = [
    Operator::AtArrow,
    Operator::ArrowAt,
    Operator::Arrow,
    Operator::LongArrow,
    Operator::HashArrow,
    Operator::HashLongArrow,
    Operator::AtAt,
    Operator::IntegerDivide,
    Operator::HashMinus,
    Operator::AtQuestion,
    Operator::Question,
    Operator::QuestionAnd,
    Operator::QuestionPipe,
    Operator::Colon,
];

pub fn operator(i: u16) -> Operator {
    let n = OPS.len() + MORE_OPS.len();
    let k = pick_index(i, n);
    if k < OPS.len() { OPS[k] } else { MORE_OPS[k - OPS.len()] }
}

const SCALAR_FUNCS: [&str; 12] = ["abs", "concat", "coalesce", "nullif", "upper", "substr", "date_trunc", "make_array", "array_length", "named_struct", "get_field", "round"];
const AGG_FUNCS: [&str; 10] = ["count", "sum", "min", "max", "avg", "array_agg", "first_value", "string_agg", "approx_percentile_cont", "bool_and"];
/// (name, is a window UDF — otherwise an aggregate used as a window function)
const WIN_FUNCS: [(&str, bool); 10] = [("row_number", true), ("rank", true), ("dense_rank", true), ("lag", true), ("lead", true), ("nth_value", true), ("ntile", true), ("sum", false), ("count", false), ("first_value", true)];
const NAMES: [&str; 8] = ["a", "b", "id", "s", "Mixed Case", "has.dot", "k1", "é"];

pub fn cast_type(i: u8) -> DataType {
    let types = [
        DataType::Int32,
        DataType::Int64,
        DataType::Float64,
        DataType::Utf8,
        DataType::Utf8View,
        DataType::Boolean,
        DataType::Date32,
        DataType::Timestamp(TimeUnit::Nanosecond, Some("+05:30".into())),
        DataType::Timestamp(TimeUnit::Millisecond, None),
        DataType::Decimal128(10, 2),
        DataType::Decimal256(40, -3),
        DataType::new_list(DataType::Int32, true),
        DataType::Dictionary(Box::new(DataType::Int32), Box::new(DataType::Utf8)),
        DataType::Struct(Fields::from(vec![Field::new("a", DataType::Int32, false), Field::new("b", DataType::Utf8, true)])),
        DataType::FixedSizeBinary(4),
        DataType::Duration(TimeUnit::Millisecond),
        DataType::Interval(IntervalUnit::MonthDayNano),
        DataType::Time64(TimeUnit::Nanosecond),
        DataType::LargeList(Arc::new(Field::new("element", DataType::Float32, false))),
        DataType::UInt8,
        DataType::Null,
    ];
    let k = pick_index((i as u16) << 8, types.len());
    types[k].clone()
}

fn literal(kind: u8, v: i64) -> ScalarValue {
    match kind % 16 {
        0 => ScalarValue::Int64(Some(v)),
        1 => ScalarValue::Int32(Some(v as i32)),
        2 => ScalarValue::UInt8(Some(v as u8)),
        3 => ScalarValue::Float64(Some(v as f64 / 4.0)),
        4 => ScalarValue::Utf8(Some(format!("s{v}"))),
        5 => ScalarValue::Utf8View(Some(format!("a%{v}_"))),
        6 => ScalarValue::Boolean(Some(v % 2 == 0)),
        7 => ScalarValue::Null,
        8 => ScalarValue::Date32(Some(v as i32)),
        9 => ScalarValue::TimestampNanosecond(Some(v), Some("UTC".into())),
        10 => ScalarValue::Decimal128(Some(v as i128), 12, 3),
        11 => ScalarValue::IntervalMonthDayNano(Some(arrow::datatypes::IntervalMonthDayNano::new(v as i32, 2, v))),
        12 => ScalarValue::Binary(Some(v.to_le_bytes().to_vec())),
        13 => ScalarValue::Int64(None),
        14 => ScalarValue::Float32(Some(if v % 5 == 0 { f32::NAN } else { v as f32 })),
        _ => ScalarValue::LargeUtf8(None),
    }
}

fn table_ref(rel: u8) -> Option<TableReference> {
    match rel % 16 {
        0..=7 => None,
        8..=11 => Some(TableReference::bare("t0")),
        12..=13 => Some(TableReference::partial("sch", "tbl")),
        14 => Some(TableReference::full("cat", "sch", "tbl")),
        // needs quoting
        _ => Some(TableReference::full("cat", "sch", "T.2")),
    }
}

fn name(i: u8) -> &'static str {
    NAMES[pick_index((i as u16) << 8, NAMES.len())]
}

fn meta_map(m: &Meta) -> BTreeMap<String, String> {
    m.iter().cloned().collect()
}

fn sorts(specs: &[SortSpec], ctx: &SessionContext) -> Result<Vec<Sort>, String> {
    specs.iter().map(|s| Ok(Sort::new(build(&s.e, ctx)?, s.asc, s.nulls_first))).collect()
}

fn null_treatment(i: u8) -> Option<NullTreatment> {
    match i % 3 {
        0 => None,
        1 => Some(NullTreatment::IgnoreNulls),
        _ => Some(NullTreatment::RespectNulls),
    }
}

fn frame(f: &FrameSpec, n_order: usize) -> Result<WindowFrame, String> {
    let units = match f.units % 3 {
        0 => WindowFrameUnits::Rows,
        1 => WindowFrameUnits::Range,
        _ => WindowFrameUnits::Groups,
    };
    let b = |b: &Bound| match b {
        Bound::UnboundedPreceding => WindowFrameBound::Preceding(ScalarValue::UInt64(None)),
        Bound::Preceding(n) => WindowFrameBound::Preceding(ScalarValue::UInt64(Some(*n as u64))),
        Bound::CurrentRow => WindowFrameBound::CurrentRow,
        Bound::Following(n) => WindowFrameBound::Following(ScalarValue::UInt64(Some(*n as u64))),
        Bound::UnboundedFollowing => WindowFrameBound::Following(ScalarValue::UInt64(None)),
    };
    // SQL rules a real caller obeys: start may not be UNBOUNDED FOLLOWING, end may not be UNBOUNDED PRECEDING
    if matches!(f.start, Bound::UnboundedFollowing) || matches!(f.end, Bound::UnboundedPreceding) {
        return Err("invalid frame bounds".into());
    }
    let wf = WindowFrame::new_bounds(units, b(&f.start), b(&f.end));
    match units {
        WindowFrameUnits::Range if wf.free_range() && n_order == 0 => Err("RANGE frame without ORDER BY is regularized by callers".into()),
        WindowFrameUnits::Range if !wf.free_range() && n_order != 1 => Err("RANGE offsets need exactly one ORDER BY".into()),
        WindowFrameUnits::Groups if n_order == 0 => Err("GROUPS needs ORDER BY".into()),
        _ => Ok(wf),
    }
}

pub fn build(s: &ESpec, ctx: &SessionContext) -> Result<Expr, String> {
    let bx = |e: &ESpec| -> Result<Box<Expr>, String> { Ok(Box::new(build(e, ctx)?)) };
    let list = |es: &[ESpec]| -> Result<Vec<Expr>, String> { es.iter().map(|e| build(e, ctx)).collect() };
    Ok(match s {
        ESpec::Col { rel, name: n } => Expr::Column(Column::new(table_ref(*rel), name(*n))),
        ESpec::Lit { kind, v, meta } => Expr::Literal(literal(*kind, *v), if meta.is_empty() { None } else { Some(FieldMetadata::new(meta_map(meta))) }),
        ESpec::Alias { e, rel, name: n, meta } => {
            let mut a = Alias::new(build(e, ctx)?, table_ref(*rel), name(*n));
            if !meta.is_empty() {
                a = a.with_metadata(Some(FieldMetadata::new(meta_map(meta))));
            }
            Expr::Alias(a)
        }
        ESpec::Bin { op, l, r } => Expr::BinaryExpr(BinaryExpr::new(bx(l)?, operator(*op), bx(r)?)),
        ESpec::Like { kind, negated, e, pat, escape } => {
            let like = Like::new(*negated, bx(e)?, bx(pat)?, *escape, kind % 3 == 1);
            if kind % 3 == 2 { Expr::SimilarTo(like) } else { Expr::Like(like) }
        }
        ESpec::Unary { op, e } => {
            let x = bx(e)?;
            match op % 10 {
                0 => Expr::Not(x),
                1 => Expr::IsNull(x),
                2 => Expr::IsNotNull(x),
                3 => Expr::IsTrue(x),
                4 => Expr::IsFalse(x),
                5 => Expr::IsUnknown(x),
                6 => Expr::IsNotTrue(x),
                7 => Expr::IsNotFalse(x),
                8 => Expr::IsNotUnknown(x),
                _ => Expr::Negative(x),
            }
        }
        ESpec::Between { e, negated, low, high } => Expr::Between(Between::new(bx(e)?, *negated, bx(low)?, bx(high)?)),
        ESpec::Case { operand, whens, else_ } => {
            if whens.is_empty() {
                return Err("CASE without WHEN".into());
            }
            let w = whens.iter().map(|(w, t)| Ok((bx(w)?, bx(t)?))).collect::<Result<Vec<_>, String>>()?;
            Expr::Case(Case::new(operand.as_ref().map(|o| bx(o)).transpose()?, w, else_.as_ref().map(|o| bx(o)).transpose()?))
        }
        ESpec::Cast { try_, e, ty, nullable, meta } => {
            let field = Arc::new(Field::new("", cast_type(*ty), *nullable).with_metadata(meta.iter().cloned().collect()));
            if *try_ { Expr::TryCast(TryCast::new_from_field(bx(e)?, field)) } else { Expr::Cast(Cast::new_from_field(bx(e)?, field)) }
        }
        ESpec::Func { f, args } => {
            let n = SCALAR_FUNCS[pick_index(*f, SCALAR_FUNCS.len())];
            let udf = ctx.udf(n).map_err(|e| format!("no scalar function {n}: {e}"))?;
            Expr::ScalarFunction(ScalarFunction::new_udf(udf, list(args)?))
        }
        ESpec::Agg { f, args, distinct, filter, order_by, null_treatment: nt } => {
            let n = AGG_FUNCS[pick_index(*f, AGG_FUNCS.len())];
            let udaf = ctx.udaf(n).map_err(|e| format!("no aggregate function {n}: {e}"))?;
            Expr::AggregateFunction(AggregateFunction::new_udf(udaf, list(args)?, *distinct, filter.as_ref().map(|f| bx(f)).transpose()?, sorts(order_by, ctx)?, null_treatment(*nt)))
        }
        ESpec::Win { f, args, partition_by, order_by, frame: fr, null_treatment: nt, distinct, filter } => {
            let (n, is_udwf) = WIN_FUNCS[pick_index(*f, WIN_FUNCS.len())];
            let def = if is_udwf { WindowFunctionDefinition::WindowUDF(ctx.udwf(n).map_err(|e| format!("no window function {n}: {e}"))?) } else { WindowFunctionDefinition::AggregateUDF(ctx.udaf(n).map_err(|e| format!("no aggregate function {n}: {e}"))?) };
            let order = sorts(order_by, ctx)?;
            let wf = match fr {
                Some(f) => frame(f, order.len())?,
                // what the planner picks when no frame is written
                None => WindowFrame::new(if order.is_empty() { None } else { Some(false) }),
            };
            if fr.is_none() && order.is_empty() {
                // default frame without ORDER BY is ROWS UNBOUNDED..UNBOUNDED: fine
            }
            let mut b = Expr::from(WindowFunction::new(def, list(args)?)).partition_by(list(partition_by)?).order_by(order).window_frame(wf).null_treatment(null_treatment(*nt));
            if *distinct {
                b = b.distinct();
            }
            if let Some(f) = filter {
                b = b.filter(build(f, ctx)?);
            }
            b.build().map_err(|e| format!("window builder: {e}"))?
        }
        ESpec::InList { e, list: l, negated } => Expr::InList(InList::new(bx(e)?, list(l)?, *negated)),
        ESpec::Placeholder { id, ty, nullable, meta } => {
            let field = ty.map(|t| Arc::new(Field::new("", cast_type(t), *nullable).with_metadata(meta.iter().cloned().collect())));
            Expr::Placeholder(Placeholder::new_with_field(if id % 2 == 0 { format!("${}", id / 2 + 1) } else { format!("$p{id}") }, field))
        }
        ESpec::Grouping { kind, sets } => match kind % 3 {
            0 => Expr::GroupingSet(GroupingSet::Rollup(list(sets.first().map(|v| v.as_slice()).unwrap_or(&[]))?)),
            1 => Expr::GroupingSet(GroupingSet::Cube(list(sets.first().map(|v| v.as_slice()).unwrap_or(&[]))?)),
            _ => Expr::GroupingSet(GroupingSet::GroupingSets(sets.iter().map(|s| list(s)).collect::<Result<Vec<_>, String>>()?)),
        },
        ESpec::Unnest { e, outer } => {
            let mut u = Unnest::new(build(e, ctx)?);
            u.outer = *outer;
            Expr::Unnest(u)
        }
    })
}

pub fn labels(s: &ESpec) -> Vec<String> {
    let mut out = std::collections::BTreeSet::new();
    fn go(s: &ESpec, out: &mut std::collections::BTreeSet<String>) {
        let mut add = |x: &str| {
            out.insert(format!("expr:{x}"));
        };
        match s {
            ESpec::Col { rel, .. } => add(if table_ref(*rel).is_some() { "column-qualified" } else { "column" }),
            ESpec::Lit { meta, .. } => add(if meta.is_empty() { "literal" } else { "literal+metadata" }),
            ESpec::Alias { meta, rel, .. } => {
                add(if meta.is_empty() { "alias" } else { "alias+metadata" });
                if table_ref(*rel).is_some() {
                    add("alias-with-relation");
                }
            }
            ESpec::Bin { op, .. } => {
                add("binary");
                add(&format!("op:{:?}", operator(*op)));
            }
            ESpec::Like { kind, escape, .. } => {
                add(["like", "ilike", "similar-to"][(kind % 3) as usize]);
                if escape.is_some() {
                    add("like-escape");
                }
            }
            ESpec::Unary { op, .. } => add(["not", "is-null", "is-not-null", "is-true", "is-false", "is-unknown", "is-not-true", "is-not-false", "is-not-unknown", "negative"][(op % 10) as usize]),
            ESpec::Between { .. } => add("between"),
            ESpec::Case { operand, .. } => add(if operand.is_some() { "case-operand" } else { "case" }),
            ESpec::Cast { try_, meta, nullable, .. } => {
                add(if *try_ { "try-cast" } else { "cast" });
                if !meta.is_empty() {
                    add("cast+metadata");
                }
                if !*nullable {
                    add("cast-non-nullable");
                }
            }
            ESpec::Func { .. } => add("scalar-function"),
            ESpec::Agg { distinct, filter, order_by, null_treatment, .. } => {
                add("aggregate");
                if *distinct {
                    add("agg-distinct");
                }
                if filter.is_some() {
                    add("agg-filter");
                }
                if !order_by.is_empty() {
                    add("agg-order-by");
                }
                if null_treatment % 3 != 0 {
                    add("agg-null-treatment");
                }
            }
            ESpec::Win { frame, distinct, filter, null_treatment, .. } => {
                add("window");
                if let Some(f) = frame {
                    add(["frame-rows", "frame-range", "frame-groups"][(f.units % 3) as usize]);
                }
                if *distinct {
                    add("win-distinct");
                }
                if filter.is_some() {
                    add("win-filter");
                }
                if null_treatment % 3 != 0 {
                    add("win-null-treatment");
                }
            }
            ESpec::InList { .. } => add("in-list"),
            ESpec::Placeholder { ty, meta, .. } => {
                add(if ty.is_some() { "placeholder-typed" } else { "placeholder" });
                if !meta.is_empty() && ty.is_some() {
                    add("placeholder+metadata");
                }
            }
            ESpec::Grouping { kind, .. } => add(["rollup", "cube", "grouping-sets"][(kind % 3) as usize]),
            ESpec::Unnest { .. } => add("unnest"),
        }
        for c in children(s) {
            go(c, out);
        }
    }
    go(s, &mut out);
    out.into_iter().collect()
}

pub fn children(s: &ESpec) -> Vec<&ESpec> {
    let mut v: Vec<&ESpec> = vec![];
    match s {
        ESpec::Col { .. } | ESpec::Lit { .. } | ESpec::Placeholder { .. } => {}
        ESpec::Alias { e, .. } | ESpec::Unary { e, .. } | ESpec::Cast { e, .. } | ESpec::Unnest { e, .. } => v.push(e),
        ESpec::Bin { l, r, .. } => {
            v.push(l);
            v.push(r)
        }
        ESpec::Like { e, pat, .. } => {
            v.push(e);
            v.push(pat)
        }
        ESpec::Between { e, low, high, .. } => {
            v.push(e);
            v.push(low);
            v.push(high)
        }
        ESpec::Case { operand, whens, else_ } => {
            v.extend(operand.iter().map(|b| b.as_ref()));
            for (w, t) in whens {
                v.push(w);
                v.push(t);
            }
            v.extend(else_.iter().map(|b| b.as_ref()));
        }
        ESpec::Func { args, .. } => v.extend(args.iter()),
        ESpec::Agg { args, filter, order_by, .. } => {
            v.extend(args.iter());
            v.extend(filter.iter().map(|b| b.as_ref()));
            v.extend(order_by.iter().map(|s| &s.e));
        }
        ESpec::Win { args, partition_by, order_by, filter, .. } => {
            v.extend(args.iter());
            v.extend(partition_by.iter());
            v.extend(order_by.iter().map(|s| &s.e));
            v.extend(filter.iter().map(|b| b.as_ref()));
        }
        ESpec::InList { e, list, .. } => {
            v.push(e);
            v.extend(list.iter());
        }
        ESpec::Grouping { sets, .. } => {
            for s in sets {
                v.extend(s.iter());
            }
        }
    }
    v
}

/// does the tree carry field metadata anywhere (alias / literal / cast target / typed placeholder)?
pub fn metadata_sites(s: &ESpec, out: &mut std::collections::BTreeSet<&'static str>) {
    match s {
        ESpec::Lit { meta, .. } if !meta.is_empty() => {
            out.insert("literal");
        }
        ESpec::Alias { meta, .. } if !meta.is_empty() => {
            out.insert("alias");
        }
        ESpec::Cast { meta, .. } if !meta.is_empty() => {
            out.insert("cast");
        }
        ESpec::Placeholder { meta, ty: Some(_), .. } if !meta.is_empty() => {
            out.insert("placeholder");
        }
        _ => {}
    }
    for c in children(s) {
        metadata_sites(c, out);
    }
}

// ---------------------------------------------------------------------------------------------
// strategies

fn meta_strategy() -> BoxedStrategy<Meta> {
    prop_oneof![
        24 => Just(vec![]),
        1 => Just(vec![("ARROW:extension:name".to_string(), "arrow.uuid".to_string())]),
        1 => prop::collection::vec(("[a-z]{1,4}", "[a-z0-9 ]{0,4}"), 1..3),
    ]
    .boxed()
}

fn bound() -> BoxedStrategy<Bound> {
    prop_oneof![Just(Bound::UnboundedPreceding), (0u8..4).prop_map(Bound::Preceding), Just(Bound::CurrentRow), (0u8..4).prop_map(Bound::Following), Just(Bound::UnboundedFollowing)].boxed()
}

fn leaf() -> BoxedStrategy<ESpec> {
    prop_oneof![
        4 => (any::<u8>(), any::<u8>()).prop_map(|(rel, name)| ESpec::Col { rel, name }),
        4 => (0u8..16, -6i64..40, meta_strategy()).prop_map(|(kind, v, meta)| ESpec::Lit { kind, v, meta }),
        1 => (any::<u8>(), prop::option::of(any::<u8>()), any::<bool>(), meta_strategy()).prop_map(|(id, ty, nullable, meta)| ESpec::Placeholder { id, ty, nullable: nullable || ty.is_none(), meta: if ty.is_some() { meta } else { vec![] } }),
    ]
    .boxed()
}

pub fn strategy(depth: u32) -> BoxedStrategy<ESpec> {
    leaf()
        .prop_recursive(depth, 24, 4, |inner| {
            let b = |s: BoxedStrategy<ESpec>| s.prop_map(Box::new);
            let i = inner.clone();
            let sort = (inner.clone(), any::<bool>(), any::<bool>()).prop_map(|(e, asc, nulls_first)| SortSpec { e, asc, nulls_first });
            prop_oneof![
                3 => (b(i.clone()), any::<u8>(), any::<u8>(), meta_strategy()).prop_map(|(e, rel, name, meta)| ESpec::Alias { e, rel, name, meta }),
                6 => (any::<u16>(), b(i.clone()), b(i.clone())).prop_map(|(op, l, r)| ESpec::Bin { op, l, r }),
                2 => (0u8..3, any::<bool>(), b(i.clone()), b(i.clone()), prop::option::of(prop::sample::select(vec!['\\', '#', 'é', '%']))).prop_map(|(kind, negated, e, pat, escape)| ESpec::Like { kind, negated, e, pat, escape }),
                4 => (0u8..10, b(i.clone())).prop_map(|(op, e)| ESpec::Unary { op, e }),
                2 => (b(i.clone()), any::<bool>(), b(i.clone()), b(i.clone())).prop_map(|(e, negated, low, high)| ESpec::Between { e, negated, low, high }),
                3 => (prop::option::of(b(i.clone())), prop::collection::vec((i.clone(), i.clone()), 1..3), prop::option::of(b(i.clone()))).prop_map(|(operand, whens, else_)| ESpec::Case { operand, whens, else_ }),
                3 => (any::<bool>(), b(i.clone()), any::<u8>(), prop::bool::weighted(0.85), meta_strategy()).prop_map(|(try_, e, ty, nullable, meta)| ESpec::Cast { try_, e, ty, nullable, meta }),
                3 => (any::<u16>(), prop::collection::vec(i.clone(), 0..3)).prop_map(|(f, args)| ESpec::Func { f, args }),
                3 => (any::<u16>(), prop::collection::vec(i.clone(), 0..3), any::<bool>(), prop::option::of(b(i.clone())), prop::collection::vec(sort.clone(), 0..3), 0u8..3)
                    .prop_map(|(f, args, distinct, filter, order_by, null_treatment)| ESpec::Agg { f, args, distinct, filter, order_by, null_treatment }),
                4 => (
                    (any::<u16>(), prop::collection::vec(i.clone(), 0..3), prop::collection::vec(i.clone(), 0..3), prop::collection::vec(sort, 0..3)),
                    prop::option::of((0u8..3, bound(), bound()).prop_map(|(units, start, end)| FrameSpec { units, start, end })),
                    0u8..3,
                    prop::bool::weighted(0.2),
                    prop::option::weighted(0.2, b(i.clone())),
                )
                    .prop_map(|((f, args, partition_by, order_by), frame, null_treatment, distinct, filter)| ESpec::Win { f, args, partition_by, order_by, frame, null_treatment, distinct, filter }),
                2 => (b(i.clone()), prop::collection::vec(i.clone(), 0..4), any::<bool>()).prop_map(|(e, list, negated)| ESpec::InList { e, list, negated }),
                1 => (0u8..3, prop::collection::vec(prop::collection::vec(i.clone(), 0..3), 1..3)).prop_map(|(kind, sets)| ESpec::Grouping { kind, sets }),
                1 => (b(i.clone()), any::<bool>()).prop_map(|(e, outer)| ESpec::Unnest { e, outer }),
            ]
        })
        .boxed()
}
