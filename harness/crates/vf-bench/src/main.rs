mod c46;

fn main() {
    // process-global environment of the placeholder part of C46: fixed before any thread exists
    c46::install_env();
    vf_kit::dispatch! {
        "c46" => c46::C46,
    }
}
