fn main() { vf_kit::hello(); }
