//! C46 — benchmark result validation accepts exactly the persisted results; placeholder precedence.
//!
//! One sub-command, two kinds of cases (weights 1 : 2 — a result case costs two sessions and a CSV round trip).
//!
//! **Results.** A table of 0–10 rows x 1–4 columns {BIGINT, DOUBLE, BOOLEAN, DATE, VARCHAR} with NULLs; text cells
//! are biased to '', `NULL`, `(empty)`, near misses of those, the `|` delimiter, quotes, CR/LF, tabs, `#`, `--`,
//! unicode. Two benchmark files are generated in a temp dir, both with `load` (CREATE TABLE + INSERT … VALUES on one
//! physical line; CR/LF spliced in with chr()), `run SELECT c0,.. FROM t ORDER BY rid` and `result <dir>/result.csv`
//! (every result file in the repository ends in `.csv`). Session 1: `SqlBenchmark::new` → `initialize` → `persist`
//! on the table P; session 2 (fresh SessionContext, like a later process): `new` → `initialize` → `run(ctx,true)` →
//! `verify` on the table Q — exactly what `sql_benchmark_runner::prepare_benchmark` does in its two modes.
//! (P, Q) = (T, mutate(T)) or (mutate(T), T); mutate = none | one cell replaced by another generated cell | by one
//! of NULL/''/'NULL'/'(empty)' | by a near miss of itself (blank added, case flipped, character dropped, trimmed,
//! number off by one / negated, date ±1, boolean flipped) | row dropped / duplicated / appended | column dropped /
//! added. target_partitions 1, 2 or 4. After `load` the harness checks that the engine holds the table of the case.
//! Oracle: P = Q logically → `verify` must return Ok; a differing row count, a differing column count (when there
//! are rows) or a differing cell that is not a documented equivalence → `verify` must return Err; differences that
//! are only documented equivalences → either verdict (labelled, not claimed).
//! Documented equivalences modelled (compare_results + its unit tests `assert_accepts_*`, nothing more): expected
//! `NULL` ~ actual empty; expected `(empty)` ~ actual empty or NULL; NULL and the text `NULL` render alike; and a
//! persisted empty string is an empty cell of the result file, which means NULL (the reason the `(empty)` marker
//! exists) — so persisted '' ~ actual NULL/'NULL' as well. One-directional as in the code: persisted NULL vs actual
//! `(empty)`, persisted 'a' vs actual NULL, etc. must be rejected.
//!
//! **Placeholders.** A template is constructed from literal text, `${K}`, `${K:-d}`, `${K|t|f}`, `${K:-d|t|f}`
//! (the true branch may contain `${K2}` / `${K2:-d2}` — the documented nesting, unit test
//! `process_replacements_resolves_variables_after_true_false_replacement`) over the keys vfc46_k0..k7 written in
//! lower / upper / mixed case, and placed in a `run` query, a `load` query, `name` or `subgroup`. Sources: the
//! caller's map (`new_with_replacements`, lower-case keys as the runner passes them), the process environment
//! (VFC46_K0..K3 set, K4..K7 removed by `main` before any thread exists; constant per run), defaults. Oracle:
//! reference substitution with precedence explicit > environment > default; only the value `true`
//! (case-insensitive) selects the true branch; a key without any source must make parsing fail. Observed through
//! `queries()`, `name()`, `subgroup()`, `replacement_mapping()`.
//!
//! Pinned while building (not a defect): DESIGN §9 item 6 suspected NULL / `NULL`-substring cells. The
//! `null_regex("NULL")` passed to `read_csv` is only used for schema inference (datasource-csv never hands it to the
//! scan decoder), so at scan time an empty cell is NULL and `xNULLy` stays text; unmutated results with NULLs, '',
//! `NULL`, `(empty)`, `|`, quotes and newlines all verify.
//!
//! Deviations from DESIGN.md: mutations go through a second generated table (both directions) instead of editing
//! the persisted file; floats are finite decimals and -0.0 is not generated (0.0 vs -0.0 is a debatable
//! "difference"); a differing column count of a result WITHOUT rows is accepted by `verify` (it compares rows) and
//! is not claimed either way; empty defaults / `|` inside simple defaults / variables in the FALSE branch are not
//! generated (undocumented syntax: `${A|t|x${B}}` leaves a stray `}` when A is true).
//!
//! Cost: quick 3 000 cases ≈ 30 CPU-s (29–47 s wall on the saturated sandbox); thorough 100 000 cases, 16 shards,
//! not yet measured to completion (the only attempt ran with temp dirs on the saturated shared disk and tripped the
//! per-case watchdog after 25 min; the saved case replays green in 2–25 s, i.e. it was I/O starvation — temp dirs now
//! live in /dev/shm when present, set VF_C46_DISK_TMP=1 to force the default temp dir).
//!
//! Sensitivity probes (benchmarks/src/sql_benchmark.rs, patches made with mkpatch, run as
//! `mutrun <patch> -- ./check C46 quick`; all six reported VIOLATION / exit 1 within the quick budget, the
//! unchanged tree passes seeds 0..4):
//! 1. `.take(query.column_count)` → `.take(query.column_count.saturating_sub(1))` (last column not compared, DESIGN
//!    probe): VIOLATION after 30 evaluations (persisted Int(0) vs actual NULL accepted).
//! 2. `expected_val == actual_val` → `expected_val.trim() == actual_val.trim()` (DESIGN probe): VIOLATION after 86
//!    evaluations (persisted "\r" vs actual "" accepted; also "NULL " vs "NULL").
//! 3. `lookup_replacement_value`: environment consulted before the caller's map (DESIGN probe): VIOLATION after 18
//!    evaluations (`${vfc46_k1}` with explicit TRUE resolved to the environment's `true`).
//! 4. row count test `!=` → `<` (extra actual rows ignored by the zip): VIOLATION after 91 evaluations.
//! 5. boolean branch `v.eq_ignore_ascii_case("true")` → `v == "true"`: VIOLATION after 12 evaluations.
//! 6. `expected_val == actual_val` → `expected_val.eq_ignore_ascii_case(actual_val)`: VIOLATION after 163
//!    evaluations (persisted NULL vs actual text `null` accepted).
use arrow::array::{Array, AsArray};
use arrow::datatypes::DataType;
use datafusion::prelude::{SessionConfig, SessionContext};
use datafusion_benchmarks::sql_benchmark::{QueryDirective, SqlBenchmark};
use proptest::prelude::*;
use serde::{Deserialize, Serialize};
use std::collections::HashMap;
use std::path::Path;
use vf_kit::engine::*;

pub struct C46;

/// Environment variables of the placeholder part: fixed for the whole process, set by `main` before
/// any thread exists. Keys K0..K3 are defined, K4..K7 are guaranteed absent.
pub const ENV_KEYS: [&str; 8] = ["VFC46_K0", "VFC46_K1", "VFC46_K2", "VFC46_K3", "VFC46_K4", "VFC46_K5", "VFC46_K6", "VFC46_K7"];
pub const ENV_VALUES: [Option<&str>; 8] = [Some("env zero"), Some("true"), Some("false"), Some("TrUe"), None, None, None, None];

pub fn install_env() {
    for (k, v) in ENV_KEYS.iter().zip(ENV_VALUES.iter()) {
        // SAFETY: called first thing in main, before any other thread is started.
        unsafe {
            match v {
                Some(v) => std::env::set_var(k, v),
                None => std::env::remove_var(k),
            }
        }
    }
}

// ---------------------------------------------------------------------------------------------
// case types

#[derive(Clone, Debug, Serialize, Deserialize)]
pub enum Case {
    Results(ResCase),
    Placeholders(PhCase),
}

#[derive(Clone, Copy, Debug, PartialEq, Serialize, Deserialize)]
pub enum Ty {
    Int,
    Float,
    Bool,
    Date,
    Text,
}

#[derive(Clone, Debug, PartialEq, Serialize, Deserialize)]
pub enum CellV {
    Null,
    Int(i64),
    /// decimal text of a finite double (never "-0")
    Float(String),
    Bool(bool),
    /// days since 1970-01-01 within years 1..=9999
    Date(i32),
    Text(String),
}

#[derive(Clone, Debug, Serialize, Deserialize)]
pub enum Mutation {
    None,
    /// replace one cell by the cell at the same position of `alt`
    Cell { row: u16, col: u16 },
    /// replace one cell by one of NULL / '' / 'NULL' / '(empty)' (text columns; NULL otherwise)
    CellSpecial { row: u16, col: u16, which: u8 },
    /// near miss derived from the cell itself: added blank, changed case, dropped character, number off by one, …
    CellTweak { row: u16, col: u16, kind: u8 },
    DropRow { row: u16 },
    DupRow { row: u16 },
    AppendAltRow,
    DropCol { col: u16 },
    AddCol,
}

#[derive(Clone, Debug, Serialize, Deserialize)]
pub struct ResCase {
    pub tys: Vec<Ty>,
    pub rows: Vec<Vec<CellV>>,
    /// same shape as `rows` (at least one row): source of replacement cells / the appended row
    pub alt: Vec<Vec<CellV>>,
    pub mutation: Mutation,
    /// true: the mutated table is persisted and the original verified; false: the other way round
    pub mutate_persisted: bool,
    pub partitions: u8,
}

#[derive(Clone, Debug, Serialize, Deserialize)]
pub struct KeyRef {
    /// index into the key pool K0..K7
    pub idx: u8,
    /// 0 lower, 1 upper, 2 mixed case
    pub casing: u8,
}

#[derive(Clone, Debug, Serialize, Deserialize)]
pub enum Inner {
    Lit(String),
    Var { key: KeyRef, default: Option<String> },
}

#[derive(Clone, Debug, Serialize, Deserialize)]
pub enum Part {
    Lit(String),
    /// `${K}` / `${K:-default}`
    Var { key: KeyRef, default: Option<String> },
    /// `${K|t|f}` / `${K:-default|t|f}`; the true branch may contain variables
    Branch { key: KeyRef, default: Option<String>, t: Vec<Inner>, f: String },
}

#[derive(Clone, Copy, Debug, PartialEq, Serialize, Deserialize)]
pub enum Site {
    Run,
    Load,
    Name,
    Subgroup,
}

#[derive(Clone, Debug, Serialize, Deserialize)]
pub struct PhCase {
    /// caller-provided replacements: (key index, value); keys are passed in lower case like the real callers do
    pub explicit: Vec<(u8, String)>,
    pub parts: Vec<Part>,
    pub site: Site,
}

// ---------------------------------------------------------------------------------------------
// generators

const DATE_MIN: i32 = -719_162; // 0001-01-01
const DATE_MAX: i32 = 2_932_896; // 9999-12-31

fn text_cell() -> BoxedStrategy<String> {
    let special = prop::sample::select(vec!["", "NULL", "(empty)", "null", "Null", " NULL", "NULL ", "xNULLy", "NULLNULL", "(empty) ", "()", " ", "|", "a|b", "\"", "\"\"", "'", ",", "\n", "a\nb", "\r\n", "\t", "NaN", "0", "true"])
        .prop_map(|s| s.to_string());
    let piece = prop_oneof![
        2 => Just("|".to_string()),
        2 => Just("\"".to_string()),
        1 => Just("'".to_string()),
        1 => Just(",".to_string()),
        2 => Just("\n".to_string()),
        1 => Just("\r".to_string()),
        1 => Just("\t".to_string()),
        2 => Just(" ".to_string()),
        1 => Just("\\".to_string()),
        1 => Just("#".to_string()),
        1 => Just("--".to_string()),
        1 => Just(";".to_string()),
        1 => Just("NULL".to_string()),
        1 => Just("(empty)".to_string()),
        4 => "[a-zA-Z0-9]{1,4}".prop_map(|s| s),
        2 => prop::sample::select(vec!["é", "ß", "日本", "😀", "\u{301}", "\u{a0}", "\u{2028}"]).prop_map(|s| s.to_string()),
    ];
    let built = prop::collection::vec(piece, 1..5).prop_map(|v| v.concat());
    prop_oneof![2 => Just(String::new()), 1 => Just("NULL".to_string()), 1 => Just("(empty)".to_string()), 3 => special, 6 => built].boxed()
}

fn cell(ty: Ty) -> BoxedStrategy<CellV> {
    let v: BoxedStrategy<CellV> = match ty {
        Ty::Int => prop_oneof![4 => (-50i64..50).prop_map(CellV::Int), 1 => any::<i64>().prop_map(CellV::Int)].boxed(),
        Ty::Float => prop_oneof![
            4 => (-9999i64..=9999, 0u32..4).prop_map(|(m, k)| {
                let f = (m as f64) / 10f64.powi(k as i32);
                CellV::Float(format!("{}", if f == 0.0 { 0.0 } else { f }))
            }),
            1 => prop::sample::select(vec!["1e300", "1e-300", "123456789012.5", "0.1", "3.0e10"]).prop_map(|s| CellV::Float(s.to_string())),
        ]
        .boxed(),
        Ty::Bool => any::<bool>().prop_map(CellV::Bool).boxed(),
        Ty::Date => prop_oneof![3 => (0i32..30000).prop_map(CellV::Date), 1 => (DATE_MIN..=DATE_MAX).prop_map(CellV::Date)].boxed(),
        Ty::Text => text_cell().prop_map(CellV::Text).boxed(),
    };
    prop_oneof![4 => v, 1 => Just(CellV::Null)].boxed()
}

fn table(tys: &[Ty], rows: std::ops::RangeInclusive<usize>) -> BoxedStrategy<Vec<Vec<CellV>>> {
    let row: Vec<BoxedStrategy<CellV>> = tys.iter().map(|t| cell(*t)).collect();
    prop::collection::vec(row, rows).boxed()
}

fn mutation() -> BoxedStrategy<Mutation> {
    prop_oneof![
        5 => Just(Mutation::None),
        4 => (any::<u16>(), any::<u16>()).prop_map(|(row, col)| Mutation::Cell { row, col }),
        4 => (any::<u16>(), any::<u16>(), 0u8..4).prop_map(|(row, col, which)| Mutation::CellSpecial { row, col, which }),
        5 => (any::<u16>(), any::<u16>(), 0u8..6).prop_map(|(row, col, kind)| Mutation::CellTweak { row, col, kind }),
        1 => any::<u16>().prop_map(|row| Mutation::DropRow { row }),
        1 => any::<u16>().prop_map(|row| Mutation::DupRow { row }),
        1 => Just(Mutation::AppendAltRow),
        1 => any::<u16>().prop_map(|col| Mutation::DropCol { col }),
        1 => Just(Mutation::AddCol),
    ]
    .boxed()
}

fn res_case(tier: Tier) -> BoxedStrategy<Case> {
    let max_rows = tier.pick(10usize, 24);
    let ty = prop_oneof![2 => Just(Ty::Int), 1 => Just(Ty::Float), 1 => Just(Ty::Bool), 1 => Just(Ty::Date), 5 => Just(Ty::Text)];
    prop::collection::vec(ty, 1..=4)
        .prop_flat_map(move |tys| (table(&tys, 0..=max_rows), Just(tys)))
        .prop_flat_map(|(rows, tys)| {
            let n = rows.len().max(1);
            (Just(rows), table(&tys, n..=n), Just(tys), mutation(), any::<bool>(), prop::sample::select(vec![1u8, 1, 2, 4]))
        })
        .prop_map(|(rows, alt, tys, mutation, mutate_persisted, partitions)| Case::Results(ResCase { tys, rows, alt, mutation, mutate_persisted, partitions }))
        .boxed()
}

fn safe_value(allow_empty: bool) -> BoxedStrategy<String> {
    let words = prop::sample::select(vec!["true", "TRUE", "True", "false", "FALSE", "yes", "1", "0", "csv", "parquet", "/tmp/data", "a b", "x.y", "truee", " true", "tru", "é", "none"]).prop_map(|s| s.to_string());
    let gen_ = "[A-Za-z0-9_./ =:,-]{1,8}".prop_map(|s| s);
    if allow_empty { prop_oneof![4 => words, 3 => gen_, 1 => Just(String::new())].boxed() } else { prop_oneof![4 => words, 3 => gen_].boxed() }
}

fn key_ref() -> BoxedStrategy<KeyRef> {
    (0u8..8, 0u8..3).prop_map(|(idx, casing)| KeyRef { idx, casing }).boxed()
}

fn lit() -> BoxedStrategy<String> {
    prop_oneof![3 => "[A-Za-z0-9_./ =:,-]{0,6}".prop_map(|s| s), 1 => prop::sample::select(vec!["$", "$$", "{", "{x", "$ {", ":-", "é", "%"]).prop_map(|s| s.to_string())].boxed()
}

fn part() -> BoxedStrategy<Part> {
    let inner = prop_oneof![
        2 => "[A-Za-z0-9_./ -]{1,5}".prop_map(Inner::Lit),
        2 => (key_ref(), prop::option::weighted(0.6, safe_value(false))).prop_map(|(key, default)| Inner::Var { key, default }),
    ];
    prop_oneof![
        2 => lit().prop_map(Part::Lit),
        4 => (key_ref(), prop::option::weighted(0.6, safe_value(false))).prop_map(|(key, default)| Part::Var { key, default }),
        3 => (key_ref(), prop::option::weighted(0.6, safe_value(false)), prop::collection::vec(inner, 1..3), safe_value(false)).prop_map(|(key, default, t, f)| Part::Branch { key, default, t, f }),
    ]
    .boxed()
}

fn ph_case() -> BoxedStrategy<Case> {
    (
        prop::collection::vec((0u8..8, safe_value(true)), 0..5),
        prop::collection::vec(part(), 1..5),
        prop::sample::select(vec![Site::Run, Site::Run, Site::Load, Site::Name, Site::Subgroup]),
    )
        .prop_map(|(mut explicit, parts, site)| {
            // one value per key: the first occurrence wins
            let mut seen = vec![];
            explicit.retain(|(k, _)| {
                if seen.contains(k) {
                    false
                } else {
                    seen.push(*k);
                    true
                }
            });
            Case::Placeholders(PhCase { explicit, parts, site })
        })
        .boxed()
}

// ---------------------------------------------------------------------------------------------
// results part

fn civil(days: i32) -> String {
    let z = days as i64 + 719_468;
    let era = z.div_euclid(146_097);
    let doe = z.rem_euclid(146_097);
    let yoe = (doe - doe / 1460 + doe / 36_524 - doe / 146_096) / 365;
    let y = yoe + era * 400;
    let doy = doe - (365 * yoe + yoe / 4 - yoe / 100);
    let mp = (5 * doy + 2) / 153;
    let d = doy - (153 * mp + 2) / 5 + 1;
    let m = if mp < 10 { mp + 3 } else { mp - 9 };
    let y = if m <= 2 { y + 1 } else { y };
    format!("{y:04}-{m:02}-{d:02}")
}

fn sql_type(t: Ty) -> &'static str {
    match t {
        Ty::Int => "BIGINT",
        Ty::Float => "DOUBLE",
        Ty::Bool => "BOOLEAN",
        Ty::Date => "DATE",
        Ty::Text => "VARCHAR",
    }
}

/// SQL string literal on ONE physical line (the benchmark file format is line oriented: a blank line ends a
/// query block, `#`/`--` at a line start is a comment): CR/LF are spliced in with chr().
fn sql_string(s: &str) -> String {
    let mut out = String::from("'");
    for ch in s.chars() {
        match ch {
            '\'' => out.push_str("''"),
            '\n' => out.push_str("' || chr(10) || '"),
            '\r' => out.push_str("' || chr(13) || '"),
            c => out.push(c),
        }
    }
    out.push('\'');
    out
}

fn sql_cell(c: &CellV, t: Ty) -> String {
    match c {
        CellV::Null => format!("CAST(NULL AS {})", sql_type(t)),
        CellV::Int(v) => format!("CAST('{v}' AS BIGINT)"),
        CellV::Float(s) => format!("CAST('{s}' AS DOUBLE)"),
        CellV::Bool(b) => format!("{b}"),
        CellV::Date(d) => format!("CAST('{}' AS DATE)", civil(*d)),
        CellV::Text(s) => format!("CAST({} AS VARCHAR)", sql_string(s)),
    }
}

fn cell_matches_type(c: &CellV, t: Ty) -> bool {
    match (c, t) {
        (CellV::Null, _) => true,
        (CellV::Int(_), Ty::Int) | (CellV::Bool(_), Ty::Bool) | (CellV::Text(_), Ty::Text) => true,
        (CellV::Date(d), Ty::Date) => (DATE_MIN..=DATE_MAX).contains(d),
        (CellV::Float(s), Ty::Float) => s.parse::<f64>().map(|f| f.is_finite() && !(f == 0.0 && f.is_sign_negative())).unwrap_or(false) && s.chars().all(|ch| ch.is_ascii_digit() || matches!(ch, '.' | '-' | 'e' | '+')),
        _ => false,
    }
}

#[derive(Clone, Debug)]
struct Table {
    tys: Vec<Ty>,
    rows: Vec<Vec<CellV>>,
}

fn res_domain_ok(c: &ResCase) -> Result<(), String> {
    if c.tys.is_empty() || c.tys.len() > 8 {
        return Err("column count".into());
    }
    if c.alt.is_empty() {
        return Err("alt must have a row".into());
    }
    for r in c.rows.iter().chain(c.alt.iter()) {
        if r.len() != c.tys.len() || r.iter().zip(&c.tys).any(|(v, t)| !cell_matches_type(v, *t)) {
            return Err("row does not match the column types".into());
        }
        for v in r {
            if let CellV::Text(s) = v {
                // `${` would be a placeholder of the benchmark file syntax, not data
                if s.contains("${") || s.contains('\u{0}') {
                    return Err("text cell with placeholder syntax".into());
                }
            }
        }
    }
    if !(1..=16).contains(&c.partitions) {
        return Err("partitions".into());
    }
    Ok(())
}

fn idx(choice: u16, len: usize) -> usize {
    pick_index(choice, len)
}

/// Apply the mutation (falling back to an applicable one by construction). Returns the mutated table and a label.
fn mutate(c: &ResCase) -> (Table, &'static str) {
    let base = Table { tys: c.tys.clone(), rows: c.rows.clone() };
    let nrows = c.rows.len();
    let ncols = c.tys.len();
    let mut t = base.clone();
    match &c.mutation {
        Mutation::None => (t, "none"),
        Mutation::Cell { row, col } => {
            if nrows == 0 {
                t.rows.push(c.alt[0].clone());
                return (t, "append-row");
            }
            let (r, k) = (idx(*row, nrows), idx(*col, ncols));
            t.rows[r][k] = c.alt[r.min(c.alt.len() - 1)][k].clone();
            (t, "cell")
        }
        Mutation::CellSpecial { row, col, which } => {
            if nrows == 0 {
                t.rows.push(c.alt[0].clone());
                return (t, "append-row");
            }
            let (r, k) = (idx(*row, nrows), idx(*col, ncols));
            t.rows[r][k] = if c.tys[k] == Ty::Text {
                match which {
                    0 => CellV::Null,
                    1 => CellV::Text(String::new()),
                    2 => CellV::Text("NULL".into()),
                    _ => CellV::Text("(empty)".into()),
                }
            } else {
                CellV::Null
            };
            (t, "cell-special")
        }
        Mutation::CellTweak { row, col, kind } => {
            if nrows == 0 {
                t.rows.push(c.alt[0].clone());
                return (t, "append-row");
            }
            let (r, k) = (idx(*row, nrows), idx(*col, ncols));
            t.rows[r][k] = tweak(&t.rows[r][k], c.tys[k], *kind);
            (t, "cell-tweak")
        }
        Mutation::DropRow { row } => {
            if nrows == 0 {
                t.rows.push(c.alt[0].clone());
                return (t, "append-row");
            }
            t.rows.remove(idx(*row, nrows));
            (t, "drop-row")
        }
        Mutation::DupRow { row } => {
            if nrows == 0 {
                t.rows.push(c.alt[0].clone());
                return (t, "append-row");
            }
            let r = idx(*row, nrows);
            let copy = t.rows[r].clone();
            t.rows.insert(r, copy);
            (t, "dup-row")
        }
        Mutation::AppendAltRow => {
            t.rows.push(c.alt[0].clone());
            (t, "append-row")
        }
        Mutation::DropCol { col } => {
            if ncols < 2 {
                t.tys.push(Ty::Int);
                for (i, r) in t.rows.iter_mut().enumerate() {
                    r.push(CellV::Int(i as i64));
                }
                return (t, "add-col");
            }
            let k = idx(*col, ncols);
            t.tys.remove(k);
            for r in t.rows.iter_mut() {
                r.remove(k);
            }
            (t, "drop-col")
        }
        Mutation::AddCol => {
            t.tys.push(Ty::Int);
            for (i, r) in t.rows.iter_mut().enumerate() {
                r.push(if i % 3 == 2 { CellV::Null } else { CellV::Int(i as i64) });
            }
            (t, "add-col")
        }
    }
}

/// a value close to `v` but different from it
fn tweak(v: &CellV, ty: Ty, kind: u8) -> CellV {
    match v {
        CellV::Null => match ty {
            Ty::Int => CellV::Int(0),
            Ty::Float => CellV::Float("0".into()),
            Ty::Bool => CellV::Bool(false),
            Ty::Date => CellV::Date(0),
            Ty::Text => CellV::Text(if kind % 2 == 0 { "null".into() } else { " ".into() }),
        },
        CellV::Int(i) => CellV::Int(match kind % 3 {
            0 => i.wrapping_add(1),
            1 => {
                if *i == 0 || *i == i64::MIN {
                    1
                } else {
                    -i
                }
            }
            _ => {
                if *i == 0 {
                    10
                } else {
                    i.wrapping_mul(10)
                }
            }
        }),
        CellV::Float(s) => {
            let f: f64 = s.parse().unwrap_or(0.0);
            let g = match kind % 3 {
                0 => f + 0.5,
                1 => {
                    if f == 0.0 {
                        1.0
                    } else {
                        -f
                    }
                }
                _ => {
                    if f == 0.0 {
                        0.25
                    } else {
                        f * 2.0
                    }
                }
            };
            let g = if !g.is_finite() || g == f { 1.0 + f.abs().min(1e10) } else { g };
            CellV::Float(format!("{:e}", if g == 0.0 { 0.0 } else { g }))
        }
        CellV::Bool(b) => CellV::Bool(!b),
        CellV::Date(d) => CellV::Date(if *d >= DATE_MAX { d - 1 } else if kind % 2 == 0 { d + 1 } else if *d > DATE_MIN { d - 1 } else { d + 1 }),
        CellV::Text(s) => {
            let t = match kind % 6 {
                0 => format!("{s} "),
                1 => format!(" {s}"),
                2 => {
                    let mut done = false;
                    let t: String = s
                        .chars()
                        .map(|ch| {
                            if !done && ch.is_ascii_alphabetic() {
                                done = true;
                                if ch.is_ascii_lowercase() { ch.to_ascii_uppercase() } else { ch.to_ascii_lowercase() }
                            } else {
                                ch
                            }
                        })
                        .collect();
                    if done { t } else { format!("{s}x") }
                }
                3 => format!("{s}x"),
                4 => {
                    let mut t = s.clone();
                    if t.pop().is_none() {
                        t.push('x');
                    }
                    t
                }
                _ => {
                    let tr = s.trim().to_string();
                    if tr != *s { tr } else { format!("{s}\t") }
                }
            };
            CellV::Text(t)
        }
    }
}

fn cells_equal(a: &CellV, b: &CellV) -> bool {
    match (a, b) {
        (CellV::Float(x), CellV::Float(y)) => x.parse::<f64>().ok().map(f64::to_bits) == y.parse::<f64>().ok().map(f64::to_bits),
        _ => a == b,
    }
}

/// text of a cell as the documented comparison rules see it, for TEXT/NULL cells only
fn rule_text(c: &CellV) -> Option<String> {
    match c {
        CellV::Null => Some("NULL".into()),
        CellV::Text(s) => Some(s.clone()),
        _ => None,
    }
}

/// Is a differing (persisted, actual) cell pair one of the documented NULL/empty-cell equivalences (or textually
/// identical)? Rules of `compare_results` (pinned by its unit tests `assert_accepts_*`): expected `NULL` ~ actual
/// empty; expected `(empty)` ~ actual empty or NULL; NULL and the text `NULL` render alike. A persisted empty string
/// is an empty cell of the pipe-delimited result file, and an empty cell of a result file means NULL (that is why the
/// `(empty)` marker exists), so a persisted '' may stand for the expected text `` or `NULL`.
fn tolerated(persisted: &CellV, actual: &CellV) -> bool {
    match (rule_text(persisted), rule_text(actual)) {
        (Some(e), Some(a)) => {
            let rule = |e: &str| e == a || (e == "NULL" && a.is_empty()) || (e == "(empty)" && (a.is_empty() || a == "NULL"));
            rule(&e) || (e.is_empty() && rule("NULL"))
        }
        _ => false,
    }
}

#[derive(Debug, PartialEq)]
enum Expect {
    Accept,
    Reject(String),
    /// only documented-equivalent differences: either verdict is fine
    Either,
}

fn expectation(p: &Table, q: &Table) -> Expect {
    if p.rows.len() != q.rows.len() {
        return Expect::Reject(format!("row count {} persisted vs {} actual", p.rows.len(), q.rows.len()));
    }
    if p.rows.is_empty() {
        // no rows on either side: the validation compares rows, a differing column count of an empty result is
        // invisible to it — not claimed either way
        return if p.tys.len() == q.tys.len() { Expect::Accept } else { Expect::Either };
    }
    if p.tys.len() != q.tys.len() {
        return Expect::Reject(format!("column count {} persisted vs {} actual", p.tys.len(), q.tys.len()));
    }
    let mut any_diff = false;
    for (ri, (pr, qr)) in p.rows.iter().zip(&q.rows).enumerate() {
        for (ci, (a, b)) in pr.iter().zip(qr).enumerate() {
            if cells_equal(a, b) {
                continue;
            }
            any_diff = true;
            if !tolerated(a, b) {
                return Expect::Reject(format!("row {ri} column {ci}: persisted {a:?} vs actual {b:?}"));
            }
        }
    }
    if any_diff { Expect::Either } else { Expect::Accept }
}

fn bench_text(t: &Table, result_path: &Path) -> String {
    let mut s = String::new();
    s.push_str("load\nCREATE TABLE t (rid INT");
    for (i, ty) in t.tys.iter().enumerate() {
        s.push_str(&format!(", c{i} {}", sql_type(*ty)));
    }
    s.push_str(")\n\n");
    if !t.rows.is_empty() {
        s.push_str("load\nINSERT INTO t VALUES ");
        for (ri, r) in t.rows.iter().enumerate() {
            if ri > 0 {
                s.push_str(", ");
            }
            s.push_str(&format!("({ri}"));
            for (v, ty) in r.iter().zip(&t.tys) {
                s.push_str(", ");
                s.push_str(&sql_cell(v, *ty));
            }
            s.push(')');
        }
        s.push_str("\n\n");
    }
    s.push_str("run\nSELECT ");
    for i in 0..t.tys.len() {
        if i > 0 {
            s.push_str(", ");
        }
        s.push_str(&format!("c{i}"));
    }
    s.push_str(" FROM t ORDER BY rid\n\n");
    s.push_str(&format!("result {}\n", result_path.display()));
    s
}

enum Step {
    Ok,
    /// verify returned an error (the verdict "rejected")
    Rejected(String),
    /// something before verify failed
    Broken(String),
}

/// harness self-check: the table the engine holds after `load` is the table of the case (text columns exactly)
async fn check_loaded(ctx: &SessionContext, t: &Table) -> Result<(), String> {
    let df = ctx.sql("SELECT * FROM t ORDER BY rid").await.map_err(|e| format!("self-check query: {e}"))?;
    let batches = df.collect().await.map_err(|e| format!("self-check query: {e}"))?;
    let total: usize = batches.iter().map(|b| b.num_rows()).sum();
    if total != t.rows.len() {
        return Err(format!("loaded {total} rows, case has {}", t.rows.len()));
    }
    let mut row = 0usize;
    for b in &batches {
        for i in 0..b.num_rows() {
            for (k, ty) in t.tys.iter().enumerate() {
                let col = b.column(k + 1);
                let want = &t.rows[row][k];
                if col.is_null(i) != (*want == CellV::Null) {
                    return Err(format!("row {row} column {k}: nullness differs from the case"));
                }
                if *ty == Ty::Text && !col.is_null(i) {
                    let got = arrow::compute::cast(col, &DataType::Utf8).map_err(|e| e.to_string())?;
                    let got = got.as_string::<i32>().value(i).to_string();
                    if CellV::Text(got.clone()) != *want {
                        return Err(format!("row {row} column {k}: loaded text {got:?}, case has {want:?}"));
                    }
                }
            }
            row += 1;
        }
    }
    Ok(())
}

async fn persist_then_verify(dir: &Path, p: &Table, q: &Table, partitions: usize) -> Step {
    let result_path = dir.join("result.csv");
    let cfg = || SessionConfig::new().with_target_partitions(partitions);
    // --- first session: load the persisted table, run, persist
    let file_p = dir.join("p.benchmark");
    if let Err(e) = std::fs::write(&file_p, bench_text(p, &result_path)) {
        return Step::Broken(format!("harness: cannot write benchmark file: {e}"));
    }
    let ctx1 = SessionContext::new_with_config(cfg());
    let mut b1 = match SqlBenchmark::new(&ctx1, &file_p, dir).await {
        Ok(b) => b,
        Err(e) => return Step::Broken(format!("parsing the generated benchmark file failed: {e}")),
    };
    if let Err(e) = b1.initialize(&ctx1).await {
        return Step::Broken(format!("initialize (persist side) failed: {e}"));
    }
    if let Err(e) = check_loaded(&ctx1, p).await {
        return Step::Broken(format!("harness: {e}"));
    }
    if let Err(e) = b1.persist(&ctx1).await {
        return Step::Broken(format!("persist failed: {e}"));
    }
    // --- second session: load the actual table, run, verify against the persisted file
    let file_q = dir.join("q.benchmark");
    if let Err(e) = std::fs::write(&file_q, bench_text(q, &result_path)) {
        return Step::Broken(format!("harness: cannot write benchmark file: {e}"));
    }
    let ctx2 = SessionContext::new_with_config(cfg());
    let mut b2 = match SqlBenchmark::new(&ctx2, &file_q, dir).await {
        Ok(b) => b,
        Err(e) => return Step::Broken(format!("parsing the generated benchmark file failed: {e}")),
    };
    if let Err(e) = b2.initialize(&ctx2).await {
        return Step::Broken(format!("initialize (verify side) failed: {e}"));
    }
    if let Err(e) = check_loaded(&ctx2, q).await {
        return Step::Broken(format!("harness: {e}"));
    }
    match b2.run(&ctx2, true).await {
        Ok(n) if n == q.rows.len() => {}
        Ok(n) => return Step::Broken(format!("run returned {n} rows, table has {}", q.rows.len())),
        Err(e) => return Step::Broken(format!("run failed: {e}")),
    }
    match b2.verify(&ctx2).await {
        Ok(()) => Step::Ok,
        Err(e) => Step::Rejected(e.to_string()),
    }
}

/// Per-case temp dir; on a memory file system when there is one (the shared disk of the sandbox is saturated by
/// other people's builds, which made a 30-CPU-second quick run take minutes of wall time). Removed on drop.
fn case_tempdir() -> std::io::Result<tempfile::TempDir> {
    let shm = Path::new("/dev/shm");
    if std::env::var_os("VF_C46_DISK_TMP").is_none() && shm.is_dir() {
        if let Ok(d) = tempfile::Builder::new().prefix("vf-c46-").tempdir_in(shm) {
            return Ok(d);
        }
    }
    tempfile::tempdir()
}

fn csv_needs_quoting(s: &str) -> bool {
    s.contains('|') || s.contains('"') || s.contains('\n') || s.contains('\r')
}

fn run_results(c: &ResCase) -> CaseResult {
    if let Err(why) = res_domain_ok(c) {
        return CaseResult::discard(format!("outside domain: {why}"));
    }
    let original = Table { tys: c.tys.clone(), rows: c.rows.clone() };
    let (mutated, mut_label) = mutate(c);
    let (p, q) = if c.mutate_persisted { (mutated, original) } else { (original, mutated) };
    let expect = expectation(&p, &q);

    let dir = match case_tempdir() {
        Ok(d) => d,
        Err(e) => return CaseResult::inconclusive(format!("tempdir: {e}")),
    };
    let rt = match tokio::runtime::Builder::new_current_thread().enable_all().build() {
        Ok(rt) => rt,
        Err(e) => return CaseResult::inconclusive(format!("tokio runtime: {e}")),
    };
    let step = rt.block_on(async { tokio::time::timeout(std::time::Duration::from_secs(150), persist_then_verify(dir.path(), &p, &q, c.partitions as usize)).await });
    let persisted_file = std::fs::read_to_string(dir.path().join("result.csv")).unwrap_or_else(|_| "<result.csv is not a readable file>".into());
    drop(rt);
    drop(dir);
    let step = match step {
        Ok(s) => s,
        Err(_) => return CaseResult::inconclusive("persist/verify did not finish within 150 s"),
    };

    let texts = |t: &Table| -> Vec<String> { t.rows.iter().flatten().filter_map(|v| if let CellV::Text(s) = v { Some(s.clone()) } else { None }).collect() };
    let all_texts: Vec<String> = texts(&p).into_iter().chain(texts(&q)).collect();
    let has_null = p.rows.iter().chain(q.rows.iter()).flatten().any(|v| *v == CellV::Null);
    let has_empty = all_texts.iter().any(|s| s.is_empty());
    let has_quoting = all_texts.iter().any(|s| csv_needs_quoting(s));
    let mut labels: Vec<String> = vec!["kind=results".into(), format!("res:mutation={mut_label}"), format!("res:partitions={}", c.partitions)];
    labels.push(format!("res:cols={}", p.tys.len().min(q.tys.len())));
    labels.push(match p.rows.len() {
        0 => "res:persisted-rows=0".to_string(),
        1 => "res:persisted-rows=1".to_string(),
        _ => "res:persisted-rows>1".to_string(),
    });
    for (flag, l) in [
        (has_null, "res:has-null"),
        (has_empty, "res:has-empty-string"),
        (has_quoting, "res:cell-needs-quoting"),
        (all_texts.iter().any(|s| s == "NULL"), "res:text-NULL"),
        (all_texts.iter().any(|s| s == "(empty)"), "res:text-(empty)"),
        (all_texts.iter().any(|s| s != "NULL" && s.contains("NULL")), "res:text-contains-NULL"),
        (all_texts.iter().any(|s| s.contains('|')), "res:pipe-in-cell"),
        (all_texts.iter().any(|s| s.contains('\n') || s.contains('\r')), "res:newline-in-cell"),
        (all_texts.iter().any(|s| !s.is_ascii()), "res:non-ascii"),
        (c.mutate_persisted, "res:mutated-side=persisted"),
    ] {
        if flag {
            labels.push(l.into());
        }
    }
    let describe = || format!("persisted table {p:?}\n  actual table {q:?}\n  result.csv: {persisted_file:?}");
    match (expect, step) {
        (_, Step::Broken(e)) if e.starts_with("harness:") => CaseResult::inconclusive(e).labels(labels),
        (_, Step::Broken(e)) => CaseResult::violation(format!("persist/verify pipeline failed before the comparison: {e}\n  {}", describe())).labels(labels),
        (Expect::Accept, Step::Ok) => CaseResult::pass().nontrivial(has_null && has_empty && has_quoting).label("res:expect=accept").labels(labels),
        (Expect::Accept, Step::Rejected(e)) => CaseResult::violation(format!("verify rejects the results that were just persisted: {e}\n  {}", describe())).label("res:expect=accept").labels(labels),
        (Expect::Reject(_), Step::Rejected(_)) => CaseResult::pass().nontrivial(true).label("res:expect=reject").labels(labels),
        (Expect::Reject(why), Step::Ok) => CaseResult::violation(format!("verify accepts a result that differs from the persisted one ({why})\n  {}", describe())).label("res:expect=reject").labels(labels),
        (Expect::Either, Step::Ok) => CaseResult::pass().label("res:expect=either").label("res:equivalent-difference-accepted").labels(labels),
        (Expect::Either, Step::Rejected(_)) => CaseResult::pass().label("res:expect=either").label("res:equivalent-difference-rejected").labels(labels),
    }
}

// ---------------------------------------------------------------------------------------------
// placeholder part

fn key_text(k: &KeyRef) -> String {
    let base = format!("vfc46_k{}", k.idx.min(7));
    match k.casing {
        0 => base,
        1 => base.to_uppercase(),
        _ => base.chars().enumerate().map(|(i, ch)| if i % 2 == 0 { ch.to_ascii_uppercase() } else { ch }).collect(),
    }
}

fn render_var(key: &KeyRef, default: &Option<String>) -> String {
    match default {
        Some(d) => format!("${{{}:-{d}}}", key_text(key)),
        None => format!("${{{}}}", key_text(key)),
    }
}

fn render_part(p: &Part) -> String {
    match p {
        Part::Lit(s) => s.clone(),
        Part::Var { key, default } => render_var(key, default),
        Part::Branch { key, default, t, f } => {
            let tv: String = t
                .iter()
                .map(|i| match i {
                    Inner::Lit(s) => s.clone(),
                    Inner::Var { key, default } => render_var(key, default),
                })
                .collect();
            match default {
                Some(d) => format!("${{{}:-{d}|{tv}|{f}}}", key_text(key)),
                None => format!("${{{}|{tv}|{f}}}", key_text(key)),
            }
        }
    }
}

/// reference lookup: explicit > environment > default
fn lookup(explicit: &HashMap<u8, String>, key: &KeyRef, default: &Option<String>) -> Result<String, String> {
    let i = key.idx.min(7);
    if let Some(v) = explicit.get(&i) {
        return Ok(v.clone());
    }
    if let Some(v) = ENV_VALUES[i as usize] {
        return Ok(v.to_string());
    }
    default.clone().ok_or_else(|| format!("vfc46_k{i}"))
}

/// Ok(resolved text) or Err(key that has no value)
fn resolve(parts: &[Part], explicit: &HashMap<u8, String>) -> Result<String, String> {
    let mut out = String::new();
    for p in parts {
        match p {
            Part::Lit(s) => out.push_str(s),
            Part::Var { key, default } => out.push_str(&lookup(explicit, key, default)?),
            Part::Branch { key, default, t, f } => {
                let v = lookup(explicit, key, default)?;
                if v.eq_ignore_ascii_case("true") {
                    for i in t {
                        match i {
                            Inner::Lit(s) => out.push_str(s),
                            Inner::Var { key, default } => out.push_str(&lookup(explicit, key, default)?),
                        }
                    }
                } else {
                    out.push_str(f);
                }
            }
        }
    }
    Ok(out)
}

fn safe_text(s: &str, allow_empty: bool) -> bool {
    (allow_empty || !s.is_empty()) && !s.chars().any(|c| matches!(c, '$' | '{' | '}' | '|' | '\n' | '\r' | '\'' | ';' | '#'))
}

fn ph_domain_ok(c: &PhCase) -> Result<(), String> {
    for (i, (k, v)) in c.explicit.iter().enumerate() {
        if *k > 7 || !safe_text(v, true) || c.explicit[..i].iter().any(|(o, _)| o == k) {
            return Err("explicit replacement".into());
        }
    }
    let dflt_ok = |d: &Option<String>| d.as_ref().map(|d| safe_text(d, false)).unwrap_or(true);
    for p in &c.parts {
        match p {
            Part::Lit(s) => {
                // literal text may hold lone `$` / `{` but never `${` (that would be another placeholder)
                if s.chars().any(|c| matches!(c, '}' | '|' | '\n' | '\r' | '\'' | ';' | '#')) || s.contains("${") {
                    return Err("literal part".into());
                }
            }
            Part::Var { default, .. } => {
                if !dflt_ok(default) {
                    return Err("default".into());
                }
            }
            Part::Branch { default, t, f, .. } => {
                if !dflt_ok(default) || !safe_text(f, false) || t.is_empty() {
                    return Err("branch".into());
                }
                for i in t {
                    match i {
                        Inner::Lit(s) if !safe_text(s, false) => return Err("branch literal".into()),
                        Inner::Var { default, .. } if !dflt_ok(default) => return Err("branch default".into()),
                        _ => {}
                    }
                }
            }
        }
    }
    Ok(())
}

fn run_placeholders(c: &PhCase) -> CaseResult {
    if let Err(why) = ph_domain_ok(c) {
        return CaseResult::discard(format!("outside domain: {why}"));
    }
    // a literal ending in `$` followed by a part starting with `{`, or `$`+`{…` across parts, would forge `${`
    let template: String = c.parts.iter().map(render_part).collect();
    let mut forged = false;
    {
        let mut acc = String::new();
        for p in &c.parts {
            let r = render_part(p);
            if matches!(p, Part::Lit(_)) {
                let joined = format!("{acc}{r}");
                if joined.matches("${").count() != acc.matches("${").count() {
                    forged = true;
                }
            }
            acc.push_str(&r);
        }
    }
    if forged {
        return CaseResult::discard("outside domain: adjacent literals forge a placeholder");
    }
    let explicit: HashMap<u8, String> = c.explicit.iter().cloned().collect();
    let expected = resolve(&c.parts, &explicit);

    let text = match c.site {
        Site::Run => format!("run\nSELECT '<{template}>' AS x\n"),
        Site::Load => format!("load\nSELECT '<{template}>' AS x\n\nrun\nSELECT 1\n"),
        Site::Name => format!("name <{template}>\n\nrun\nSELECT 1\n"),
        Site::Subgroup => format!("subgroup <{template}>\n\nrun\nSELECT 1\n"),
    };
    let dir = match case_tempdir() {
        Ok(d) => d,
        Err(e) => return CaseResult::inconclusive(format!("tempdir: {e}")),
    };
    let file = dir.path().join("ph.benchmark");
    if let Err(e) = std::fs::write(&file, &text) {
        return CaseResult::inconclusive(format!("cannot write benchmark file: {e}"));
    }
    let rt = match tokio::runtime::Builder::new_current_thread().enable_all().build() {
        Ok(rt) => rt,
        Err(e) => return CaseResult::inconclusive(format!("tokio runtime: {e}")),
    };
    let caller_map: HashMap<String, String> = c.explicit.iter().map(|(k, v)| (format!("vfc46_k{k}"), v.clone())).collect();
    let ctx = SessionContext::new();
    let parsed = rt.block_on(SqlBenchmark::new_with_replacements(&ctx, &file, dir.path(), caller_map.clone()));
    drop(rt);
    drop(dir);

    // classification
    let mut sources_max = 0usize;
    let mut count_sources = |key: &KeyRef, default: &Option<String>| {
        let i = key.idx.min(7);
        let n = explicit.contains_key(&i) as usize + ENV_VALUES[i as usize].is_some() as usize + default.is_some() as usize;
        sources_max = sources_max.max(n);
    };
    let mut has_branch = false;
    let mut has_nested = false;
    for p in &c.parts {
        match p {
            Part::Lit(_) => {}
            Part::Var { key, default } => count_sources(key, default),
            Part::Branch { key, default, t, .. } => {
                has_branch = true;
                count_sources(key, default);
                for i in t {
                    if let Inner::Var { key, default } = i {
                        has_nested = true;
                        count_sources(key, default);
                    }
                }
            }
        }
    }
    let mut labels: Vec<String> = vec!["kind=placeholders".into(), format!("ph:site={:?}", c.site), format!("ph:max-sources-per-key={sources_max}")];
    if has_branch {
        labels.push("ph:boolean-branch".into());
    }
    if has_nested {
        labels.push("ph:variable-in-true-branch".into());
    }
    if !c.explicit.is_empty() {
        labels.push("ph:explicit-values".into());
    }
    if c.parts.iter().any(|p| matches!(p, Part::Var { key, .. } | Part::Branch { key, .. } if key.casing != 0)) {
        labels.push("ph:key-case-varied".into());
    }

    match (expected, parsed) {
        (Err(key), Err(e)) => {
            let msg = e.to_string();
            if msg.to_lowercase().contains(&format!("missing value for key '{key}'")) {
                CaseResult::pass().label("ph:missing-value-error").labels(labels)
            } else {
                // an error is required; its wording is not part of the property
                CaseResult::pass().label("ph:missing-value-error").label("ph:other-error-text").labels(labels)
            }
        }
        (Err(key), Ok(b)) => CaseResult::violation(format!(
            "template {template:?}: key {key} has no explicit value, no environment value and no default, yet the file was accepted (name {:?}, queries {:?})",
            b.name(),
            b.queries()
        ))
        .labels(labels),
        (Ok(want), Err(e)) => CaseResult::violation(format!("template {template:?} with explicit {:?} should resolve to {want:?} but parsing failed: {e}", c.explicit)).labels(labels),
        (Ok(want), Ok(b)) => {
            let wrapped = format!("<{want}>");
            let got: Option<String> = match c.site {
                Site::Run => b.queries().get(&QueryDirective::Run).and_then(|v| v.first().cloned()),
                Site::Load => b.queries().get(&QueryDirective::Load).and_then(|v| v.first().cloned()),
                Site::Name => Some(b.name().to_string()),
                Site::Subgroup => Some(b.subgroup().to_string()),
            };
            let want_full = match c.site {
                Site::Run | Site::Load => format!("SELECT '{wrapped}' AS x"),
                Site::Name | Site::Subgroup => wrapped.clone(),
            };
            if got.as_deref() != Some(want_full.as_str()) {
                return CaseResult::violation(format!(
                    "template {template:?} with explicit {:?} (environment {:?}) resolved to {got:?}, reference substitution (explicit > environment > default) gives {want_full:?}",
                    c.explicit,
                    ENV_KEYS.iter().zip(ENV_VALUES.iter()).filter(|(_, v)| v.is_some()).collect::<Vec<_>>()
                ))
                .labels(labels);
            }
            // the caller's values are still what replacement_mapping() reports
            for (k, v) in &caller_map {
                if b.replacement_mapping().get(k) != Some(v) {
                    return CaseResult::violation(format!("replacement_mapping()[{k:?}] = {:?}, caller passed {v:?}", b.replacement_mapping().get(k))).labels(labels);
                }
            }
            if matches!(c.site, Site::Name) && b.replacement_mapping().get("bench_name") != Some(&wrapped) {
                return CaseResult::violation(format!("name resolved to {wrapped:?} but replacement_mapping()[bench_name] = {:?}", b.replacement_mapping().get("bench_name"))).labels(labels);
            }
            CaseResult::pass().nontrivial(sources_max >= 2).labels(labels)
        }
    }
}

// ---------------------------------------------------------------------------------------------

impl Property for C46 {
    type Case = Case;
    fn id(&self) -> &'static str {
        "C46"
    }
    fn sub(&self) -> &'static str {
        "c46"
    }
    fn strategy(&self, tier: Tier) -> BoxedStrategy<Case> {
        prop_oneof![1 => res_case(tier), 2 => ph_case()].boxed()
    }
    fn budget(&self, tier: Tier) -> Budget {
        Budget::new(tier.pick(3_000, 100_000), tier.pick(8, 16)).min_nontrivial(tier.pick(300, 15_000)).case_timeout(tier.pick(180, 900)).shrink(1000, 60)
    }
    fn rule(&self) -> String {
        "1:2 mix of result cases (0-10 rows x 1-4 typed columns loaded from VALUES by a generated benchmark file, persisted, then a possibly mutated table verified against the persisted file through SqlBenchmark) \
         and placeholder cases (generated ${K}, ${K:-d}, ${K|t|f}, ${K:-d|t|f} templates over 8 keys with caller/environment/default sources); \
         non-trivial result case = mutation that must be rejected, or an accepted unmutated result with a NULL, an empty string and a cell needing CSV quoting; \
         non-trivial placeholder case = resolves without error and some key has at least two competing sources; distinct by case JSON"
            .into()
    }
    fn assumptions(&self) -> Vec<String> {
        vec![
            "documented equivalences (compare_results and its unit tests): expected `NULL` ~ actual empty; expected `(empty)` ~ actual empty or NULL; NULL and the text `NULL` render alike — such differences are not claimed either way".into(),
            "a differing column count of a result without rows is not claimed either way (the validation compares rows)".into(),
            "environment variables VFC46_K0..K7 are set/removed once at process start, before any thread".into(),
            "callers pass replacement keys in lower case (as benchmarks/src/sql_benchmark_runner.rs does)".into(),
        ]
    }
    fn run(&self, case: &Case) -> CaseResult {
        match case {
            Case::Results(c) => run_results(c),
            Case::Placeholders(c) => run_placeholders(c),
        }
    }
}
