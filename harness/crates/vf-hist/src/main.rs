mod c39;
mod c41;
mod c48;
mod dfexpr;
mod exprgen;
mod tape;

fn main() {
    vf_kit::dispatch! {
        "c39" => c39::C39,
        "c41" => c41::C41,
        "c48" => c48::C48,
    }
}
