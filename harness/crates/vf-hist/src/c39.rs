//! C39 — data-modifying statements on memory tables follow SQL semantics.
//!
//! Domain: target table `t(id BIGINT unique, a BIGINT, b BIGINT, s VARCHAR, p BOOLEAN)` with 0–15 rows (thorough
//! 0–30) held by a `MemTable` in 1–3 partitions and batches of 1–6 rows (or one batch), a second table `u` of the same
//! schema, `target_partitions` 1–3; a history of 1–10 statements (thorough ≤ 14), each built from its own choice tape:
//! `INSERT INTO t[(column list, any order / subset)] VALUES …` (1–3 rows, literals / typed NULLs / constant
//! expressions), `INSERT INTO t[(cols)] SELECT exprs FROM t|u AS r0 [WHERE pred]` (from itself or the other table),
//! `UPDATE t SET c = expr(other columns)[, …] [WHERE pred]` (1–3 assignments, the swap `SET a = b, b = a`, column
//! references bare or qualified `t.c`), `DELETE FROM t [WHERE pred]`. Expressions come from `exprgen` (the scalar C01/C33
//! grammar without division: arithmetic, CASE, COALESCE, NULLIF, `||`, LIKE, IN lists with NULLs, BETWEEN, IS [NOT]
//! DISTINCT FROM, IS TRUE/…/UNKNOWN, three-valued AND/OR/NOT); predicates additionally take the forms "constant /
//! contradictory" (`false`, `NULL`, `1 = 0`, `a = 1 AND a = 2`) and "top-level conjunct `col [NOT] IN (SELECT c FROM u
//! [WHERE …])` / `[NOT] EXISTS (SELECT … FROM u WHERE …)`" (uncorrelated).
//!
//! Oracle: reference model (`Vec<Row>` + `refsql::expr::eval_expr`, subquery conjuncts through `refsql::eval`): after
//! every statement (run through `SessionContext::sql(..).collect()`) the reported `count` equals the model's number
//! of inserted / matched (WHERE is TRUE) rows and `SELECT * FROM t` equals the model as a multiset; all assignments of
//! an UPDATE are evaluated on the pre-update row; rows whose condition is FALSE or NULL are untouched.
//! A statement on which the reference reports Int64 overflow ends the history (the engine wraps; nothing is required);
//! a statement the engine rejects cleanly (Plan / Schema / SQL / NotImplemented) ends the history as well (no
//! requirement is placed on a rejected statement); `Internal` errors, panics and run-time errors (the grammar has no
//! fallible operation) are violations.
//!
//! Non-trivial (DESIGN.md): the checked prefix contains an UPDATE with a cross-column assignment whose WHERE was NULL
//! for some row and that touched > 0 and < all rows.
//!
//! Known finding `dml-where-lost` (genuine, /verif/regressions/C39/c39/, fix /verif/fixes/C39-dml-where-lost.diff):
//! the physical planner reverse-engineers the WHERE of UPDATE/DELETE from the *optimized* input plan
//! (`extract_dml_filters`): when the optimizer folds the predicate to FALSE/NULL the input becomes an EmptyRelation, and
//! when it turns a subquery predicate into a join the Filter disappears — in both cases no filter reaches
//! `MemTable::delete_from/update` and EVERY row is deleted / counted as updated (`DELETE FROM t WHERE false` empties the
//! table; `DELETE FROM t WHERE a IN (SELECT a FROM u)` too). The signature is computed dynamically: some UPDATE/DELETE
//! of the history has a WHERE and its optimized input plan contains an EmptyRelation or a Join.
//! Known finding `update-assignment-type-drift` / `insert-type-drift` (genuine): `update_to_plan` / `insert_to_plan` decide whether
//! to cast an assignment / inserted value to the column type on the *uncoerced* expression; when TypeCoercion later lifts a
//! CASE with a VARCHAR (= Utf8View) branch to Utf8View, UPDATE fails in `zip` ("arguments need to have the same data type") and
//! INSERT .. SELECT silently stores a Utf8View batch in the Utf8 table, after which any statement rebuilding batches fails
//! ("column types must match schema types"). Fixes: /verif/fixes/C39-update-assignment-type-drift.diff, C39-insert-type-drift.diff.
//! Lesser finding (clean rejection, counted as `stopped:rejected:cse`): an assignment or predicate with a repeated
//! sub-expression (`SET a = (a + b) * (a + b)`) fails with `Schema error: No field named __common_expr_1` because
//! common-subexpression elimination inserts a projection the extraction does not see through.
//!
//! Deviations from DESIGN.md: no division in the grammar (keeps run-time errors out, so any engine error is decidable);
//! subquery conjuncts and constant predicates added (they are where the defect lives).
//!
//! Sensitivity probes (tools/mutrun, patches in crates/vf-hist/probes/, quick tier, seed 0):
//! * probe-x.diff — `MemTable::delete_from` keeps only rows whose predicate is FALSE (NULL treated like TRUE for deletion):
//!   VIOLATION after 4 cases ("table contents differ from the reference model after `DELETE FROM t WHERE (a = id)`").
//! * probe-y.diff — `MemTable::update` counts every row of a touched batch (`total_updated += batch.num_rows()`):
//!   VIOLATION after 5 cases ("`UPDATE t SET a = id WHERE (a = 0)` reported 1 but the reference model affects 0 of 1 rows").
//! * fixes-all.diff (the three C39 repair patches + the C41/C48 ones): `./check C39 quick` exits 0 with known_excluded = 0 (704
//!   histories evaluated, none fails) — the known findings no longer reproduce and nothing else breaks.
use crate::exprgen::{self, EOpts, Scope, ScopeCol};
use crate::tape::Tape;
use datafusion::common::tree_node::{TreeNode, TreeNodeRecursion};
use datafusion::logical_expr::LogicalPlan;
use datafusion::prelude::SessionContext;
use proptest::prelude::*;
use serde::{Deserialize, Serialize};
use vf_df::{ErrClass, Variant, batches_to_rows, classify_error, run_in_context};
use vf_kit::engine::*;
use vf_kit::refsql::expr::{ExprCtx, Flags, in3, not3};
use vf_kit::refsql::{self, BinOp, ColDef, Db, Expr, GenConfig, Query, RefError, RowCtx, Select, SelectItem, Table, TableRef, TableSchema, Ty, Value, eval_expr, expr_to_sql};

pub struct C39;

pub const COLS: [(&str, Ty); 5] = [("id", Ty::Int), ("a", Ty::Int), ("b", Ty::Int), ("s", Ty::Str), ("p", Ty::Bool)];

#[derive(Clone, Debug, Serialize, Deserialize, PartialEq)]
pub enum Stmt {
    /// `cols` empty = no column list
    InsertValues { cols: Vec<String>, rows: Vec<Vec<Expr>> },
    /// `INSERT INTO t[(cols)] SELECT items FROM <from> AS r0 [WHERE where_]`
    InsertSelect { cols: Vec<String>, from: String, items: Vec<Expr>, where_: Option<Expr> },
    Update { sets: Vec<(String, Expr)>, where_: Option<Expr> },
    Delete { where_: Option<Expr> },
}

#[derive(Clone, Debug, Serialize, Deserialize)]
pub struct Case {
    pub t: Table,
    pub u: Table,
    pub mem_partitions: usize,
    pub batch_rows: Option<usize>,
    pub target_partitions: usize,
    pub stmts: Vec<Stmt>,
}

// ---------------------------------------------------------------------------------------------
// generator

fn scope(rel: Option<&str>) -> Scope {
    Scope { cols: COLS.iter().map(|(n, ty)| ScopeCol::new(rel, n, *ty)).collect() }
}

const OPTS: EOpts = EOpts { floats: false, wide_ints: true };

fn col_ty(name: &str) -> Ty {
    COLS.iter().find(|(n, _)| *n == name).map(|(_, t)| *t).unwrap_or(Ty::Int)
}

/// subquery over `u AS r1` returning one column of type `ty` (or a constant for EXISTS)
fn subquery(t: &mut Tape, ty: Option<Ty>) -> Query {
    let sc = scope(Some("r1"));
    let item = match ty {
        Some(ty) => {
            let cands: Vec<&ScopeCol> = sc.cols.iter().filter(|c| c.ty == ty).collect();
            cands[t.below(cands.len())].expr()
        }
        None => Expr::int(1),
    };
    let where_ = if ty.is_none() || t.chance(50) { Some(exprgen::bool_expr(t, &sc, 1, OPTS)) } else { None };
    Query::simple(Select {
        distinct: false,
        items: vec![SelectItem { expr: item, alias: "k0".into() }],
        from: Some(TableRef::Table { name: "u".into(), alias: "r1".into() }),
        where_,
        group_by: refsql::GroupBy::None,
        having: None,
        qualify: None,
    })
}

/// WHERE of an UPDATE / DELETE
fn dml_predicate(t: &mut Tape, sc: &Scope) -> Expr {
    match t.weighted(&[20, 58, 10, 3, 3, 6]) {
        // column <op> literal: NULL for the rows holding NULL
        0 => {
            let c = &sc.cols[1 + t.below(sc.cols.len() - 1)];
            match c.ty {
                Ty::Bool => c.expr(),
                ty => Expr::bin(exprgen::cmp_op(t), c.expr(), exprgen::lit(t, ty, OPTS)),
            }
        }
        1 => exprgen::bool_expr(t, sc, 2, OPTS),
        2 => exprgen::bool_expr(t, sc, 3, OPTS),
        // constant or contradictory
        3 => match t.below(5) {
            0 => Expr::bool(false),
            1 => Expr::Null(Ty::Bool),
            2 => Expr::eq(Expr::int(1), Expr::int(0)),
            3 => {
                let c = sc.cols[1].expr();
                Expr::and(Expr::eq(c.clone(), Expr::int(1)), Expr::eq(c, Expr::int(2)))
            }
            _ => Expr::bool(true),
        },
        // subquery conjunct
        4 => {
            let lead = if t.chance(50) { Some(exprgen::bool_expr(t, sc, 1, OPTS)) } else { None };
            let sub = if t.chance(65) {
                let cands: Vec<&ScopeCol> = sc.cols.iter().filter(|c| c.ty != Ty::Bool).collect();
                let c = cands[t.below(cands.len())];
                Expr::InSubquery { e: Box::new(c.expr()), q: Box::new(subquery(t, Some(c.ty))), negated: t.chance(35) }
            } else {
                Expr::Exists { q: Box::new(subquery(t, None)), negated: t.chance(35) }
            };
            match lead {
                Some(l) => Expr::and(l, sub),
                None => sub,
            }
        }
        // conjunction of two simple comparisons (split into two filters by the planner)
        _ => {
            let mut parts = vec![];
            for _ in 0..2 {
                let c = &sc.cols[t.below(3)];
                parts.push(Expr::bin(exprgen::cmp_op(t), c.expr(), exprgen::lit(t, Ty::Int, OPTS)));
            }
            let r = parts.pop().unwrap();
            Expr::and(parts.pop().unwrap(), r)
        }
    }
}

fn column_list(t: &mut Tape) -> Vec<String> {
    // subset in a rotated / reversed order; never empty
    let n = 1 + t.below(COLS.len());
    let start = t.below(COLS.len());
    let rev = t.chance(30);
    let mut names: Vec<String> = (0..n).map(|i| COLS[(start + i) % COLS.len()].0.to_string()).collect();
    if rev {
        names.reverse();
    }
    names
}

fn value_expr(t: &mut Tape, name: &str, fresh_id: &mut i64) -> Expr {
    let ty = col_ty(name);
    if name == "id" && !t.chance(15) {
        *fresh_id += 1;
        return Expr::int(*fresh_id);
    }
    // literals, typed NULLs and flat constant expressions only: a CASE with a VARCHAR-typed NULL branch inside VALUES fails in
    // the engine even in a plain `SELECT * FROM (VALUES (CASE ..))` (schema computed before type coercion) — not a DML matter
    match t.weighted(&[70, 15, 15]) {
        0 => exprgen::lit(t, ty, OPTS),
        1 => Expr::Null(ty),
        _ => match ty {
            Ty::Int => Expr::bin([BinOp::Add, BinOp::Sub, BinOp::Mul][t.below(3)], exprgen::lit(t, ty, OPTS), exprgen::lit(t, ty, OPTS)),
            Ty::Str => Expr::bin(BinOp::Concat, exprgen::lit(t, ty, OPTS), exprgen::lit(t, ty, OPTS)),
            Ty::Bool => Expr::Not(Box::new(exprgen::lit(t, ty, OPTS))),
            Ty::Float => exprgen::lit(t, ty, OPTS),
        },
    }
}

pub fn build_stmt(tape: Vec<u8>, seq: usize) -> Stmt {
    let mut t = Tape::new(tape);
    let t = &mut t;
    match t.weighted(&[4, 20, 44, 16, 16]) {
        0 => Stmt::Delete { where_: None },
        1 => {
            let sc = scope(if t.chance(15) { Some("t") } else { None });
            Stmt::Delete { where_: Some(dml_predicate(t, &sc)) }
        }
        2 => {
            let sc = scope(if t.chance(20) { Some("t") } else { None });
            let assignable = ["a", "b", "s", "p"];
            let mut sets: Vec<(String, Expr)> = vec![];
            if t.chance(22) {
                sets.push(("a".into(), sc.cols[2].expr()));
                sets.push(("b".into(), sc.cols[1].expr()));
                if t.chance(30) {
                    sets.push(("s".into(), exprgen::expr(t, Ty::Str, &sc, 1, OPTS)));
                }
            } else {
                let n = 1 + t.weighted(&[60, 30, 10]);
                let start = t.below(assignable.len());
                for i in 0..n {
                    let name = assignable[(start + i) % assignable.len()];
                    let d = 1 + t.below(2) as u32;
                    sets.push((name.to_string(), exprgen::expr(t, col_ty(name), &sc, d, OPTS)));
                }
            }
            let where_ = if t.chance(88) { Some(dml_predicate(t, &sc)) } else { None };
            Stmt::Update { sets, where_ }
        }
        3 => {
            let cols = if t.chance(35) { column_list(t) } else { vec![] };
            let names: Vec<String> = if cols.is_empty() { COLS.iter().map(|c| c.0.to_string()).collect() } else { cols.clone() };
            let n = 1 + t.below(3);
            let mut fresh = 100 + 10 * seq as i64;
            let rows = (0..n).map(|_| names.iter().map(|c| value_expr(t, c, &mut fresh)).collect()).collect();
            Stmt::InsertValues { cols, rows }
        }
        _ => {
            let cols = if t.chance(25) { column_list(t) } else { vec![] };
            let names: Vec<String> = if cols.is_empty() { COLS.iter().map(|c| c.0.to_string()).collect() } else { cols.clone() };
            let from = if t.chance(50) { "t" } else { "u" }.to_string();
            let sc = scope(Some("r0"));
            let items = names
                .iter()
                .map(|c| {
                    if c == "id" {
                        Expr::bin(BinOp::Add, sc.cols[0].expr(), Expr::int(1000 * (seq as i64 + 1)))
                    } else {
                        let d = t.below(2) as u32;
                        exprgen::expr(t, col_ty(c), &sc, d, OPTS)
                    }
                })
                .collect();
            let where_ = if t.chance(60) { Some(exprgen::bool_expr(t, &sc, 2, OPTS)) } else { None };
            Stmt::InsertSelect { cols, from, items, where_ }
        }
    }
}

fn table_cfg(max_t: usize) -> (GenConfig, GenConfig) {
    let schema = |name: &str| TableSchema { name: name.into(), cols: COLS.iter().map(|(n, ty)| ColDef { name: n.to_string(), ty: *ty }).collect(), unique: Some("id".into()) };
    let mut ct = GenConfig::standard(1, max_t, 0);
    ct.tables = vec![schema("t")];
    let mut cu = GenConfig::standard(1, 6, 0);
    cu.tables = vec![schema("u")];
    (ct, cu)
}

// ---------------------------------------------------------------------------------------------
// SQL text

fn where_sql(w: &Option<Expr>) -> String {
    match w {
        None => String::new(),
        Some(e) => format!(" WHERE {}", expr_to_sql(e)),
    }
}

fn col_list_sql(cols: &[String]) -> String {
    if cols.is_empty() { String::new() } else { format!("({})", cols.join(", ")) }
}

pub fn stmt_sql(s: &Stmt) -> String {
    match s {
        Stmt::InsertValues { cols, rows } => {
            let rs: Vec<String> = rows.iter().map(|r| format!("({})", r.iter().map(expr_to_sql).collect::<Vec<_>>().join(", "))).collect();
            format!("INSERT INTO t{} VALUES {}", col_list_sql(cols), rs.join(", "))
        }
        Stmt::InsertSelect { cols, from, items, where_ } => {
            let its: Vec<String> = items.iter().enumerate().map(|(i, e)| format!("{} AS k{i}", expr_to_sql(e))).collect();
            format!("INSERT INTO t{} SELECT {} FROM {} AS r0{}", col_list_sql(cols), its.join(", "), from, where_sql(where_))
        }
        Stmt::Update { sets, where_ } => {
            let ss: Vec<String> = sets.iter().map(|(c, e)| format!("{c} = {}", expr_to_sql(e))).collect();
            format!("UPDATE t SET {}{}", ss.join(", "), where_sql(where_))
        }
        Stmt::Delete { where_ } => format!("DELETE FROM t{}", where_sql(where_)),
    }
}

// ---------------------------------------------------------------------------------------------
// reference model

struct DmlCtx<'a> {
    row: RowCtx<'a>,
    db: &'a Db,
}

impl ExprCtx for DmlCtx<'_> {
    fn col(&self, rel: Option<&str>, name: &str) -> Result<Value, RefError> {
        self.row.col(rel, name)
    }
    fn hook(&self, e: &Expr) -> Option<Result<Value, RefError>> {
        let tv = |t: Option<bool>| match t {
            None => Value::Null,
            Some(b) => Value::Bool(b),
        };
        match e {
            Expr::InSubquery { e: x, q, negated } => Some((|| -> Result<Value, RefError> {
                let v = eval_expr(x, self)?;
                let r = refsql::eval(q, self.db)?;
                let cands: Vec<Value> = r.rows.iter().map(|r| r[0].clone()).collect();
                let t = in3(&v, &cands)?;
                Ok(tv(if *negated { not3(t) } else { t }))
            })()),
            Expr::Exists { q, negated } => Some((|| -> Result<Value, RefError> {
                let r = refsql::eval(q, self.db)?;
                Ok(Value::Bool(r.rows.is_empty() == *negated))
            })()),
            _ => None,
        }
    }
    fn flags(&self) -> Option<&Flags> {
        Some(&self.row.flags)
    }
}

#[derive(Default)]
struct StmtFacts {
    count: usize,
    rows_before: usize,
    where_null_some: bool,
    where_true: usize,
    cross_column: bool,
}

fn refs_other_column(target: &str, e: &Expr) -> bool {
    let mut found = false;
    exprgen::walk(e, &mut |x| {
        if let Expr::Col { name, .. } = x {
            if name != target {
                found = true;
            }
        }
    });
    found
}

struct Model {
    t: Vec<Vec<Value>>,
    u: Table,
}

impl Model {
    fn db(&self) -> Db {
        Db { tables: vec![Table { name: "t".into(), cols: self.u.cols.clone(), rows: self.t.clone() }, self.u.clone()] }
    }

    fn apply(&mut self, s: &Stmt) -> Result<StmtFacts, RefError> {
        let metas = |rel: &str| -> Vec<(Option<String>, String)> { COLS.iter().map(|(n, _)| (Some(rel.to_string()), n.to_string())).collect() };
        let db = self.db();
        let mut facts = StmtFacts { rows_before: self.t.len(), ..Default::default() };
        let place = |cols: &[String], vals: Vec<Value>| -> Vec<Value> {
            if cols.is_empty() {
                return vals;
            }
            let mut row = vec![Value::Null; COLS.len()];
            for (c, v) in cols.iter().zip(vals) {
                if let Some(i) = COLS.iter().position(|(n, _)| n == c) {
                    row[i] = v;
                }
            }
            row
        };
        match s {
            Stmt::InsertValues { cols, rows } => {
                let m: Vec<(Option<String>, String)> = vec![];
                let mut new = vec![];
                for r in rows {
                    let empty: Vec<Value> = vec![];
                    let ctx = RowCtx::new(&m, &empty);
                    let mut vals = vec![];
                    for e in r {
                        vals.push(eval_expr(e, &ctx)?);
                    }
                    new.push(place(cols, vals));
                }
                facts.count = new.len();
                self.t.extend(new);
            }
            Stmt::InsertSelect { cols, from, items, where_ } => {
                let m = metas("r0");
                let src: Vec<Vec<Value>> = if from == "t" { self.t.clone() } else { self.u.rows.clone() };
                let mut new = vec![];
                for r in &src {
                    let ctx = DmlCtx { row: RowCtx::new(&m, r), db: &db };
                    if let Some(w) = where_ {
                        if !eval_expr(w, &ctx)?.is_true() {
                            continue;
                        }
                    }
                    let mut vals = vec![];
                    for e in items {
                        vals.push(eval_expr(e, &ctx)?);
                    }
                    new.push(place(cols, vals));
                }
                facts.count = new.len();
                self.t.extend(new);
            }
            Stmt::Update { sets, where_ } => {
                let m = metas("t");
                facts.cross_column = sets.iter().any(|(c, e)| refs_other_column(c, e));
                let mut out = Vec::with_capacity(self.t.len());
                for r in &self.t {
                    let ctx = DmlCtx { row: RowCtx::new(&m, r), db: &db };
                    let hit = match where_ {
                        None => true,
                        Some(w) => {
                            let v = eval_expr(w, &ctx)?;
                            if v.is_null() {
                                facts.where_null_some = true;
                            }
                            v.is_true()
                        }
                    };
                    if !hit {
                        out.push(r.clone());
                        continue;
                    }
                    facts.where_true += 1;
                    let mut nr = r.clone();
                    for (c, e) in sets {
                        // every assignment sees the pre-update row `r`
                        let v = eval_expr(e, &ctx)?;
                        if let Some(i) = COLS.iter().position(|(n, _)| n == c) {
                            nr[i] = v;
                        }
                    }
                    out.push(nr);
                }
                facts.count = facts.where_true;
                self.t = out;
            }
            Stmt::Delete { where_ } => {
                let m = metas("t");
                let mut out = vec![];
                for r in &self.t {
                    let ctx = DmlCtx { row: RowCtx::new(&m, r), db: &db };
                    let hit = match where_ {
                        None => true,
                        Some(w) => {
                            let v = eval_expr(w, &ctx)?;
                            if v.is_null() {
                                facts.where_null_some = true;
                            }
                            v.is_true()
                        }
                    };
                    if hit {
                        facts.where_true += 1;
                    } else {
                        out.push(r.clone());
                    }
                }
                facts.count = facts.where_true;
                self.t = out;
            }
        }
        Ok(facts)
    }
}

// ---------------------------------------------------------------------------------------------
// engine side

async fn sql_rows(ctx: &SessionContext, sql: &str) -> Result<Vec<Vec<Value>>, (ErrClass, String)> {
    sql_rows_typed(ctx, sql).await.map(|r| r.0)
}

/// rows + "some batch carries a column whose physical type is not the declared type of `t`'s column" (only meaningful for `SELECT * FROM t`)
async fn sql_rows_typed(ctx: &SessionContext, sql: &str) -> Result<(Vec<Vec<Value>>, bool), (ErrClass, String)> {
    use datafusion::arrow::datatypes::DataType;
    let df = ctx.sql(sql).await.map_err(|e| (classify_error(&e), truncate(&e.strip_backtrace(), 600)))?;
    let batches = df.collect().await.map_err(|e| (classify_error(&e), truncate(&e.strip_backtrace(), 600)))?;
    let declared = |ty: Ty| match ty {
        Ty::Int => DataType::Int64,
        Ty::Float => DataType::Float64,
        Ty::Str => DataType::Utf8,
        Ty::Bool => DataType::Boolean,
    };
    let drift = batches.iter().any(|b| b.num_columns() == COLS.len() && b.schema().fields().iter().zip(COLS.iter()).any(|(f, (_, ty))| *f.data_type() != declared(*ty)));
    Ok((batches_to_rows(&batches), drift))
}

fn variant(case: &Case) -> Variant {
    Variant { target_partitions: case.target_partitions.clamp(1, 8), mem_partitions: case.mem_partitions.clamp(1, 8), batch_rows: case.batch_rows.map(|b| b.max(1)), timeout_ms: 60_000, ..Variant::default() }
}

fn has_where(s: &Stmt) -> bool {
    matches!(s, Stmt::Update { where_: Some(_), .. } | Stmt::Delete { where_: Some(_) })
}

/// the optimized input plan of the UPDATE / DELETE contains an EmptyRelation or a Join: the WHERE does not reach the table provider
async fn where_lost(ctx: &SessionContext, sql: &str) -> bool {
    let state = ctx.state();
    let Ok(plan) = state.create_logical_plan(sql).await else { return false };
    let Ok(opt) = state.optimize(&plan) else { return false };
    let mut lost = false;
    let _ = opt.apply(|n| {
        if matches!(n, LogicalPlan::EmptyRelation(_) | LogicalPlan::Join(_)) {
            lost = true;
        }
        Ok(TreeNodeRecursion::Continue)
    });
    lost
}

fn well_formed(case: &Case) -> bool {
    let ok_table = |t: &Table| t.cols.len() == COLS.len() && t.cols.iter().zip(COLS.iter()).all(|(c, (n, ty))| c.name == *n && c.ty == *ty) && t.rows.iter().all(|r| r.len() == COLS.len());
    ok_table(&case.t) && ok_table(&case.u) && case.t.name == "t" && case.u.name == "u" && case.stmts.len() <= 40
}

impl Property for C39 {
    type Case = Case;
    fn id(&self) -> &'static str {
        "C39"
    }
    fn sub(&self) -> &'static str {
        "c39"
    }
    fn strategy(&self, tier: Tier) -> BoxedStrategy<Case> {
        let (ct, cu) = table_cfg(tier.pick(15, 30));
        let max_stmts = tier.pick(10usize, 14);
        let stmt = prop::collection::vec(any::<u8>(), 0..90);
        (refsql::tables_strategy(&ct), refsql::tables_strategy(&cu), 1usize..=3, prop::option::weighted(0.75, 1usize..=6), 1usize..=3, prop::collection::vec(stmt, 1..=max_stmts))
            .prop_map(|(mut t, mut u, mem_partitions, batch_rows, target_partitions, tapes)| {
                let stmts = tapes.into_iter().enumerate().map(|(i, tp)| build_stmt(tp, i)).collect();
                Case { t: t.remove(0), u: u.remove(0), mem_partitions, batch_rows, target_partitions, stmts }
            })
            .boxed()
    }
    fn budget(&self, tier: Tier) -> Budget {
        Budget::new(tier.pick(700, 60_000), tier.pick(8, 16)).min_nontrivial(tier.pick(25, 1500)).case_timeout(180)
    }
    fn rule(&self) -> String {
        "table t(id,a,b,s,p) 0-15 rows in 1-3 MemTable partitions / batches of 1-6 rows + table u; history of 1-10 INSERT VALUES / INSERT SELECT (from t or u) / UPDATE (1-3 assignments, swaps) / DELETE statements \
         with predicates from the scalar grammar (NULL-yielding, constant, contradictory, subquery conjuncts); non-trivial = the checked prefix holds an UPDATE with a cross-column assignment whose WHERE was NULL for some row \
         and TRUE for some but not all rows; distinct by case JSON"
            .into()
    }
    fn assumptions(&self) -> Vec<String> {
        vec![
            "the reference expression evaluator vf_kit::refsql::expr implements the pinned SQL semantics (DESIGN.md Appendix A); it is the oracle of C01/C33 as well".into(),
            "a statement rejected cleanly at planning places no requirement on the table; the history is checked up to it".into(),
            "Int64 overflow wraps in the engine: a statement on which the reference sees overflow ends the checked prefix".into(),
        ]
    }
    /// outcome-keyed: the signature of the statement on which the history fails (None when it does not fail)
    fn known_signature(&self, case: &Case) -> Option<String> {
        // the engine calls this outside its panic guard: a panic of the code under test must not escape from here. The case is then
        // evaluated again by `run` (inside the guard), where the engine classifies the panic by its location.
        match std::panic::catch_unwind(std::panic::AssertUnwindSafe(|| evaluate(case).1)) {
            Ok(sig) => sig,
            // a panic after an INSERT left a batch of a foreign physical type in the table belongs to `insert-type-drift`
            Err(_) => DRIFTED.with(|d| d.get()).then(|| "insert-type-drift".to_string()),
        }
    }
    fn run(&self, case: &Case) -> CaseResult {
        evaluate(case).0
    }
}

/// runs the history; on a violation also classifies the failing statement (signature of a known finding, if any)
async fn drive(ctx: &SessionContext, case: &Case) -> (CaseResult, Option<String>) {
    let mut model = Model { t: case.t.rows.clone(), u: case.u.clone() };
    let mut labels: Vec<String> = vec![format!("mem-partitions={}", case.mem_partitions), format!("target-partitions={}", case.target_partitions)];
    if case.batch_rows.is_some_and(|b| b < case.t.rows.len()) {
        labels.push("multi-batch".into());
    }
    let mut nontrivial = false;
    let mut checked = 0usize;
    // an earlier INSERT .. SELECT left a batch of another physical type in the table (known finding `insert-type-drift`):
    // every later failure of the history is attributed to it
    let mut drifted = false;
    DRIFTED.with(|d| d.set(false));
    let mut script: Vec<String> = vec![];
    let fail = |msg: String, script: &[String], labels: Vec<String>| CaseResult::violation(format!("{msg}\n  repro:\n{}{}", vf_df::repro_script(&[case.t.clone(), case.u.clone()], "SELECT 1"), script.join(";\n"))).labels(labels);
    for (i, s) in case.stmts.iter().enumerate() {
        let sql = stmt_sql(s);
        let before = model.t.clone();
        let facts = match model.apply(s) {
            Ok(f) => f,
            Err(RefError::Overflow) => {
                labels.push("stopped:ref-overflow".into());
                break;
            }
            Err(e) => match refsql::classify(&e) {
                refsql::RefErrorClass::HarnessBug => return (CaseResult::inconclusive(format!("reference cannot evaluate statement {i} `{sql}`: {e}")).labels(labels), None),
                _ => {
                    labels.push(format!("stopped:ref-{}", reason_word(&e)));
                    break;
                }
            },
        };
        if model.t.len() > 400 {
            labels.push("stopped:too-many-rows".into());
            break;
        }
        script.push(sql.clone());
        let got = match sql_rows(ctx, &sql).await {
            Ok(r) => r,
            Err((class, msg)) if class.is_clean_rejection() => {
                let why = if msg.contains("__common_expr") { "cse".to_string() } else { format!("{class:?}") };
                labels.push(format!("stopped:rejected:{why}"));
                if checked == 0 {
                    return (CaseResult::discard(format!("first statement rejected ({class:?}): {}", truncate(&msg, 50))).labels(labels), None);
                }
                break;
            }
            Err((class, msg)) => {
                let sig = if matches!(s, Stmt::Update { .. }) && msg.contains("arguments need to have the same data type") {
                    Some("update-assignment-type-drift".to_string())
                } else if msg.contains("column types must match schema types") {
                    // an earlier INSERT .. SELECT stored a batch whose column type differs from the table's (Utf8View in a Utf8 column)
                    Some("insert-type-drift".to_string())
                } else {
                    lost_sig(ctx, s, &sql).await
                };
                let sig = if drifted { Some("insert-type-drift".to_string()) } else { sig };
                return (fail(format!("statement {i} `{sql}` failed with {class:?}: {msg} (the reference applies it: count {})", facts.count), &script, labels), sig);
            }
        };
        let kind = match s {
            Stmt::InsertValues { cols, .. } => if cols.is_empty() { "insert-values" } else { "insert-values-collist" },
            Stmt::InsertSelect { from, .. } => if from == "t" { "insert-select-self" } else { "insert-select-other" },
            Stmt::Update { where_, .. } => if where_.is_some() { "update" } else { "update-all" },
            Stmt::Delete { where_ } => if where_.is_some() { "delete" } else { "delete-all" },
        };
        labels.push(kind.into());
        if got.len() != 1 || got[0].len() != 1 || got[0][0] != Value::Int(facts.count as i64) {
            let sig = if drifted { Some("insert-type-drift".to_string()) } else { lost_sig(ctx, s, &sql).await };
            return (fail(format!("statement {i} `{sql}` reported {} but the reference model affects {} of {} rows\n  table before: {}", refsql::fmt_rows(&got, 5), facts.count, facts.rows_before, refsql::fmt_rows(&before, 40)), &script, labels), sig);
        }
        let content = match sql_rows_typed(ctx, "SELECT * FROM t").await {
            Ok((r, drift)) => {
                if drift && !drifted {
                    drifted = true;
                    DRIFTED.with(|d| d.set(true));
                    labels.push("table-holds-foreign-physical-type".into());
                }
                r
            }
            Err((class, msg)) => {
                let sig = (drifted || msg.contains("column types must match schema types")).then(|| "insert-type-drift".to_string());
                return (fail(format!("SELECT * FROM t after statement {i} `{sql}` failed with {class:?}: {msg}"), &script, labels), sig);
            }
        };
        if let Some(d) = refsql::multiset_diff(&model.t, &content) {
            let sig = if drifted { Some("insert-type-drift".to_string()) } else { lost_sig(ctx, s, &sql).await };
            return (fail(format!("table contents differ from the reference model after statement {i} `{sql}` (count {} agreed)\n  table before: {}\n  {d}", facts.count, refsql::fmt_rows(&before, 40)), &script, labels), sig);
        }
        checked += 1;
        if facts.count == 0 {
            labels.push("count=0".into());
        }
        if has_where(s) {
            if facts.where_null_some {
                labels.push("where-null-some".into());
            }
            if facts.where_true > 0 && facts.where_true < facts.rows_before {
                labels.push("where-partial".into());
            }
            let subq = match s {
                Stmt::Update { where_: Some(w), .. } | Stmt::Delete { where_: Some(w) } => {
                    let mut f = false;
                    exprgen::walk(w, &mut |x| f |= matches!(x, Expr::InSubquery { .. } | Expr::Exists { .. }));
                    f
                }
                _ => false,
            };
            if subq {
                labels.push("where-subquery".into());
            }
        }
        if let Stmt::Update { sets, .. } = s {
            let is_col = |e: &Expr, n: &str| matches!(e, Expr::Col { name, .. } if name == n);
            if sets.len() >= 2 && sets[0].0 == "a" && is_col(&sets[0].1, "b") && sets[1].0 == "b" && is_col(&sets[1].1, "a") && facts.count > 0 {
                labels.push("swap-applied".into());
            }
            if facts.cross_column && facts.where_null_some && facts.where_true > 0 && facts.where_true < facts.rows_before {
                nontrivial = true;
            }
        }
    }
    labels.push(format!("checked-statements={}", checked.min(10)));
    if checked == 0 {
        return (CaseResult::discard("no statement checked").labels(labels), None);
    }
    labels.sort();
    labels.dedup();
    (CaseResult::pass().nontrivial(nontrivial).labels(labels), None)
}

async fn lost_sig(ctx: &SessionContext, s: &Stmt, sql: &str) -> Option<String> {
    if has_where(s) && where_lost(ctx, sql).await { Some("dml-where-lost".to_string()) } else { None }
}

thread_local! {
    /// set while a history runs once the table holds a batch of a foreign physical type (read after a panic)
    static DRIFTED: std::cell::Cell<bool> = const { std::cell::Cell::new(false) };
    /// outcome of the last case evaluated on this thread: `known_signature` (outcome-keyed) and `run` see the same case back to back
    static LAST: std::cell::RefCell<Option<(u64, CaseResult, Option<String>)>> = const { std::cell::RefCell::new(None) };
}

fn evaluate(case: &Case) -> (CaseResult, Option<String>) {
    let key = fnv1a(&serde_json::to_vec(case).unwrap_or_default());
    if let Some(hit) = LAST.with(|c| c.borrow().as_ref().filter(|(k, _, _)| *k == key).map(|(_, r, s)| (r.clone(), s.clone()))) {
        return hit;
    }
    let out = evaluate_uncached(case);
    LAST.with(|c| *c.borrow_mut() = Some((key, out.0.clone(), out.1.clone())));
    out
}

fn evaluate_uncached(case: &Case) -> (CaseResult, Option<String>) {
    if !well_formed(case) {
        return (CaseResult::discard("malformed case"), None);
    }
    for s in &case.stmts {
        let foreign = match s {
            Stmt::Update { sets, where_ } => sets.iter().any(|(_, e)| exprgen::has_inlist_algebra(e)) || where_.as_ref().is_some_and(exprgen::has_inlist_algebra),
            Stmt::Delete { where_ } => where_.as_ref().is_some_and(exprgen::has_inlist_algebra),
            Stmt::InsertSelect { items, where_, .. } => items.iter().any(exprgen::has_inlist_algebra) || where_.as_ref().is_some_and(exprgen::has_inlist_algebra),
            Stmt::InsertValues { .. } => false,
        };
        if foreign {
            return (CaseResult::discard("foreign known finding shape: C04 inlist-algebra-null"), None);
        }
    }
    let v = variant(case);
    let tables = [case.t.clone(), case.u.clone()];
    let case2 = case.clone();
    let out = run_in_context(&tables, &v, |b| b, |ctx| async move { drive(&ctx, &case2).await });
    match out {
        Err(e) => (CaseResult::inconclusive(format!("setup failed: {}", e.message)), None),
        Ok(None) => (CaseResult::inconclusive("timeout"), None),
        Ok(Some(r)) => r,
    }
}

fn reason_word(e: &RefError) -> &'static str {
    match e {
        RefError::DivZero => "divzero",
        RefError::Overflow => "overflow",
        RefError::CastError => "cast",
        RefError::FloatDomain(_) => "float-domain",
        RefError::Nondeterministic(_) => "nondeterministic",
        RefError::TooBig(_) => "too-big",
        RefError::ScalarCardinality => "scalar-cardinality",
        RefError::Type(_) => "type",
        RefError::Unsupported(_) => "unsupported",
    }
}

