//! Choice tape (same discipline as `vf_kit::refsql::gen`, whose tape is private): every decision maps one
//! byte monotonically onto the alternatives, simplest alternative first; an exhausted tape yields 0.
//! proptest shrinks the bytes (towards 0 / shorter), which shrinks whatever was built from them.
pub struct Tape {
    data: Vec<u8>,
    pos: usize,
}

impl Tape {
    pub fn new(data: Vec<u8>) -> Tape {
        Tape { data, pos: 0 }
    }
    pub fn next(&mut self) -> u32 {
        let v = self.data.get(self.pos).copied().unwrap_or(0);
        self.pos += 1;
        v as u32
    }
    /// 0..n, monotone in the cell
    pub fn below(&mut self, n: usize) -> usize {
        if n <= 1 {
            self.next();
            return 0;
        }
        ((self.next() as usize) * n.min(256)) >> 8
    }
    /// true with probability pct %; a zero cell is always false
    pub fn chance(&mut self, pct: u32) -> bool {
        let v = self.next();
        pct > 0 && v * 100 >= 256 * (100 - pct.min(100))
    }
    /// index into weights; index 0 at cell 0 (list the simplest alternative first)
    pub fn weighted(&mut self, ws: &[u32]) -> usize {
        let total: u32 = ws.iter().sum();
        if total == 0 {
            self.next();
            return 0;
        }
        let x = ((self.next() as u64 * total as u64) >> 8) as u32;
        let mut acc = 0;
        for (i, w) in ws.iter().enumerate() {
            acc += w;
            if x < acc {
                return i;
            }
        }
        ws.len() - 1
    }
    /// lo..=hi
    pub fn range(&mut self, lo: i64, hi: i64) -> i64 {
        lo + self.below((hi - lo + 1) as usize) as i64
    }
    pub fn pick<'a, T>(&mut self, xs: &'a [T]) -> &'a T {
        &xs[self.below(xs.len())]
    }
}
