//! Type-directed scalar expression generator over a flat column scope (mirrors the scalar part of the grammar of
//! `vf_kit::refsql::gen`, whose generator is private): only well-typed `refsql::Expr` trees with exactly matching
//! operand types; no division / remainder (so the only reference error left is Int64 overflow), no subqueries,
//! no aggregates. IN-list elements are leaves (literal / NULL / column): a CASE inside an IN list is the known
//! finding C01 `in-list-case-element` and not this crate's subject.
use crate::tape::Tape;
use vf_kit::refsql::{BinOp, BoolTest, Expr, Func, Ty, Value};

#[derive(Clone, Debug)]
pub struct ScopeCol {
    pub rel: Option<String>,
    pub name: String,
    pub ty: Ty,
}

impl ScopeCol {
    pub fn new(rel: Option<&str>, name: &str, ty: Ty) -> ScopeCol {
        ScopeCol { rel: rel.map(|s| s.to_string()), name: name.to_string(), ty }
    }
    pub fn expr(&self) -> Expr {
        Expr::Col { rel: self.rel.clone(), name: self.name.clone() }
    }
}

#[derive(Clone, Debug, Default)]
pub struct Scope {
    pub cols: Vec<ScopeCol>,
}

#[derive(Clone, Copy, Debug)]
pub struct EOpts {
    /// float-typed sub-expressions allowed (casts to / from DOUBLE, float comparisons)
    pub floats: bool,
    /// rare literals near the Int32 / Int64 boundaries
    pub wide_ints: bool,
}

pub const STRS: [&str; 12] = ["", "a", "b", "ab", "B", "abc", "a%", "a_b", "é", " ", "Ab", "ba"];
pub const FLOATS: [f64; 10] = [0.5, 1.0, 1.5, -0.5, 2.0, -2.0, 2.5, -1.0, 4.0, 8.5];
const CMP_WEIGHTS: [u32; 6] = [40, 12, 12, 12, 12, 12];

pub fn lit_value(t: &mut Tape, ty: Ty, o: EOpts) -> Value {
    match ty {
        Ty::Int => {
            let v = match t.weighted(&[60, 25, 10, if o.wide_ints { 5 } else { 0 }]) {
                0 => t.range(0, 3),
                1 => t.range(-2, 6),
                2 => [10i64, 100, -7, 1000][t.below(4)],
                _ => [2147483647i64, 2147483648, -2147483649, 4294967297][t.below(4)],
            };
            Value::Int(v)
        }
        Ty::Float => Value::Float(FLOATS[t.below(FLOATS.len())]),
        Ty::Str => Value::Str(STRS[t.below(STRS.len())].to_string()),
        Ty::Bool => Value::Bool(t.chance(50)),
    }
}

pub fn lit(t: &mut Tape, ty: Ty, o: EOpts) -> Expr {
    Expr::Lit(lit_value(t, ty, o))
}

fn any_ty(t: &mut Tape, o: EOpts) -> Ty {
    if o.floats { [Ty::Int, Ty::Int, Ty::Str, Ty::Bool, Ty::Float][t.weighted(&[35, 10, 20, 20, 15])] } else { [Ty::Int, Ty::Int, Ty::Str, Ty::Bool][t.weighted(&[35, 10, 25, 30])] }
}

pub fn leaf(t: &mut Tape, ty: Ty, sc: &Scope, o: EOpts) -> Expr {
    let local: Vec<&ScopeCol> = sc.cols.iter().filter(|c| c.ty == ty).collect();
    match t.weighted(&[if local.is_empty() { 0 } else { 70 }, 24, 4]) {
        0 => local[t.below(local.len())].expr(),
        1 => lit(t, ty, o),
        _ => Expr::Null(ty),
    }
}

pub fn expr(t: &mut Tape, ty: Ty, sc: &Scope, d: u32, o: EOpts) -> Expr {
    if d == 0 {
        return leaf(t, ty, sc, o);
    }
    let fl = if o.floats { 1 } else { 0 };
    match ty {
        Ty::Int => match t.weighted(&[36, 22, 3, 3, 8, 6, 4, 4, 3, 2 * fl, 3]) {
            0 => leaf(t, ty, sc, o),
            1 => {
                let op = [BinOp::Add, BinOp::Sub, BinOp::Mul][t.below(3)];
                Expr::bin(op, expr(t, ty, sc, d - 1, o), expr(t, ty, sc, d - 1, o))
            }
            2 => Expr::Neg(Box::new(expr(t, ty, sc, d - 1, o))),
            3 => Expr::Func(Func::Abs, vec![expr(t, ty, sc, d - 1, o)]),
            4 => case(t, ty, sc, d, o),
            5 => coalesce(t, ty, sc, d, o),
            6 => Expr::NullIf(Box::new(expr(t, ty, sc, d - 1, o)), Box::new(expr(t, ty, sc, d - 1, o))),
            7 => Expr::Func(Func::Length, vec![expr(t, Ty::Str, sc, d - 1, o)]),
            8 => Expr::Cast(Box::new(expr(t, Ty::Bool, sc, d - 1, o)), Ty::Int),
            9 => Expr::Cast(Box::new(expr(t, Ty::Float, sc, d - 1, o)), Ty::Int),
            _ => {
                let f = if t.chance(50) { Func::Greatest } else { Func::Least };
                Expr::Func(f, vec![expr(t, ty, sc, d - 1, o), expr(t, ty, sc, d - 1, o)])
            }
        },
        Ty::Float => match t.weighted(&[45, 20, 5, 8, 6, 7, 3]) {
            0 => leaf(t, ty, sc, o),
            1 => {
                let op = [BinOp::Add, BinOp::Sub, BinOp::Mul][t.below(3)];
                Expr::bin(op, expr(t, ty, sc, d - 1, o), expr(t, ty, sc, d - 1, o))
            }
            2 => {
                let dv = [2.0, 4.0, 0.5, -2.0][t.below(4)];
                Expr::bin(BinOp::Div, expr(t, ty, sc, d - 1, o), Expr::float(dv))
            }
            3 => case(t, ty, sc, d, o),
            4 => coalesce(t, ty, sc, d, o),
            5 => Expr::Cast(Box::new(expr(t, Ty::Int, sc, d - 1, o)), Ty::Float),
            _ => Expr::Func(Func::Abs, vec![expr(t, ty, sc, d - 1, o)]),
        },
        Ty::Str => match t.weighted(&[45, 15, 8, 8, 6, 5, 5, 3]) {
            0 => leaf(t, ty, sc, o),
            1 => Expr::bin(BinOp::Concat, expr(t, ty, sc, d - 1, o), expr(t, ty, sc, d - 1, o)),
            2 => Expr::Func(if t.chance(50) { Func::Upper } else { Func::Lower }, vec![expr(t, ty, sc, d - 1, o)]),
            3 => case(t, ty, sc, d, o),
            4 => coalesce(t, ty, sc, d, o),
            5 => Expr::Cast(Box::new(expr(t, Ty::Int, sc, d - 1, o)), Ty::Str),
            6 => Expr::Func(Func::ConcatFn, vec![expr(t, ty, sc, d - 1, o), expr(t, ty, sc, d - 1, o)]),
            _ => Expr::NullIf(Box::new(expr(t, ty, sc, d - 1, o)), Box::new(expr(t, ty, sc, d - 1, o))),
        },
        Ty::Bool => bool_expr(t, sc, d, o),
    }
}

fn case(t: &mut Tape, ty: Ty, sc: &Scope, d: u32, o: EOpts) -> Expr {
    let n = 1 + t.below(2);
    let with_operand = t.chance(25);
    let (operand, oty) = if with_operand {
        let oty = any_ty(t, o);
        (Some(Box::new(expr(t, oty, sc, d - 1, o))), oty)
    } else {
        (None, Ty::Bool)
    };
    let mut whens = vec![];
    for _ in 0..n {
        let w = expr(t, oty, sc, d - 1, o);
        let th = expr(t, ty, sc, d - 1, o);
        whens.push((w, th));
    }
    let else_ = if t.chance(70) { Some(Box::new(expr(t, ty, sc, d - 1, o))) } else { None };
    Expr::Case { operand, whens, else_ }
}

fn coalesce(t: &mut Tape, ty: Ty, sc: &Scope, d: u32, o: EOpts) -> Expr {
    let n = 2 + t.below(2);
    Expr::Coalesce((0..n).map(|_| expr(t, ty, sc, d - 1, o)).collect())
}

pub fn cmp_op(t: &mut Tape) -> BinOp {
    BinOp::CMPS[t.weighted(&CMP_WEIGHTS)]
}

pub fn bool_expr(t: &mut Tape, sc: &Scope, d: u32, o: EOpts) -> Expr {
    if d == 0 {
        return leaf(t, Ty::Bool, sc, o);
    }
    match t.weighted(&[35, 8, 15, 5, 8, 4, 4, 5, 5, 3, 3]) {
        0 => {
            let ty = any_ty(t, o);
            let op = cmp_op(t);
            Expr::bin(op, expr(t, ty, sc, d - 1, o), expr(t, ty, sc, d - 1, o))
        }
        1 => leaf(t, Ty::Bool, sc, o),
        2 => {
            let op = if t.chance(50) { BinOp::Or } else { BinOp::And };
            Expr::bin(op, bool_expr(t, sc, d - 1, o), bool_expr(t, sc, d - 1, o))
        }
        3 => Expr::Not(Box::new(bool_expr(t, sc, d - 1, o))),
        4 => {
            let ty = any_ty(t, o);
            Expr::IsNull { e: Box::new(expr(t, ty, sc, d - 1, o)), negated: t.chance(50) }
        }
        5 => {
            let ty = any_ty(t, o);
            Expr::IsDistinctFrom { l: Box::new(expr(t, ty, sc, d - 1, o)), r: Box::new(expr(t, ty, sc, d - 1, o)), negated: t.chance(50) }
        }
        6 => {
            let ty = [Ty::Int, Ty::Str][t.weighted(&[70, 30])];
            Expr::Between { e: Box::new(expr(t, ty, sc, d - 1, o)), lo: Box::new(expr(t, ty, sc, d - 1, o)), hi: Box::new(expr(t, ty, sc, d - 1, o)), negated: t.chance(30) }
        }
        7 => {
            let ty = [Ty::Int, Ty::Str][t.weighted(&[65, 35])];
            let e = expr(t, ty, sc, d - 1, o);
            let n = 1 + t.below(4);
            let mut list = vec![];
            for _ in 0..n {
                list.push(match t.weighted(&[75, 10, 15]) {
                    0 => lit(t, ty, o),
                    1 => Expr::Null(ty),
                    _ => leaf(t, ty, sc, o),
                });
            }
            Expr::InList { e: Box::new(e), list, negated: t.chance(40) }
        }
        8 => {
            let e = expr(t, Ty::Str, sc, d - 1, o);
            let pats = ["a%", "%b", "_", "%", "a_", "%a%", "", "a\\%", "A%", "_b%", "ab", "%é"];
            let pat = if t.chance(85) { Expr::str(pats[t.below(pats.len())]) } else { leaf(t, Ty::Str, sc, o) };
            Expr::Like { e: Box::new(e), pat: Box::new(pat), negated: t.chance(25), ilike: t.chance(25) }
        }
        9 => {
            let test = [BoolTest::IsTrue, BoolTest::IsNotTrue, BoolTest::IsFalse, BoolTest::IsNotFalse, BoolTest::IsUnknown, BoolTest::IsNotUnknown][t.below(6)];
            Expr::BoolTest { e: Box::new(bool_expr(t, sc, d - 1, o)), test }
        }
        _ => case(t, Ty::Bool, sc, d, o),
    }
}

/// visit every node of a scalar expression (no descent into subqueries)
pub fn walk(e: &Expr, f: &mut dyn FnMut(&Expr)) {
    f(e);
    match e {
        Expr::Col { .. } | Expr::Lit(_) | Expr::Null(_) => {}
        Expr::Bin(_, l, r) => {
            walk(l, f);
            walk(r, f);
        }
        Expr::Not(x) | Expr::Neg(x) | Expr::Cast(x, _) | Expr::Grouping(x) => walk(x, f),
        Expr::IsNull { e, .. } | Expr::BoolTest { e, .. } => walk(e, f),
        Expr::IsDistinctFrom { l, r, .. } => {
            walk(l, f);
            walk(r, f);
        }
        Expr::Between { e, lo, hi, .. } => {
            walk(e, f);
            walk(lo, f);
            walk(hi, f);
        }
        Expr::InList { e, list, .. } => {
            walk(e, f);
            for x in list {
                walk(x, f);
            }
        }
        Expr::Like { e, pat, .. } => {
            walk(e, f);
            walk(pat, f);
        }
        Expr::Case { operand, whens, else_ } => {
            if let Some(o) = operand {
                walk(o, f);
            }
            for (w, th) in whens {
                walk(w, f);
                walk(th, f);
            }
            if let Some(x) = else_ {
                walk(x, f);
            }
        }
        Expr::Coalesce(es) | Expr::Func(_, es) => {
            for x in es {
                walk(x, f);
            }
        }
        Expr::NullIf(a, b) => {
            walk(a, f);
            walk(b, f);
        }
        Expr::Agg(a) => {
            if let Some(x) = &a.arg {
                walk(x, f);
            }
            if let Some(x) = &a.filter {
                walk(x, f);
            }
        }
        Expr::Win(w) => {
            for x in w.args.iter().chain(w.partition_by.iter()) {
                walk(x, f);
            }
            for o in &w.order_by {
                walk(&o.expr, f);
            }
        }
        Expr::InSubquery { e, .. } | Expr::Quantified { e, .. } => walk(e, f),
        Expr::Exists { .. } | Expr::Scalar(_) => {}
    }
}

/// `x IN (..) AND|OR x IN (..)` over the same tested expression — the shape of the known finding C04
/// `inlist-algebra-null` (IN-list set algebra ignores NULLs); cases holding it are discarded as not this crate's subject.
pub fn has_inlist_algebra(e: &Expr) -> bool {
    let mut found = false;
    walk(e, &mut |x| {
        if let Expr::Bin(BinOp::And | BinOp::Or, l, r) = x {
            if let (Expr::InList { e: a, .. }, Expr::InList { e: b, .. }) = (&**l, &**r) {
                if a == b {
                    found = true;
                }
            }
        }
    });
    found
}
