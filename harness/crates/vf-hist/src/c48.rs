//! C48 — DataFrame operations compute the same results as the equivalent SQL.
//!
//! Domain: a chain of 1–6 operations (thorough ≤ 8) over `t0(id, a, b, s, f, p)` (joins / set operations bring in `t1` or a
//! second branch of the chain) generated as a plain-data chain AST (`Op`) together with the column types it produces; two
//! interpreters read the same AST: `build_df` calls the DataFrame API with expressions built through the expression API
//! (`dfexpr`, no SQL text), `render_sql` prints one SQL statement (each step wraps the previous one as a derived table).
//! Operations: filter, select (expressions + aliases), with_column (new / replacing, scalar or window expression),
//! with_column(make_array(..)) + unnest_columns, with_column_renamed, drop_columns, join (key columns + optional filter; inner,
//! left, right, full, left/right semi/anti), join_on (expression conditions), aggregate (grouped / global; count, sum, avg,
//! min, max, bool_and/or, DISTINCT, FILTER), sort, sort + limit(skip, fetch) (total order), distinct, distinct_on (total
//! order inside each group), union / union_distinct / intersect(+distinct) / except(+distinct) with a filtered second
//! branch, union_by_name(+distinct) with a permuted / narrowed / widened second branch, window (row_number / rank /
//! dense_rank / aggregates over partitions), alias (the following step refers to columns through the alias).
//! Column names are kept unique (joined right sides are renamed with a prefix), so no reference is ambiguous.
//!
//! Oracle: `collect()` rows of the DataFrame = rows of the SQL statement (multiset; when the chain ends in a total sort or
//! sort+limit also the sequence) and output column names equal (also equal to the names the chain AST predicts).
//! Both sides run on the same engine; an error on BOTH sides is a discard; a clean planning rejection on one side only is a
//! discard as well (there is nothing to compare) but histogrammed; an `Internal` error or a run-time failure on one side only is a
//! violation — except an internal error of the SQL side alone, which leaves nothing to compare (discard, histogrammed; C01's subject).
//! The known nullability-mismatch internal errors of C01 are discards (foreign).
//! `unnest_columns` and SQL `unnest()` deliberately differ on NULL lists (preserve_nulls true vs false): lists are only
//! built with `make_array(e1, e2[, e3])`, which is never NULL.
//!
//! Known findings (genuine, outcome-keyed signatures): EnsureRequirements does not treat GlobalLimitExec(skip=n, fetch=None) as
//! order-sensitive. (a) `offset-only-limit-under-sort` — FIXED in /repo (5f59134, same defect as C01 `nested-offset-without-limit`):
//! a later SortExec was pushed below the limit (SELECT id FROM (SELECT * FROM t0 ORDER BY id DESC OFFSET 1) ORDER BY id ASC returned
//! 1,2 for ids 0,1,2); its case is a plain regression now. (b) `offset-only-limit-sort-removed` — OPEN: the SortExec feeding the limit
//! is removed when a projection sits in between and the operator above needs no order (SELECT p FROM ((SELECT * FROM (SELECT * FROM
//! t0 ORDER BY id DESC OFFSET 1) AS x) UNION ALL (SELECT * FROM (SELECT * FROM t0 ORDER BY id DESC OFFSET 1) AS y)) skips the wrong
//! row); the two sides' plans have different shapes, so they go wrong differently. The signatures are told apart by what sits above
//! the skip-only limit in the chain: a sort directly above it = (a), any other operator (projection, set operation, join, ..) = (b).
//! `window-builder-default-frame` — `ExprFunctionExt::order_by(..).build()` without a frame
//! builds ROWS UNBOUNDED PRECEDING..CURRENT ROW (it passes "has an ORDER BY" where WindowFrame::new expects "ordering is
//! strict"), while SQL text without a frame means RANGE: peers (rows with equal keys) get different running aggregates.
//! `window-partition-by-not-ordered` (open; root cause = the C01 finding of that name): `df.filter(c2 + c2 = c2).window(row_number() OVER
//! (PARTITION BY c2 ORDER BY g1, c2))` fails at run time with `Execution error: Expects PARTITION BY expression to be ordered` while the SQL
//! rendering (derived-table aliases in between) runs. Signature: one side fails with that message.
//! Planner defects met by the thorough tier where BOTH sides fail (discarded as `both sides fail with an internal error`, nothing to compare):
//! interleave assertion — `df.join(t0 on id).with_column(max(f) OVER (PARTITION BY id)).union(same)` fails
//! while planning with `Internal error: Assertion failed: can_interleave(children.iter())` raised by EnsureRequirements (2 MemTable
//! partitions, target_partitions = 1); no repair proposed.
//! (since /repo a77f1d9 the aggregate_statistics shape below panics instead — `index out of bounds` in arrow-schema `Schema::field`
//! reached from `AggregateStatistics::optimize` -> `ProjectionExec::replace_children`: the placeholder row now has an empty schema but a
//! projection above still addresses its columns; both sides panic, each side runs under its own panic guard)
//! aggregate_statistics name assertion — a global `count(x) FILTER (WHERE <folds to false>)` above
//! another aggregate fails while planning with `Internal error: Assertion failed: col.name() == matching_name: Input field name c2 does
//! not match with the projection expression c5` raised by the aggregate_statistics physical optimizer rule; no repair proposed.
//! Side findings of the thorough tier (SQL side only, discarded as `sql side internal error`, histogrammed): nested INTERSECT ALL /
//! window / UNION BY NAME text fails in EnsureRequirements with `Assertion failed: can_interleave(children.iter())`; an aggregate
//! `count(x + x) FILTER (WHERE ..)` over nested derived tables fails in aggregate_statistics with `Input field name count(Int64(1))
//! does not match with the projection expression ..` — the DataFrame side plans and runs both.
//! Robustness note: `DataFrame::window` with a non-window expression (a CAST around row_number()) panics in the physical planner
//! (`unreachable!()`); the harness only passes bare window functions there.
//!
//! Non-trivial: chain length ≥ 3 with at least one of {join_on, union_by_name, distinct_on, unnest, window}.
//!
//! Sensitivity probes (tools/mutrun, patches in crates/vf-hist/probes/, quick tier, seed 0):
//! * probe-x.diff — `DataFrame::union_by_name` aligns by position (calls `union`): VIOLATION after 239 cases
//!   ("expected (0, 1, 0, 0) got (0, 0, 1, 0)").
//! * probe-y.diff — `DataFrame::distinct_on` reverses the sort expressions (keeps the last instead of the first row per key):
//!   VIOLATION after 5 cases ("expected (0, NULL, NULL) got (1, NULL, NULL)").
//! * fixes-all.diff: `./check C48 quick` exits 0 with known_excluded = 0 with both repair patches applied.
use crate::dfexpr::{self, to_df};
use crate::exprgen::{self, EOpts, Scope, ScopeCol};
use crate::tape::Tape;
use datafusion::common::JoinType;
use datafusion::logical_expr::{Expr as DfExpr, SortExpr};
use datafusion::prelude::{DataFrame, SessionContext};
use proptest::prelude::*;
use serde::{Deserialize, Serialize};
use vf_df::{ErrClass, Variant, batches_to_rows, classify_error, run_in_context};
use vf_kit::engine::*;
use vf_kit::refsql::{self, AggCall, AggFunc, Expr, Frame, FrameBound, FrameUnits, GenConfig, JoinKind, OrderItem, Table, Ty, Value, WinCall, WinFunc, expr_to_sql};

pub struct C48;

#[derive(Clone, Debug, Serialize, Deserialize, PartialEq)]
pub struct ColInfo {
    pub name: String,
    pub ty: Ty,
    /// a list of `ty`
    pub list: bool,
}

#[derive(Clone, Debug, Serialize, Deserialize, PartialEq)]
pub struct Item {
    pub expr: Expr,
    pub name: String,
    pub ty: Ty,
}

#[derive(Clone, Copy, Debug, Serialize, Deserialize, PartialEq, Eq)]
pub enum SetKind {
    Union,
    UnionDistinct,
    Intersect,
    IntersectDistinct,
    Except,
    ExceptDistinct,
    UnionByName,
    UnionByNameDistinct,
}

/// second branch of a set operation: the chain so far, optionally filtered, projected to `cols` (by-name only) and widened by `extra`
#[derive(Clone, Debug, Serialize, Deserialize, PartialEq)]
pub struct Other {
    pub filter: Option<Expr>,
    pub cols: Option<Vec<String>>,
    pub extra: Option<Item>,
}

#[derive(Clone, Debug, Serialize, Deserialize, PartialEq)]
pub enum Op {
    Filter { pred: Expr },
    Select { items: Vec<Item> },
    WithColumn { item: Item },
    MakeList { name: String, ty: Ty, elems: Vec<Expr> },
    Unnest { col: String },
    Rename { old: String, new: String },
    Drop { cols: Vec<String> },
    Join { right: String, prefix: String, kind: JoinKind, left_cols: Vec<String>, right_cols: Vec<String>, filter: Option<Expr> },
    JoinOn { right: String, prefix: String, kind: JoinKind, on: Vec<Expr> },
    Aggregate { group: Vec<Item>, aggs: Vec<Item> },
    Sort { keys: Vec<OrderItem> },
    SortLimit { keys: Vec<OrderItem>, skip: usize, fetch: Option<usize> },
    Distinct,
    DistinctOn { on: Vec<String>, select: Vec<String>, order: Vec<OrderItem> },
    SetOp { kind: SetKind, other: Other },
    Window { item: Item },
    Alias { name: String },
}

#[derive(Clone, Debug, Serialize, Deserialize)]
pub struct Case {
    pub tables: Vec<Table>,
    pub ops: Vec<Op>,
    pub mem_partitions: usize,
    pub target_partitions: usize,
}

const BASE: [(&str, Ty); 6] = [("id", Ty::Int), ("a", Ty::Int), ("b", Ty::Int), ("s", Ty::Str), ("f", Ty::Float), ("p", Ty::Bool)];
const OPTS: EOpts = EOpts { floats: true, wide_ints: false };

fn base_schema() -> Vec<ColInfo> {
    BASE.iter().map(|(n, t)| ColInfo { name: n.to_string(), ty: *t, list: false }).collect()
}

fn keeps_left(kind: JoinKind) -> bool {
    !matches!(kind, JoinKind::RightSemi | JoinKind::RightAnti)
}

fn keeps_right(kind: JoinKind) -> bool {
    !matches!(kind, JoinKind::LeftSemi | JoinKind::LeftAnti)
}

/// the schema after `op` (None = the op does not fit the schema: malformed case)
fn apply_schema(schema: &[ColInfo], op: &Op) -> Option<Vec<ColInfo>> {
    let has = |n: &str| schema.iter().any(|c| c.name == n);
    let mut out = schema.to_vec();
    match op {
        Op::Filter { .. } | Op::Sort { .. } | Op::SortLimit { .. } | Op::Distinct | Op::Alias { .. } => {}
        Op::Select { items } => out = items.iter().map(|i| ColInfo { name: i.name.clone(), ty: i.ty, list: false }).collect(),
        Op::WithColumn { item } | Op::Window { item } => {
            let c = ColInfo { name: item.name.clone(), ty: item.ty, list: false };
            match out.iter().position(|x| x.name == item.name) {
                Some(i) if matches!(op, Op::WithColumn { .. }) => out[i] = c,
                Some(_) => return None,
                None => out.push(c),
            }
        }
        Op::MakeList { name, ty, .. } => {
            if has(name) {
                return None;
            }
            out.push(ColInfo { name: name.clone(), ty: *ty, list: true });
        }
        Op::Unnest { col } => out.iter_mut().find(|c| c.name == *col && c.list)?.list = false,
        Op::Rename { old, new } => {
            if has(new) {
                return None;
            }
            out.iter_mut().find(|c| c.name == *old)?.name = new.clone();
        }
        Op::Drop { cols } => {
            if !cols.iter().all(|c| has(c)) {
                return None;
            }
            out.retain(|c| !cols.contains(&c.name));
            if out.is_empty() {
                return None;
            }
        }
        Op::Join { prefix, kind, .. } | Op::JoinOn { prefix, kind, .. } => {
            let right: Vec<ColInfo> = base_schema().into_iter().map(|c| ColInfo { name: format!("{prefix}{}", c.name), ..c }).collect();
            out = vec![];
            if keeps_left(*kind) {
                out.extend(schema.iter().cloned());
            }
            if keeps_right(*kind) {
                out.extend(right);
            }
        }
        Op::Aggregate { group, aggs } => out = group.iter().chain(aggs.iter()).map(|i| ColInfo { name: i.name.clone(), ty: i.ty, list: false }).collect(),
        Op::DistinctOn { select, .. } => {
            out = vec![];
            for s in select {
                out.push(schema.iter().find(|c| c.name == *s)?.clone());
            }
        }
        Op::SetOp { kind, other } => {
            if matches!(kind, SetKind::UnionByName | SetKind::UnionByNameDistinct) {
                if let Some(x) = &other.extra {
                    if has(&x.name) {
                        return None;
                    }
                    out.push(ColInfo { name: x.name.clone(), ty: x.ty, list: false });
                }
            }
        }
    }
    let mut names: Vec<&String> = out.iter().map(|c| &c.name).collect();
    names.sort();
    names.dedup();
    if names.len() != out.len() {
        return None;
    }
    Some(out)
}

// ---------------------------------------------------------------------------------------------
// generator

struct Gen {
    t: Tape,
    n: usize,
}

impl Gen {
    fn fresh(&mut self, stem: &str) -> String {
        self.n += 1;
        format!("{stem}{}", self.n)
    }
}

fn scope_of(schema: &[ColInfo], rel: Option<&str>) -> Scope {
    Scope { cols: schema.iter().filter(|c| !c.list).map(|c| ScopeCol::new(rel, &c.name, c.ty)).collect() }
}

fn total_order(t: &mut Tape, schema: &[ColInfo], lead: &[String]) -> Vec<OrderItem> {
    let mut keys = vec![];
    let mut names: Vec<&ColInfo> = lead.iter().filter_map(|n| schema.iter().find(|c| c.name == *n)).collect();
    for c in schema {
        if !lead.contains(&c.name) {
            names.push(c);
        }
    }
    for c in names {
        let desc = t.chance(30);
        let nulls_first = match t.below(3) {
            0 => None,
            1 => Some(true),
            _ => Some(false),
        };
        keys.push(OrderItem { expr: Expr::Col { rel: None, name: c.name.clone() }, desc, nulls_first });
    }
    keys
}

fn pick_ty(t: &mut Tape) -> Ty {
    [Ty::Int, Ty::Str, Ty::Bool, Ty::Float][t.weighted(&[45, 25, 15, 15])]
}

fn agg_item(g: &mut Gen, sc: &Scope) -> Option<Item> {
    let of = |ty: Ty| -> Vec<&ScopeCol> { sc.cols.iter().filter(|c| c.ty == ty).collect() };
    let t = &mut g.t;
    let (f, arg, ty): (AggFunc, Option<Expr>, Ty) = match t.weighted(&[20, 15, 20, 15, 15, 8, 7]) {
        0 => (AggFunc::Count, None, Ty::Int),
        1 => {
            let ty = pick_ty(t);
            (AggFunc::Count, Some(exprgen::expr(t, ty, sc, 1, OPTS)), Ty::Int)
        }
        2 => {
            if of(Ty::Int).is_empty() {
                return None;
            }
            (AggFunc::Sum, Some(exprgen::expr(t, Ty::Int, sc, 1, OPTS)), Ty::Int)
        }
        3 => {
            let ty = [Ty::Int, Ty::Str, Ty::Float][t.below(3)];
            (if t.chance(50) { AggFunc::Min } else { AggFunc::Max }, Some(exprgen::expr(t, ty, sc, 1, OPTS)), ty)
        }
        4 => {
            let ty = if t.chance(50) { Ty::Int } else { Ty::Float };
            (AggFunc::Avg, Some(exprgen::expr(t, ty, sc, 0, OPTS)), Ty::Float)
        }
        5 => (AggFunc::Sum, Some(exprgen::expr(t, Ty::Float, sc, 0, OPTS)), Ty::Float),
        _ => (if t.chance(50) { AggFunc::BoolAnd } else { AggFunc::BoolOr }, Some(exprgen::expr(t, Ty::Bool, sc, 1, OPTS)), Ty::Bool),
    };
    let distinct = arg.is_some() && matches!(f, AggFunc::Count | AggFunc::Sum) && ty == Ty::Int && t.chance(20);
    let filter = if t.chance(15) { Some(exprgen::bool_expr(t, sc, 1, OPTS)) } else { None };
    let name = g.fresh("c");
    Some(Item { expr: Expr::Agg(Box::new(AggCall { f, distinct, arg, filter })), name, ty })
}

fn window_item(g: &mut Gen, schema: &[ColInfo]) -> Item {
    let sc = scope_of(schema, None);
    let t = &mut g.t;
    let part: Vec<Expr> = if t.chance(70) && !sc.cols.is_empty() { vec![sc.cols[t.below(sc.cols.len())].expr()] } else { vec![] };
    let plain: Vec<ColInfo> = schema.iter().filter(|c| !c.list).cloned().collect();
    let (f, args, order, ty): (WinFunc, Vec<Expr>, Vec<OrderItem>, Ty) = match t.weighted(&[25, 15, 15, 25, 20]) {
        0 => (WinFunc::RowNumber, vec![], total_order(t, &plain, &[]), Ty::Int),
        1 => (WinFunc::Rank, vec![], total_order(t, &plain, &[]).into_iter().take(1 + t.below(2)).collect(), Ty::Int),
        2 => (WinFunc::DenseRank, vec![], total_order(t, &plain, &[]).into_iter().take(1 + t.below(2)).collect(), Ty::Int),
        // aggregate over the whole partition
        3 => {
            let ty = if t.chance(70) { Ty::Int } else { Ty::Float };
            (WinFunc::Agg(if t.chance(50) { AggFunc::Sum } else { AggFunc::Max }), vec![exprgen::expr(t, ty, &sc, 1, OPTS)], vec![], ty)
        }
        // running aggregate over a total order
        _ => (WinFunc::Agg(if t.chance(50) { AggFunc::Sum } else { AggFunc::Count }), vec![exprgen::expr(t, Ty::Int, &sc, 0, OPTS)], total_order(t, &plain, &[]), Ty::Int),
    };
    // ordered aggregates: the frame is written out (RANGE / ROWS .. CURRENT ROW) or left to the default of either side
    let frame = if matches!(f, WinFunc::Agg(_)) && !order.is_empty() && t.chance(60) {
        Some(Frame { units: if t.chance(50) { FrameUnits::Range } else { FrameUnits::Rows }, start: FrameBound::UnboundedPreceding, end: FrameBound::CurrentRow })
    } else {
        None
    };
    let name = g.fresh("w");
    Item { expr: Expr::Win(Box::new(WinCall { f, args, partition_by: part, order_by: order, frame })), name, ty }
}

fn gen_op(g: &mut Gen, schema: &[ColInfo], alias: Option<&str>, last: bool) -> Op {
    let rel = if alias.is_some() && g.t.chance(60) { alias } else { None };
    let sc = scope_of(schema, rel);
    let plain: Vec<&ColInfo> = schema.iter().filter(|c| !c.list).collect();
    let lists: Vec<&ColInfo> = schema.iter().filter(|c| c.list).collect();
    let no_lists = lists.is_empty();
    let w = |x: u32, ok: bool| if ok { x } else { 0 };
    let enough = !plain.is_empty();
    let choice = g.t.weighted(&[
        12,                                    // 0 filter
        w(9, enough),                          // 1 select
        w(9, enough),                          // 2 with_column
        w(5, enough && no_lists),              // 3 make list
        w(30, !no_lists),                      // 4 unnest
        w(5, enough),                          // 5 rename
        w(5, schema.len() >= 2),               // 6 drop
        w(8, enough && no_lists),              // 7 join
        w(8, enough && no_lists),              // 8 join_on
        w(9, enough && no_lists),              // 9 aggregate
        w(if last { 10 } else { 3 }, no_lists), // 10 sort
        w(6, no_lists),                        // 11 sort+limit
        w(5, no_lists),                        // 12 distinct
        w(7, enough && no_lists),              // 13 distinct_on
        w(8, no_lists),                        // 14 set op
        w(6, enough && no_lists),              // 15 union by name
        w(8, enough && no_lists),              // 16 window
        w(4, alias.is_none()),                 // 17 alias
    ]);
    match choice {
        0 => Op::Filter { pred: exprgen::bool_expr(&mut g.t, &sc, 2, OPTS) },
        1 => {
            let n = 1 + g.t.below(4);
            let mut items = vec![];
            for _ in 0..n {
                if g.t.chance(45) {
                    let c = plain[g.t.below(plain.len())];
                    let name = g.fresh("c");
                    items.push(Item { expr: Expr::Col { rel: rel.map(|s| s.to_string()), name: c.name.clone() }, name, ty: c.ty });
                } else {
                    let ty = pick_ty(&mut g.t);
                    let e = exprgen::expr(&mut g.t, ty, &sc, 2, OPTS);
                    let name = g.fresh("c");
                    items.push(Item { expr: e, name, ty });
                }
            }
            Op::Select { items }
        }
        2 => {
            let ty = pick_ty(&mut g.t);
            if no_lists && g.t.chance(20) {
                let mut it = window_item(g, schema);
                if g.t.chance(30) {
                    it.name = plain[g.t.below(plain.len())].name.clone();
                }
                return Op::WithColumn { item: it };
            }
            let e = exprgen::expr(&mut g.t, ty, &sc, 2, OPTS);
            let name = if g.t.chance(30) { plain[g.t.below(plain.len())].name.clone() } else { g.fresh("c") };
            Op::WithColumn { item: Item { expr: e, name, ty } }
        }
        3 => {
            let ty = [Ty::Int, Ty::Str][g.t.weighted(&[70, 30])];
            let n = 2 + g.t.below(2);
            let elems: Vec<Expr> = (0..n).map(|_| exprgen::expr(&mut g.t, ty, &sc, 1, OPTS)).collect();
            Op::MakeList { name: g.fresh("l"), ty, elems }
        }
        4 => Op::Unnest { col: lists[g.t.below(lists.len())].name.clone() },
        5 => Op::Rename { old: plain[g.t.below(plain.len())].name.clone(), new: g.fresh("r") },
        6 => {
            let n = 1 + g.t.below((schema.len() - 1).min(2));
            let start = g.t.below(schema.len());
            Op::Drop { cols: (0..n).map(|i| schema[(start + i) % schema.len()].name.clone()).collect() }
        }
        7 | 8 => {
            let kind = [JoinKind::Inner, JoinKind::Left, JoinKind::Right, JoinKind::Full, JoinKind::LeftSemi, JoinKind::LeftAnti, JoinKind::RightSemi, JoinKind::RightAnti][g.t.weighted(&[30, 15, 10, 10, 10, 10, 8, 7])];
            let prefix = format!("{}_", g.fresh("j"));
            let right = if g.t.chance(70) { "t1" } else { "t0" }.to_string();
            let rsc = Scope { cols: BASE.iter().map(|(n, ty)| ScopeCol::new(None, &format!("{prefix}{n}"), *ty)).collect() };
            let both = Scope { cols: sc.cols.iter().cloned().chain(rsc.cols.iter().cloned()).collect() };
            // key pairs of equal type
            let mut pairs: Vec<(String, String, Expr, Expr)> = vec![];
            let nk = 1 + g.t.below(2);
            for _ in 0..nk {
                let l = plain[g.t.below(plain.len())];
                let cands: Vec<&ScopeCol> = rsc.cols.iter().filter(|c| c.ty == l.ty).collect();
                let r = cands[g.t.below(cands.len())];
                if pairs.iter().any(|p| p.0 == l.name || p.1 == r.name) {
                    continue;
                }
                pairs.push((l.name.clone(), r.name.clone(), Expr::Col { rel: None, name: l.name.clone() }, r.expr()));
            }
            if choice == 7 {
                let filter = if g.t.chance(35) { Some(exprgen::bool_expr(&mut g.t, &both, 1, OPTS)) } else { None };
                Op::Join { right, prefix, kind, left_cols: pairs.iter().map(|p| p.0.clone()).collect(), right_cols: pairs.iter().map(|p| p.1.clone()).collect(), filter }
            } else {
                let mut on: Vec<Expr> = vec![];
                for p in &pairs {
                    // expression keys: equality of expressions, or a non-equality condition
                    on.push(match g.t.weighted(&[40, 30, 30]) {
                        0 => Expr::eq(p.2.clone(), p.3.clone()),
                        1 => Expr::bin(exprgen::cmp_op(&mut g.t), p.2.clone(), p.3.clone()),
                        _ => {
                            let ty = plain.iter().find(|c| c.name == p.0).map(|c| c.ty).unwrap_or(Ty::Int);
                            match ty {
                                Ty::Int => Expr::eq(Expr::bin(refsql::BinOp::Add, p.2.clone(), Expr::int(1)), p.3.clone()),
                                Ty::Str => Expr::eq(Expr::Func(refsql::Func::Lower, vec![p.2.clone()]), p.3.clone()),
                                _ => Expr::IsDistinctFrom { l: Box::new(p.2.clone()), r: Box::new(p.3.clone()), negated: true },
                            }
                        }
                    });
                }
                if g.t.chance(30) {
                    on.push(exprgen::bool_expr(&mut g.t, &both, 1, OPTS));
                }
                Op::JoinOn { right, prefix, kind, on }
            }
        }
        9 => {
            let ng = g.t.weighted(&[25, 50, 25]);
            let mut group = vec![];
            for _ in 0..ng {
                let (e, ty) = if g.t.chance(70) {
                    let c = plain[g.t.below(plain.len())];
                    (Expr::Col { rel: rel.map(|s| s.to_string()), name: c.name.clone() }, c.ty)
                } else {
                    let ty = pick_ty(&mut g.t);
                    (exprgen::expr(&mut g.t, ty, &sc, 1, OPTS), ty)
                };
                if group.iter().any(|i: &Item| i.expr == e) {
                    continue;
                }
                let name = g.fresh("g");
                group.push(Item { expr: e, name, ty });
            }
            let na = 1 + g.t.below(3);
            let mut aggs = vec![];
            for _ in 0..na {
                if let Some(a) = agg_item(g, &sc) {
                    aggs.push(a);
                }
            }
            if aggs.is_empty() {
                let name = g.fresh("c");
                aggs.push(Item { expr: Expr::Agg(Box::new(AggCall { f: AggFunc::Count, distinct: false, arg: None, filter: None })), name, ty: Ty::Int });
            }
            Op::Aggregate { group, aggs }
        }
        10 => Op::Sort { keys: total_order(&mut g.t, schema, &[]) },
        11 => {
            let keys = total_order(&mut g.t, schema, &[]);
            let skip = g.t.below(4);
            let fetch = if g.t.chance(80) { Some(g.t.below(7)) } else { None };
            Op::SortLimit { keys, skip, fetch }
        }
        12 => Op::Distinct,
        13 => {
            let n = 1 + g.t.below(plain.len().min(2));
            let start = g.t.below(plain.len());
            let on: Vec<String> = (0..n).map(|i| plain[(start + i) % plain.len()].name.clone()).collect();
            let select: Vec<String> = if g.t.chance(50) {
                schema.iter().map(|c| c.name.clone()).collect()
            } else {
                let k = 1 + g.t.below(schema.len());
                let st = g.t.below(schema.len());
                (0..k).map(|i| schema[(st + i) % schema.len()].name.clone()).collect()
            };
            let order = total_order(&mut g.t, schema, &on);
            Op::DistinctOn { on, select, order }
        }
        14 => {
            let kind = [SetKind::Union, SetKind::UnionDistinct, SetKind::Intersect, SetKind::IntersectDistinct, SetKind::Except, SetKind::ExceptDistinct][g.t.below(6)];
            let filter = if g.t.chance(80) { Some(exprgen::bool_expr(&mut g.t, &scope_of(schema, None), 2, OPTS)) } else { None };
            Op::SetOp { kind, other: Other { filter, cols: None, extra: None } }
        }
        15 => {
            let kind = if g.t.chance(50) { SetKind::UnionByName } else { SetKind::UnionByNameDistinct };
            let filter = if g.t.chance(70) { Some(exprgen::bool_expr(&mut g.t, &scope_of(schema, None), 1, OPTS)) } else { None };
            // permuted (rotated / reversed) subset of the columns
            let k = if g.t.chance(60) { schema.len() } else { 1 + g.t.below(schema.len()) };
            let st = g.t.below(schema.len());
            let mut cols: Vec<String> = (0..k).map(|i| schema[(st + i) % schema.len()].name.clone()).collect();
            if g.t.chance(40) {
                cols.reverse();
            }
            let extra = if g.t.chance(35) {
                let ty = pick_ty(&mut g.t);
                let name = g.fresh("x");
                Some(Item { expr: exprgen::lit(&mut g.t, ty, OPTS), name, ty })
            } else {
                None
            };
            Op::SetOp { kind, other: Other { filter, cols: Some(cols), extra } }
        }
        16 => Op::Window { item: window_item(g, schema) },
        _ => Op::Alias { name: g.fresh("q") },
    }
}

pub fn build_ops(tape: Vec<u8>, max_ops: usize) -> Vec<Op> {
    let mut g = Gen { t: Tape::new(tape), n: 0 };
    let n = 1 + g.t.below(max_ops);
    let mut schema = base_schema();
    let mut alias: Option<String> = None;
    let mut ops = vec![];
    let mut global_agg = false;
    for i in 0..n {
        let op = gen_op(&mut g, &schema, alias.as_deref(), i + 1 == n);
        let Some(next) = apply_schema(&schema, &op) else { continue };
        // no predicate above a global aggregate (foreign known finding C01 `filter-below-empty-grouping-set`, see `run`)
        if global_agg && filters_rows(&op) {
            continue;
        }
        global_agg |= matches!(&op, Op::Aggregate { group, .. } if group.is_empty());
        alias = match &op {
            Op::Alias { name } => Some(name.clone()),
            _ => None,
        };
        schema = next;
        ops.push(op);
    }
    ops
}

/// the op applies a predicate (one that might fold to a constant) to the rows of the chain
fn filters_rows(o: &Op) -> bool {
    match o {
        Op::Filter { .. } | Op::JoinOn { .. } => true,
        Op::SetOp { other, .. } => other.filter.is_some(),
        Op::Join { filter, .. } => filter.is_some(),
        _ => false,
    }
}

// ---------------------------------------------------------------------------------------------
// interpreter 1: SQL text

fn order_sql(keys: &[OrderItem]) -> String {
    keys.iter()
        .map(|o| {
            format!(
                "{} {}{}",
                expr_to_sql(&o.expr),
                if o.desc { "DESC" } else { "ASC" },
                match o.nulls_first {
                    Some(true) => " NULLS FIRST",
                    Some(false) => " NULLS LAST",
                    None => "",
                }
            )
        })
        .collect::<Vec<_>>()
        .join(", ")
}

fn right_sql(right: &str, prefix: &str) -> String {
    let cols: Vec<String> = BASE.iter().map(|(n, _)| format!("{n} AS {prefix}{n}")).collect();
    format!("(SELECT {} FROM {right})", cols.join(", "))
}

fn set_kw(kind: SetKind) -> &'static str {
    match kind {
        SetKind::Union => "UNION ALL",
        SetKind::UnionDistinct => "UNION",
        SetKind::Intersect => "INTERSECT ALL",
        SetKind::IntersectDistinct => "INTERSECT",
        SetKind::Except => "EXCEPT ALL",
        SetKind::ExceptDistinct => "EXCEPT",
        SetKind::UnionByName => "UNION ALL BY NAME",
        SetKind::UnionByNameDistinct => "UNION BY NAME",
    }
}

pub fn render_sql(case: &Case) -> Result<(String, Vec<ColInfo>), String> {
    let mut sql = "SELECT * FROM t0".to_string();
    let mut schema = base_schema();
    let mut pending_alias: Option<String> = None;
    for (k, op) in case.ops.iter().enumerate() {
        let next = apply_schema(&schema, op).ok_or_else(|| format!("op {k} does not fit the schema"))?;
        let a = pending_alias.take().unwrap_or_else(|| format!("d{k}"));
        let from = format!("({sql}) AS {a}");
        let names = |s: &[ColInfo]| s.iter().map(|c| c.name.clone()).collect::<Vec<_>>();
        sql = match op {
            Op::Filter { pred } => format!("SELECT * FROM {from} WHERE {}", expr_to_sql(pred)),
            Op::Select { items } => format!("SELECT {} FROM {from}", items.iter().map(|i| format!("{} AS {}", expr_to_sql(&i.expr), i.name)).collect::<Vec<_>>().join(", ")),
            Op::WithColumn { item } => {
                let mut cols: Vec<String> = vec![];
                let mut replaced = false;
                for c in &schema {
                    if c.name == item.name {
                        cols.push(format!("{} AS {}", expr_to_sql(&item.expr), item.name));
                        replaced = true;
                    } else {
                        cols.push(c.name.clone());
                    }
                }
                if !replaced {
                    cols.push(format!("{} AS {}", expr_to_sql(&item.expr), item.name));
                }
                format!("SELECT {} FROM {from}", cols.join(", "))
            }
            Op::MakeList { name, elems, .. } => format!("SELECT *, make_array({}) AS {name} FROM {from}", elems.iter().map(expr_to_sql).collect::<Vec<_>>().join(", ")),
            Op::Unnest { col } => format!("SELECT {} FROM {from}", schema.iter().map(|c| if c.name == *col { format!("unnest({col}) AS {col}") } else { c.name.clone() }).collect::<Vec<_>>().join(", ")),
            Op::Rename { old, new } => format!("SELECT {} FROM {from}", schema.iter().map(|c| if c.name == *old { format!("{old} AS {new}") } else { c.name.clone() }).collect::<Vec<_>>().join(", ")),
            Op::Drop { .. } => format!("SELECT {} FROM {from}", names(&next).join(", ")),
            Op::Join { right, prefix, kind, left_cols, right_cols, filter } => {
                let mut conds: Vec<String> = left_cols.iter().zip(right_cols).map(|(l, r)| format!("({a}.{l} = e{k}.{r})")).collect();
                if let Some(f) = filter {
                    conds.push(expr_to_sql(f));
                }
                format!("SELECT * FROM {from} {} {} AS e{k} ON {}", kind.sql(), right_sql(right, prefix), conds.join(" AND "))
            }
            Op::JoinOn { right, prefix, kind, on } => format!("SELECT * FROM {from} {} {} AS e{k} ON {}", kind.sql(), right_sql(right, prefix), on.iter().map(expr_to_sql).collect::<Vec<_>>().join(" AND ")),
            Op::Aggregate { group, aggs } => {
                let items: Vec<String> = group.iter().chain(aggs.iter()).map(|i| format!("{} AS {}", expr_to_sql(&i.expr), i.name)).collect();
                let gb = if group.is_empty() { String::new() } else { format!(" GROUP BY {}", group.iter().map(|i| expr_to_sql(&i.expr)).collect::<Vec<_>>().join(", ")) };
                format!("SELECT {} FROM {from}{gb}", items.join(", "))
            }
            Op::Sort { keys } => format!("SELECT * FROM {from} ORDER BY {}", order_sql(keys)),
            Op::SortLimit { keys, skip, fetch } => format!("SELECT * FROM {from} ORDER BY {}{} OFFSET {skip}", order_sql(keys), fetch.map(|f| format!(" LIMIT {f}")).unwrap_or_default()),
            Op::Distinct => format!("SELECT DISTINCT * FROM {from}"),
            Op::DistinctOn { on, select, order } => format!("SELECT DISTINCT ON ({}) {} FROM {from} ORDER BY {}", on.join(", "), select.join(", "), order_sql(order)),
            Op::SetOp { kind, other } => {
                let mut items = match &other.cols {
                    Some(cs) => cs.join(", "),
                    None => "*".to_string(),
                };
                if let Some(x) = &other.extra {
                    items = format!("{items}, {} AS {}", expr_to_sql(&x.expr), x.name);
                }
                let w = other.filter.as_ref().map(|f| format!(" WHERE {}", expr_to_sql(f))).unwrap_or_default();
                format!("(SELECT * FROM {from}) {} (SELECT {items} FROM ({sql}) AS {a}b{w})", set_kw(*kind))
            }
            Op::Window { item } => format!("SELECT *, {} AS {} FROM {from}", expr_to_sql(&item.expr), item.name),
            Op::Alias { name } => {
                pending_alias = Some(name.clone());
                sql
            }
        };
        schema = next;
    }
    Ok((sql, schema))
}

// ---------------------------------------------------------------------------------------------
// interpreter 2: DataFrame API

fn join_type(k: JoinKind) -> Option<JoinType> {
    Some(match k {
        JoinKind::Inner => JoinType::Inner,
        JoinKind::Left => JoinType::Left,
        JoinKind::Right => JoinType::Right,
        JoinKind::Full => JoinType::Full,
        JoinKind::LeftSemi => JoinType::LeftSemi,
        JoinKind::LeftAnti => JoinType::LeftAnti,
        JoinKind::RightSemi => JoinType::RightSemi,
        JoinKind::RightAnti => JoinType::RightAnti,
        JoinKind::Cross => return None,
    })
}

type DfErr = (bool, ErrClass, String);

fn perr(e: datafusion::error::DataFusionError) -> DfErr {
    (true, classify_error(&e), truncate(&e.strip_backtrace(), 500))
}

fn herr(m: String) -> DfErr {
    (true, ErrClass::Other, format!("harness: {m}"))
}

fn aliased(i: &Item) -> Result<DfExpr, DfErr> {
    Ok(to_df(&i.expr).map_err(herr)?.alias(i.name.as_str()))
}

fn sorts(keys: &[OrderItem]) -> Result<Vec<SortExpr>, DfErr> {
    keys.iter().map(|o| dfexpr::sort_expr(o).map_err(herr)).collect()
}

async fn right_df(ctx: &SessionContext, right: &str, prefix: &str) -> Result<DataFrame, DfErr> {
    let df = ctx.table(right).await.map_err(perr)?;
    df.select(BASE.iter().map(|(n, _)| dfexpr::column(None, n).alias(format!("{prefix}{n}"))).collect::<Vec<_>>()).map_err(perr)
}

pub async fn build_df(ctx: &SessionContext, case: &Case) -> Result<DataFrame, DfErr> {
    let mut df = ctx.table("t0").await.map_err(perr)?;
    let mut schema = base_schema();
    for (k, op) in case.ops.iter().enumerate() {
        let next = apply_schema(&schema, op).ok_or_else(|| herr(format!("op {k} does not fit the schema")))?;
        df = match op {
            Op::Filter { pred } => df.filter(to_df(pred).map_err(herr)?),
            Op::Select { items } => df.select(items.iter().map(aliased).collect::<Result<Vec<_>, _>>()?),
            Op::WithColumn { item } => df.with_column(&item.name, to_df(&item.expr).map_err(herr)?),
            Op::MakeList { name, elems, .. } => {
                let args = elems.iter().map(|e| to_df(e).map_err(herr)).collect::<Result<Vec<_>, _>>()?;
                df.with_column(name, datafusion::functions_nested::make_array::make_array_udf().call(args))
            }
            Op::Unnest { col } => df.unnest_columns(&[col.as_str()]),
            Op::Rename { old, new } => df.with_column_renamed(old.as_str(), new),
            Op::Drop { cols } => df.drop_columns(&cols.iter().map(|c| c.as_str()).collect::<Vec<_>>()),
            Op::Join { right, prefix, kind, left_cols, right_cols, filter } => {
                let r = right_df(ctx, right, prefix).await?;
                let f = match filter {
                    Some(f) => Some(to_df(f).map_err(herr)?),
                    None => None,
                };
                let jt = join_type(*kind).ok_or_else(|| herr("cross join".into()))?;
                df.join(r, jt, &left_cols.iter().map(|c| c.as_str()).collect::<Vec<_>>(), &right_cols.iter().map(|c| c.as_str()).collect::<Vec<_>>(), f)
            }
            Op::JoinOn { right, prefix, kind, on } => {
                let r = right_df(ctx, right, prefix).await?;
                let jt = join_type(*kind).ok_or_else(|| herr("cross join".into()))?;
                df.join_on(r, jt, on.iter().map(|e| to_df(e).map_err(herr)).collect::<Result<Vec<_>, _>>()?)
            }
            Op::Aggregate { group, aggs } => df.aggregate(group.iter().map(aliased).collect::<Result<Vec<_>, _>>()?, aggs.iter().map(aliased).collect::<Result<Vec<_>, _>>()?),
            Op::Sort { keys } => df.sort(sorts(keys)?),
            Op::SortLimit { keys, skip, fetch } => df.sort(sorts(keys)?).and_then(|d| d.limit(*skip, *fetch)),
            Op::Distinct => df.distinct(),
            Op::DistinctOn { on, select, order } => {
                df.distinct_on(on.iter().map(|c| dfexpr::column(None, c)).collect(), select.iter().map(|c| dfexpr::column(None, c)).collect(), Some(sorts(order)?))
            }
            Op::SetOp { kind, other } => {
                let mut o = df.clone();
                if let Some(f) = &other.filter {
                    o = o.filter(to_df(f).map_err(herr)?).map_err(perr)?;
                }
                if other.cols.is_some() || other.extra.is_some() {
                    let cols: Vec<String> = other.cols.clone().unwrap_or_else(|| schema.iter().map(|c| c.name.clone()).collect());
                    let mut items: Vec<DfExpr> = cols.iter().map(|c| dfexpr::column(None, c)).collect();
                    if let Some(x) = &other.extra {
                        items.push(aliased(x)?);
                    }
                    o = o.select(items).map_err(perr)?;
                }
                match kind {
                    SetKind::Union => df.union(o),
                    SetKind::UnionDistinct => df.union_distinct(o),
                    SetKind::Intersect => df.intersect(o),
                    SetKind::IntersectDistinct => df.intersect_distinct(o),
                    SetKind::Except => df.except(o),
                    SetKind::ExceptDistinct => df.except_distinct(o),
                    SetKind::UnionByName => df.union_by_name(o),
                    SetKind::UnionByNameDistinct => df.union_by_name_distinct(o),
                }
            }
            Op::Window { item } => {
                // `DataFrame::window` takes bare (aliased) window functions only: no cast around ranking functions here
                let Expr::Win(w) = &item.expr else { return Err(herr("window op without a window expression".into())) };
                let (raw, to_int) = dfexpr::win_raw(w).map_err(herr)?;
                let d = df.window(vec![raw.alias(item.name.as_str())]);
                if to_int {
                    // ranking functions are UInt64; the SQL text says CAST(.. AS BIGINT): same type on both sides
                    d.and_then(|d| d.with_column(&item.name, datafusion::logical_expr::cast(dfexpr::column(None, &item.name), datafusion::arrow::datatypes::DataType::Int64)))
                } else {
                    d
                }
            }
            Op::Alias { name } => df.alias(name),
        }
        .map_err(perr)?;
        schema = next;
    }
    Ok(df)
}

// ---------------------------------------------------------------------------------------------

type Rows = Vec<Vec<Value>>;

async fn collect(df: DataFrame) -> Result<(Vec<String>, Rows), DfErr> {
    let names: Vec<String> = df.schema().fields().iter().map(|f| f.name().clone()).collect();
    let task_ctx = std::sync::Arc::new(df.task_ctx());
    let plan = df.create_physical_plan().await.map_err(perr)?;
    let batches = datafusion::physical_plan::collect(plan, task_ctx).await.map_err(|e| (false, classify_error(&e), truncate(&e.strip_backtrace(), 500)))?;
    Ok((names, batches_to_rows(&batches)))
}

struct Observed {
    sql: Result<(Vec<String>, Rows), DfErr>,
    df: Result<(Vec<String>, Rows), DfErr>,
}

fn foreign(e: &DfErr) -> bool {
    e.1 == ErrClass::Internal && e.2.contains("field nullability")
}

fn is_rejection(e: &DfErr) -> bool {
    e.1.is_clean_rejection() || (e.0 && e.1 != ErrClass::Internal)
}

fn op_name(op: &Op) -> String {
    match op {
        Op::Filter { .. } => "filter".into(),
        Op::Select { .. } => "select".into(),
        Op::WithColumn { item } => if matches!(item.expr, Expr::Win(_)) { "with_column:window".into() } else { "with_column".into() },
        Op::MakeList { .. } => "with_column:make_array".into(),
        Op::Unnest { .. } => "unnest_columns".into(),
        Op::Rename { .. } => "with_column_renamed".into(),
        Op::Drop { .. } => "drop_columns".into(),
        Op::Join { kind, .. } => format!("join:{kind:?}"),
        Op::JoinOn { kind, .. } => format!("join_on:{kind:?}"),
        Op::Aggregate { group, .. } => if group.is_empty() { "aggregate:global".into() } else { "aggregate".into() },
        Op::Sort { .. } => "sort".into(),
        Op::SortLimit { .. } => "sort+limit".into(),
        Op::Distinct => "distinct".into(),
        Op::DistinctOn { .. } => "distinct_on".into(),
        Op::SetOp { kind, .. } => format!("{kind:?}"),
        Op::Window { .. } => "window".into(),
        Op::Alias { .. } => "alias".into(),
    }
}

impl Property for C48 {
    type Case = Case;
    fn id(&self) -> &'static str {
        "C48"
    }
    fn sub(&self) -> &'static str {
        "c48"
    }
    fn strategy(&self, tier: Tier) -> BoxedStrategy<Case> {
        let mut cfg = GenConfig::standard(2, tier.pick(8, 16), 0);
        cfg.min_rows = 2;
        let max_ops = tier.pick(6usize, 8);
        (refsql::tables_strategy(&cfg), prop::collection::vec(any::<u8>(), 0..260), 1usize..=3, 1usize..=3)
            .prop_map(move |(tables, tape, mem_partitions, target_partitions)| Case { tables, ops: build_ops(tape, max_ops), mem_partitions, target_partitions })
            .boxed()
    }
    fn budget(&self, tier: Tier) -> Budget {
        Budget::new(tier.pick(800, 60_000), tier.pick(8, 16)).min_nontrivial(tier.pick(60, 4000)).case_timeout(180)
    }
    fn rule(&self) -> String {
        "chain of 1-6 DataFrame operations {filter, select, with_column (scalar / window / make_array), unnest_columns, with_column_renamed, drop_columns, join, join_on, aggregate, sort, sort+limit, distinct, distinct_on, \
         union(+distinct), intersect(+distinct), except(+distinct), union_by_name(+distinct), window, alias} over t0/t1 (0-8 rows, NULL-heavy) generated as a chain AST with two interpreters (DataFrame API / SQL text); \
         non-trivial = chain length >= 3 holding one of join_on, union_by_name, distinct_on, unnest, window and both sides produced rows to compare; distinct by case JSON"
            .into()
    }
    fn assumptions(&self) -> Vec<String> {
        vec![
            "the SQL rendering of each operation (one derived table per step) is the statement 'with the same meaning' — fixed by the rustdoc of the DataFrame methods".into(),
            "both sides run on the same engine: defects shared by both planners' common parts are invisible here (C01 covers the SQL side against an independent reference)".into(),
        ]
    }
    /// outcome-keyed: the signature of the observed failure (None when the case does not fail)
    fn known_signature(&self, case: &Case) -> Option<String> {
        // the engine calls this outside its panic guard: a panic of the code under test must not escape from here. The case is then
        // evaluated again by `run` (inside the guard), where the engine classifies the panic by its location.
        std::panic::catch_unwind(std::panic::AssertUnwindSafe(|| evaluate(case).1)).unwrap_or(None)
    }
    fn run(&self, case: &Case) -> CaseResult {
        evaluate(case).0
    }
}

thread_local! {
    static LAST: std::cell::RefCell<Option<(u64, CaseResult, Option<String>)>> = const { std::cell::RefCell::new(None) };
}

fn evaluate(case: &Case) -> (CaseResult, Option<String>) {
    let key = fnv1a(&serde_json::to_vec(case).unwrap_or_default());
    if let Some(hit) = LAST.with(|c| c.borrow().as_ref().filter(|(k, _, _)| *k == key).map(|(_, r, s)| (r.clone(), s.clone()))) {
        return hit;
    }
    let r = evaluate_uncached(case);
    let sig = if r.is_violation() { failure_signature(case, &r) } else { None };
    LAST.with(|c| *c.borrow_mut() = Some((key, r.clone(), sig.clone())));
    (r, sig)
}

/// shape of the known finding `offset-only-limit-under-sort`: rows differ and a skip-only limit sits under a later sort
fn failure_signature(case: &Case, r: &CaseResult) -> Option<String> {
    let Outcome::Violation(m) = &r.outcome else { return None };
    if m.contains("Expects PARTITION BY expression to be ordered") {
        // root cause = C01 `window-partition-by-not-ordered` (window partitioned / ordered by v under a filter `v + v = v`); here only one side hits it
        return Some("window-partition-by-not-ordered".to_string());
    }
    if !m.starts_with("DataFrame rows differ") {
        return None;
    }
    // a skip-only limit (OFFSET without LIMIT) that is not the end of the chain: EnsureRequirements looks at fetch() only.
    // (a) `offset-only-limit-under-sort` (fixed in /repo by 5f59134): a sort DIRECTLY above the limit was pushed below it;
    // (b) `offset-only-limit-sort-removed` (open): any other operator above the limit — the SortExec feeding the limit is dropped when a
    //     projection lies between them and nothing above asks for that order (also a later sort on other keys).
    if let Some(at) = case.ops.iter().position(|o| matches!(o, Op::SortLimit { skip, fetch: None, .. } if *skip > 0)) {
        match case.ops.get(at + 1) {
            // the end of the chain: the statement's own output requirement keeps the sort
            None => {}
            // (a) a sort directly above the limit (was pushed below it)
            Some(Op::Sort { .. } | Op::SortLimit { .. }) => return Some("offset-only-limit-under-sort".to_string()),
            // (b) anything else above it (every other op puts a projection / an order-agnostic operator on top of the limit)
            Some(_) => return Some("offset-only-limit-sort-removed".to_string()),
        }
    }
    // an ordered aggregate window function without an explicit frame: the expression builder defaults to ROWS, SQL to RANGE
    let default_frame = |e: &Expr| matches!(e, Expr::Win(w) if matches!(w.f, WinFunc::Agg(_)) && !w.order_by.is_empty() && w.frame.is_none());
    case.ops.iter().any(|o| matches!(o, Op::Window { item } | Op::WithColumn { item } if default_frame(&item.expr))).then(|| "window-builder-default-frame".to_string())
}

fn evaluate_uncached(case: &Case) -> CaseResult {
    {
        if case.tables.len() != 2 || case.tables[0].name != "t0" || case.tables[1].name != "t1" || case.ops.len() > 40 {
            return CaseResult::discard("malformed case");
        }
        // foreign known finding C01 `filter-below-empty-grouping-set`: a predicate above a global aggregate that is (or folds to) a column-free
        // conjunct is pushed below the aggregate (the grand-total row survives); the two plan shapes are hit differently — not a DataFrame matter
        if let Some(at) = case.ops.iter().position(|o| matches!(o, Op::Aggregate { group, .. } if group.is_empty())) {
            // (also predicates that merely *simplify* to a constant, which cannot be told apart statically: every predicate counts)
            if case.ops[at + 1..].iter().any(filters_rows) {
                return CaseResult::discard("foreign known finding shape: C01 filter-below-empty-grouping-set");
            }
        }
        // foreign known finding C01 `join-mixed-null-equality`: a null-equal key (IS NOT DISTINCT FROM) in one join and a plain equality
        // in another join of the same tree: the flattened joins share one null-equality setting
        let joins = case.ops.iter().filter(|o| matches!(o, Op::Join { .. } | Op::JoinOn { .. })).count();
        let null_equal = case.ops.iter().any(|o| matches!(o, Op::JoinOn { on, .. } if on.iter().any(|e| matches!(e, Expr::IsDistinctFrom { negated: true, .. }))));
        if joins >= 2 && null_equal {
            return CaseResult::discard("foreign known finding shape: C01 join-mixed-null-equality");
        }
        let (sql, schema) = match render_sql(case) {
            Ok(x) => x,
            Err(m) => return CaseResult::discard(format!("malformed case: {m}")),
        };
        let v = Variant { mem_partitions: case.mem_partitions.clamp(1, 4), batch_rows: Some(3), target_partitions: case.target_partitions.clamp(1, 4), timeout_ms: 60_000, ..Variant::default() };
        let (case2, sql2) = (case.clone(), sql.clone());
        let obs = run_in_context(&case.tables, &v, |b| b, |ctx| async move {
            // each side under its own panic guard: a panic of the engine is that side's internal error (so that "both sides fail" /
            // "the SQL side alone fails" stay what they are — nothing to compare — and a panic of the DataFrame side alone is a violation)
            use futures::FutureExt;
            let panicked = || -> DfErr { (false, ErrClass::Internal, "panic in code under test (location in the evidence's panic_log)".to_string()) };
            let s = std::panic::AssertUnwindSafe(async {
                match ctx.sql(&sql2).await {
                    Ok(df) => collect(df).await,
                    Err(e) => Err(perr(e)),
                }
            })
            .catch_unwind()
            .await
            .unwrap_or_else(|_| Err(panicked()));
            let d = std::panic::AssertUnwindSafe(async {
                match build_df(&ctx, &case2).await {
                    Ok(df) => collect(df).await,
                    Err(e) => Err(e),
                }
            })
            .catch_unwind()
            .await
            .unwrap_or_else(|_| Err(panicked()));
            Observed { sql: s, df: d }
        });
        let obs = match obs {
            Err(e) => return CaseResult::inconclusive(format!("setup failed: {}", e.message)),
            Ok(None) => return CaseResult::inconclusive("timeout"),
            Ok(Some(o)) => o,
        };
        let mut labels: Vec<String> = case.ops.iter().map(|o| format!("op:{}", op_name(o))).collect();
        labels.push(format!("len={}", case.ops.len()));
        labels.sort();
        labels.dedup();
        let repro = || format!("\n  ops: {}\n  sql: {sql}\n  tables:\n{}", serde_json::to_string(&case.ops).unwrap_or_default(), vf_df::repro_script(&case.tables, "SELECT 1"));
        let harness = |e: &DfErr| e.2.starts_with("harness:");
        match (&obs.sql, &obs.df) {
            (Err(a), Err(b)) => {
                if harness(b) {
                    return CaseResult::inconclusive(format!("DataFrame interpreter: {}", b.2)).labels(labels);
                }
                if (a.1 == ErrClass::Internal && !foreign(a)) || (b.1 == ErrClass::Internal && !foreign(b)) {
                    // both sides fail with an internal error: a planner defect, but there are no rows on either side, so nothing in the
                    // property statement is contradicted — histogrammed discard (see the header for the two instances met)
                    return CaseResult::discard(format!("both sides fail with an internal error: {}", truncate(&b.2, 70))).labels(labels).label("both-sides-internal-error");
                }
                CaseResult::discard(format!("both sides fail: {}", truncate(&a.2, 40))).labels(labels)
            }
            (Ok(_), Err(e)) | (Err(e), Ok(_)) => {
                let side = if obs.sql.is_err() { "sql" } else { "dataframe" };
                if harness(e) {
                    return CaseResult::inconclusive(format!("DataFrame interpreter: {}", e.2)).labels(labels);
                }
                if foreign(e) {
                    return CaseResult::discard("foreign known finding: nullability mismatch (C01)").labels(labels);
                }
                if is_rejection(e) {
                    return CaseResult::discard(format!("{side} side rejects: {}", truncate(&e.2, 44))).labels(labels).label(format!("rejected-by:{side}"));
                }
                if side == "sql" && e.1 == ErrClass::Internal {
                    // the SQL statement itself cannot be planned / run (an internal error of the SQL side is C01's subject): there are no
                    // SQL rows to compare the DataFrame with. Histogrammed; an internal error of the DataFrame side stays a violation.
                    return CaseResult::discard(format!("sql side internal error: {}", truncate(&e.2, 60))).labels(labels).label("sql-side-internal-error");
                }
                CaseResult::violation(format!("the {side} side fails with {:?} ({}): {} while the other side succeeds{}", e.1, if e.0 { "planning" } else { "execution" }, e.2, repro())).labels(labels)
            }
            (Ok((sn, sr)), Ok((dn, dr))) => {
                let expect: Vec<String> = schema.iter().map(|c| c.name.clone()).collect();
                if sn != dn {
                    return CaseResult::violation(format!("output column names differ: sql {sn:?} vs dataframe {dn:?} (chain predicts {expect:?}){}", repro())).labels(labels);
                }
                if *dn != expect {
                    return CaseResult::inconclusive(format!("both sides name the columns {dn:?}, the chain AST predicts {expect:?}")).labels(labels);
                }
                let ordered = matches!(case.ops.last(), Some(Op::Sort { .. } | Op::SortLimit { .. }));
                if let Some(d) = refsql::multiset_diff(sr, dr) {
                    return CaseResult::violation(format!("DataFrame rows differ from the SQL rows (multiset): expected = sql, got = dataframe: {d}{}", repro())).labels(labels);
                }
                if ordered {
                    // the chain ends in a total sort: the DataFrame must deliver that order whenever the SQL side does. (Sequence equality
                    // would also blame the DataFrame for an ORDER BY that the engine honours on neither side — seen once in the thorough
                    // tier for sort(window(unnest(..))); that is a sorting defect, not a DataFrame/SQL difference: label + discard.)
                    let keys = match case.ops.last() {
                        Some(Op::Sort { keys } | Op::SortLimit { keys, .. }) => keys.clone(),
                        _ => vec![],
                    };
                    let df_unsorted = refsql::sortedness_violation(dn, dr, &keys);
                    let sql_unsorted = refsql::sortedness_violation(sn, sr, &keys);
                    match (df_unsorted, sql_unsorted) {
                        (None, None) => {
                            if let Some(d) = refsql::sequence_diff(sr, dr) {
                                return CaseResult::violation(format!("both sides are sorted by the final keys but the sequences differ although the order is total: {d}{}", repro())).labels(labels);
                            }
                        }
                        (Some(m), None) => return CaseResult::violation(format!("the DataFrame result is not in the order of its final sort (the SQL result is): {m}{}", repro())).labels(labels),
                        (None, Some(_)) => return CaseResult::discard("the SQL result is not sorted by its ORDER BY (the DataFrame result is)").labels(labels).label("sql-side-unsorted"),
                        (Some(_), Some(_)) => return CaseResult::discard("neither side delivers the final sort order (multisets agree)").labels(labels).label("both-sides-unsorted"),
                    }
                }
                let special = case.ops.iter().any(|o| {
                    matches!(o, Op::JoinOn { .. } | Op::DistinctOn { .. } | Op::Unnest { .. } | Op::Window { .. } | Op::SetOp { kind: SetKind::UnionByName | SetKind::UnionByNameDistinct, .. })
                        || matches!(o, Op::WithColumn { item } if matches!(item.expr, Expr::Win(_)))
                });
                if sr.is_empty() {
                    labels.push("empty-result".into());
                }
                if ordered {
                    labels.push("sequence-compared".into());
                }
                CaseResult::pass().nontrivial(case.ops.len() >= 3 && special).labels(labels)
            }
        }
    }
}
