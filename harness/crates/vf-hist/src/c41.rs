//! C41 — bound query parameters behave like the equivalent literals.
//!
//! Domain: a deterministic query of the C01 grammar (`refsql::gen`, 2 tables, ≤ 8 rows (thorough 14), depth 2, no
//! unguarded division, no deliberately tied top-k, no recursive CTEs) whose literal sites — literals and typed NULLs in
//! the select list, WHERE, HAVING, QUALIFY, join conditions, IN lists, LIKE patterns, CASE branches, subqueries, CTEs,
//! window partition / order keys, and every LIMIT / OFFSET at any nesting level — are walked in a fixed order; a choice
//! tape replaces a subset (≈ 45 %) by parameters: a site either opens a new parameter or re-uses an earlier parameter of
//! the same type (the same `$n` used twice); the bound value is the original literal, another value of the site's type,
//! or a NULL of that type (LIMIT/OFFSET: non-negative integers only). Placeholders are positional (`$1…`) or named
//! (`$p1…`). Sites that must stay literal are never replaced: GROUP BY keys and their copies in the select list / HAVING
//! (the planner matches them structurally), offsets / n of window functions, VALUES rows, divisors and their NULLIF guards
//! (another value there would introduce a fallible operation).
//!
//! Routes (all inside one fresh SessionContext): A `PREPARE p[(declared types)] AS q; EXECUTE p(v…)` (positional only),
//! B `ctx.sql(q).await?.with_param_values(ParamValues)` + collect, C `LogicalPlan::with_param_values` on the planned
//! statement + `execute_logical_plan` + collect. Values are bound as `ScalarValue`s of the site's type (Int64 / Float64
//! / Utf8 / Boolean, NULL = typed None) and written as `CAST(NULL AS ty)` / literals in EXECUTE.
//!
//! Oracle (metamorphic, the statement of the property): rows of every route = rows of the same query text with the
//! values written in as typed literals (multiset; additionally sorted by the top-level ORDER BY). The literal query is
//! required to be deterministic on the data (`refsql::deterministic_on`), otherwise the case is discarded.
//! A parameterised form rejected cleanly (Plan/Schema/SQL/NotImplemented — e.g. type cannot be inferred) is a discard
//! of that route, histogrammed per position kinds; a literal query that fails is a discard. Because the grammar has no
//! fallible operation, a run-time error of a route whose literal form succeeds is a violation. On a row mismatch the
//! reference evaluator arbitrates: when it agrees with the *route* (the literal form is the wrong one) the case is a
//! discard "literal form disagrees with the reference" — that is C01's subject, not parameter binding.
//!
//! Known finding `prepare-optimized-twice` (genuine): PREPARE stores the optimized plan, EXECUTE binds the values and the plan is
//! optimized a second time with a fresh alias generator, so the `__common_expr_N` columns of the first common-subexpression pass
//! collide with those of the second: wrong values (`concat($1, s), $1 = s` returns (zz, true) for $1 = 'a', s = 'z') or
//! `Internal error: WHEN expression did not return a BooleanArray`. Signature (outcome-keyed): the PREPARE route fails and the
//! PREPARE-optimized plan contains a `__common_expr_` alias, or PREPARE itself fails the optimizer's schema invariant (`PREPARE q AS SELECT
//! coalesce(id + CAST(NULL AS BIGINT), $1) FROM t0` → `Failed due to a difference in schemas`: the folded expression is the untyped `$1`). Fix: /verif/fixes/C41-prepare-must-not-store-optimized-plan.diff.
//! Known finding `param-predicate-above-global-aggregate` (genuine C41 violation, root cause = C01 `filter-below-empty-grouping-set`):
//! `SELECT k0 FROM (SELECT max(..) AS k0 FROM t0 ..) AS r0 WHERE 'a' BETWEEN '' AND $2` with $2 = ' ' returns the aggregate's one row,
//! the literal form none: with a literal the column-free conjunct folds to FALSE at planning time, with a placeholder it survives,
//! PushDownFilter moves it below the global aggregate and the aggregate still emits its row. Signature (outcome-keyed): a route returns
//! other rows and some SELECT filters by a column-free conjunct holding a parameter above a global aggregate (FROM clause or CTE).
//! Known finding `nested-offset-only-limit` (C41 violation, root cause = the open C48 finding `offset-only-limit-sort-removed`): a derived table
//! `(SELECT DISTINCT .., $1 AS k2 .. ORDER BY .. OFFSET 1)` skips another row than the same text with the literal, because the SortExec
//! feeding a skip-only limit is dropped or kept depending on the plan shape. Signature (outcome-keyed): a route returns other rows and the
//! statement nests a query with OFFSET n > 0 and no LIMIT.
//! Observation (labels `numeric-type-drift` / `text-type-drift`, every route but PREPARE with declared types): an untyped placeholder makes the planner
//! pick DOUBLE for `abs($1) + id UNION ..` (0.0 instead of 0) and a string type for `nullif($1, $2) UNION ..` ("0" instead of 0); the values agree
//! as numbers / as text, so these are reported as labels, not as row differences.
//!
//! Non-trivial: ≥ 2 placeholders in different clause kinds, at least one route compared, result non-empty.
//!
//! Sensitivity probes (tools/mutrun, patches in crates/vf-hist/probes/, quick tier, seed 0):
//! * probe-x.diff — `SessionContext::execute_prepared` binds the EXECUTE arguments in reverse order: VIOLATION after 25 cases
//!   ("route prepare returns other rows than the literal query: expected (2, 0) got (1, 0)").
//! * probe-y.diff — `DataFrame::with_param_values` replaces typed NULL values by the untyped `ScalarValue::Null`: survived 800 cases —
//!   an equivalent mutant for this fragment (the analyzer coerces the untyped NULL to the type of its context; IN lists, CASE and
//!   comparisons give the same rows).
//! * probe-z.diff — `DataFrame::with_param_values` swaps the first two positional values: VIOLATION after 48 cases
//!   ("route dataframe returns other rows than the literal query: expected (0, NULL) got (0, 1)").
//! * fixes-all.diff: `./check C41 quick` exits 0 with the repair patch (PREPARE stores the unoptimized plan).
use crate::tape::Tape;
use datafusion::common::{ParamValues, ScalarValue};
use datafusion::prelude::{DataFrame, SessionContext};
use proptest::prelude::*;
use serde::{Deserialize, Serialize};
use std::collections::BTreeSet;
use vf_df::{ErrClass, Variant, batches_to_rows, classify_error, run_in_context};
use vf_kit::engine::*;
use vf_kit::refsql::{self, Expr, GenConfig, GroupBy, Query, Select, SetExpr, Table, TableRef, Ty, Value, WinFunc, to_sql};

pub struct C41;

#[derive(Clone, Debug, Serialize, Deserialize, PartialEq)]
pub struct Param {
    pub ty: Ty,
    /// bound value (`Null` = NULL of type `ty`)
    pub value: Value,
}

#[derive(Clone, Debug, Serialize, Deserialize)]
pub struct Case {
    pub tables: Vec<Table>,
    pub query: Query,
    /// one entry per literal site in walk order: the parameter replacing it
    pub sites: Vec<Option<usize>>,
    pub params: Vec<Param>,
    pub named: bool,
    /// `PREPARE p(BIGINT, …) AS` instead of leaving the types to inference
    pub declare_types: bool,
    /// value + batching variant: partitions of the MemTables
    pub mem_partitions: usize,
}

// ---------------------------------------------------------------------------------------------
// literal sites

#[derive(Clone, Debug, Default)]
struct Where {
    clause: &'static str,
    subquery: bool,
    case: bool,
    inlist: bool,
    like: bool,
}

impl Where {
    fn kind(&self) -> String {
        let mut k = self.clause.to_string();
        if self.inlist {
            k = "inlist".into();
        } else if self.like {
            k = "like-pattern".into();
        } else if self.case {
            k = format!("{k}+case");
        }
        if self.subquery {
            k = format!("subquery:{k}");
        }
        k
    }
}

enum Site<'a> {
    Lit(&'a mut Expr),
    /// LIMIT (false) or OFFSET (true)
    Count(&'a mut Option<u64>, bool),
}

type Visit<'f> = dyn FnMut(Site<'_>, &Where) + 'f;

fn walk_expr(e: &mut Expr, w: &Where, keys: &[Expr], f: &mut Visit<'_>) {
    if keys.iter().any(|k| *k == *e) {
        return; // a copy of a GROUP BY key: must stay structurally equal to the key
    }
    if matches!(e, Expr::Lit(_) | Expr::Null(_)) {
        f(Site::Lit(e), w);
        return;
    }
    match e {
        Expr::Lit(_) | Expr::Null(_) | Expr::Col { .. } => {}
        Expr::Bin(op, l, r) => {
            walk_expr(l, w, keys, f);
            // a divisor (and its NULLIF(.., 0) guard) stays literal: binding another value there would make the query fallible
            if !matches!(op, refsql::BinOp::Div | refsql::BinOp::Mod) {
                walk_expr(r, w, keys, f);
            }
        }
        Expr::Not(x) | Expr::Neg(x) | Expr::Cast(x, _) => walk_expr(x, w, keys, f),
        Expr::Grouping(_) => {}
        Expr::IsNull { e, .. } | Expr::BoolTest { e, .. } => walk_expr(e, w, keys, f),
        Expr::IsDistinctFrom { l, r, .. } => {
            walk_expr(l, w, keys, f);
            walk_expr(r, w, keys, f);
        }
        Expr::Between { e, lo, hi, .. } => {
            walk_expr(e, w, keys, f);
            walk_expr(lo, w, keys, f);
            walk_expr(hi, w, keys, f);
        }
        Expr::InList { e, list, .. } => {
            walk_expr(e, w, keys, f);
            let wi = Where { inlist: true, ..w.clone() };
            for x in list {
                walk_expr(x, &wi, keys, f);
            }
        }
        Expr::Like { e, pat, .. } => {
            walk_expr(e, w, keys, f);
            walk_expr(pat, &Where { like: true, ..w.clone() }, keys, f);
        }
        Expr::Case { operand, whens, else_ } => {
            let wc = Where { case: true, ..w.clone() };
            if let Some(o) = operand {
                walk_expr(o, &wc, keys, f);
            }
            for (a, b) in whens {
                walk_expr(a, &wc, keys, f);
                walk_expr(b, &wc, keys, f);
            }
            if let Some(x) = else_ {
                walk_expr(x, &wc, keys, f);
            }
        }
        Expr::Coalesce(es) | Expr::Func(_, es) => {
            for x in es {
                walk_expr(x, w, keys, f);
            }
        }
        Expr::NullIf(a, b) => {
            walk_expr(a, w, keys, f);
            walk_expr(b, w, keys, f);
        }
        Expr::Agg(a) => {
            if let Some(x) = &mut a.arg {
                walk_expr(x, w, &[], f);
            }
            if let Some(x) = &mut a.filter {
                walk_expr(x, w, &[], f);
            }
        }
        Expr::Win(wc) => {
            let ww = Where { clause: "window", ..w.clone() };
            // the first argument is a value expression; offsets / n / defaults stay literal
            let value_arg = !matches!(wc.f, WinFunc::Ntile | WinFunc::RowNumber | WinFunc::Rank | WinFunc::DenseRank);
            if value_arg {
                if let Some(x) = wc.args.first_mut() {
                    walk_expr(x, &ww, keys, f);
                }
            }
            for x in &mut wc.partition_by {
                walk_expr(x, &ww, keys, f);
            }
            for o in &mut wc.order_by {
                walk_expr(&mut o.expr, &ww, keys, f);
            }
        }
        Expr::Exists { q, .. } | Expr::Scalar(q) => walk_query(q, &Where { subquery: true, ..w.clone() }, f),
        Expr::InSubquery { e, q, .. } | Expr::Quantified { e, q, .. } => {
            walk_expr(e, w, keys, f);
            walk_query(q, &Where { subquery: true, ..w.clone() }, f);
        }
    }
}

fn walk_tref(t: &mut TableRef, w: &Where, f: &mut Visit<'_>) {
    match t {
        TableRef::Join { left, right, on, .. } => {
            walk_tref(left, w, f);
            walk_tref(right, w, f);
            if let Some(o) = on {
                walk_expr(o, &Where { clause: "on", ..w.clone() }, &[], f);
            }
        }
        TableRef::Derived { q, .. } => walk_query(q, &Where { subquery: true, ..w.clone() }, f),
        TableRef::Table { .. } | TableRef::Series { .. } | TableRef::Values { .. } => {}
    }
}

fn walk_select(s: &mut Select, w: &Where, f: &mut Visit<'_>) {
    let keys: Vec<Expr> = match &s.group_by {
        GroupBy::None => vec![],
        GroupBy::Plain(es) | GroupBy::Rollup(es) | GroupBy::Cube(es) => es.clone(),
        GroupBy::Sets(ss) => ss.iter().flatten().cloned().collect(),
    };
    for it in &mut s.items {
        walk_expr(&mut it.expr, &Where { clause: "select", ..w.clone() }, &keys, f);
    }
    if let Some(t) = &mut s.from {
        walk_tref(t, w, f);
    }
    if let Some(x) = &mut s.where_ {
        walk_expr(x, &Where { clause: "where", ..w.clone() }, &[], f);
    }
    if let Some(x) = &mut s.having {
        walk_expr(x, &Where { clause: "having", ..w.clone() }, &keys, f);
    }
    if let Some(x) = &mut s.qualify {
        walk_expr(x, &Where { clause: "qualify", ..w.clone() }, &keys, f);
    }
}

fn walk_set(e: &mut SetExpr, w: &Where, f: &mut Visit<'_>) {
    match e {
        SetExpr::Select(s) => walk_select(s, w, f),
        SetExpr::SetOp { left, right, .. } => {
            walk_set(left, w, f);
            walk_set(right, w, f);
        }
        SetExpr::Query(q) => walk_query(q, &Where { subquery: true, ..w.clone() }, f),
    }
}

fn walk_query(q: &mut Query, w: &Where, f: &mut Visit<'_>) {
    for c in &mut q.with {
        walk_query(&mut c.q, &Where { subquery: true, ..w.clone() }, f);
    }
    walk_set(&mut q.body, w, f);
    if q.limit.is_some() {
        f(Site::Count(&mut q.limit, false), &Where { clause: "limit", ..w.clone() });
    }
    if q.offset.is_some() {
        f(Site::Count(&mut q.offset, true), &Where { clause: "offset", ..w.clone() });
    }
}

fn site_ty(e: &Expr) -> Option<Ty> {
    match e {
        Expr::Lit(v) => v.ty(),
        Expr::Null(t) => Some(*t),
        _ => None,
    }
}

/// (kind label, type, original value) of every site, in walk order
fn sites_of(q: &Query) -> Vec<(String, Ty, Value)> {
    let mut q = q.clone();
    let mut out = vec![];
    walk_query(&mut q, &Where::default(), &mut |s, w| match s {
        Site::Lit(e) => {
            let ty = site_ty(e).unwrap_or(Ty::Int);
            let v = match e {
                Expr::Lit(v) => v.clone(),
                _ => Value::Null,
            };
            out.push((w.kind(), ty, v));
        }
        Site::Count(c, _) => out.push((w.kind(), Ty::Int, Value::Int(c.unwrap_or(0) as i64))),
    });
    out
}

const COUNT_SENTINEL: u64 = 7_000_000_000_000;

fn sentinel(i: usize) -> String {
    format!("\u{1}P{i}\u{1}")
}

/// (query with the bound values written as literals, query with sentinels at the parameter sites)
fn substitute(case: &Case) -> Result<(Query, Query), String> {
    let mut lit = case.query.clone();
    let mut par = case.query.clone();
    let mut bad: Option<String> = None;
    for (target, as_param) in [(&mut lit, false), (&mut par, true)] {
        let mut i = 0usize;
        walk_query(target, &Where::default(), &mut |s, _| {
            let choice = case.sites.get(i).copied().flatten();
            i += 1;
            let Some(pi) = choice else { return };
            let Some(p) = case.params.get(pi) else {
                bad = Some(format!("site refers to parameter {pi} of {}", case.params.len()));
                return;
            };
            match s {
                Site::Lit(e) => {
                    if site_ty(e) != Some(p.ty) {
                        bad = Some("parameter type differs from its site".into());
                        return;
                    }
                    *e = if as_param {
                        Expr::Lit(Value::Str(sentinel(pi)))
                    } else if p.value.is_null() {
                        Expr::Null(p.ty)
                    } else {
                        Expr::Lit(p.value.clone())
                    };
                }
                Site::Count(c, _) => match &p.value {
                    Value::Int(v) if *v >= 0 && p.ty == Ty::Int => *c = Some(if as_param { COUNT_SENTINEL + pi as u64 } else { *v as u64 }),
                    _ => bad = Some("LIMIT/OFFSET parameter must be a non-negative integer".into()),
                },
            }
        });
        if i != case.sites.len() {
            bad = Some(format!("{} sites in the query, {} choices in the case", i, case.sites.len()));
        }
    }
    match bad {
        Some(b) => Err(b),
        None => Ok((lit, par)),
    }
}

fn placeholder(case: &Case, i: usize) -> String {
    if case.named { format!("$p{}", i + 1) } else { format!("${}", i + 1) }
}

fn param_sql(case: &Case, par: &Query) -> String {
    let mut s = to_sql(par);
    // longest index first so that `P1` never matches inside `P12` (sentinels are delimited, counts are fixed-width — still)
    for i in (0..case.params.len()).rev() {
        s = s.replace(&format!("'{}'", sentinel(i)), &placeholder(case, i));
        let n = (COUNT_SENTINEL + i as u64).to_string();
        s = s.replace(&format!(" LIMIT {n}"), &format!(" LIMIT {}", placeholder(case, i)));
        s = s.replace(&format!(" OFFSET {n}"), &format!(" OFFSET {}", placeholder(case, i)));
    }
    s
}

fn scalar(p: &Param) -> ScalarValue {
    match (&p.value, p.ty) {
        (Value::Int(v), _) => ScalarValue::Int64(Some(*v)),
        (Value::Float(v), _) => ScalarValue::Float64(Some(*v)),
        (Value::Str(v), _) => ScalarValue::Utf8(Some(v.clone())),
        (Value::Bool(v), _) => ScalarValue::Boolean(Some(*v)),
        (Value::Null, Ty::Int) => ScalarValue::Int64(None),
        (Value::Null, Ty::Float) => ScalarValue::Float64(None),
        (Value::Null, Ty::Str) => ScalarValue::Utf8(None),
        (Value::Null, Ty::Bool) => ScalarValue::Boolean(None),
    }
}

fn param_values(case: &Case) -> ParamValues {
    if case.named {
        ParamValues::from(case.params.iter().enumerate().map(|(i, p)| (format!("p{}", i + 1), scalar(p))).collect::<Vec<(String, ScalarValue)>>())
    } else {
        ParamValues::from(case.params.iter().map(scalar).collect::<Vec<ScalarValue>>())
    }
}

fn execute_args(case: &Case) -> String {
    case.params
        .iter()
        .map(|p| if p.value.is_null() { format!("CAST(NULL AS {})", p.ty.sql()) } else { p.value.to_sql_literal() })
        .collect::<Vec<_>>()
        .join(", ")
}

// ---------------------------------------------------------------------------------------------
// generator

fn gen_config(tier: Tier) -> GenConfig {
    let mut cfg = GenConfig::standard(2, tier.pick(8, 14), 2);
    cfg.topk_ties = false;
    cfg.unguarded_div_pct = 0;
    cfg.recursive_ctes = false;
    cfg.select_list_subquery_pct = 0;
    cfg.tape_len = 300;
    cfg
}

fn fresh_value(t: &mut Tape, ty: Ty) -> Value {
    crate::exprgen::lit_value(t, ty, crate::exprgen::EOpts { floats: true, wide_ints: false })
}

fn assign(query: &Query, tape: Vec<u8>) -> (Vec<Option<usize>>, Vec<Param>) {
    let mut t = Tape::new(tape);
    let sites = sites_of(query);
    let mut params: Vec<Param> = vec![];
    let mut count_param: Vec<bool> = vec![];
    let mut out = vec![];
    for (kind, ty, orig) in sites {
        let is_count = kind.ends_with("limit") || kind.ends_with("offset");
        if !t.chance(45) {
            out.push(None);
            continue;
        }
        // re-use an earlier parameter of the same type (never mixing row counts with ordinary values: a count must not be NULL / negative)
        let reusable: Vec<usize> = (0..params.len()).filter(|&i| params[i].ty == ty && count_param[i] == is_count).collect();
        if !reusable.is_empty() && t.chance(25) {
            out.push(Some(reusable[t.below(reusable.len())]));
            continue;
        }
        let value = if is_count {
            if t.chance(50) { orig } else { Value::Int(t.range(0, 6)) }
        } else {
            match t.weighted(&[45, 35, 20]) {
                0 if !orig.is_null() => orig,
                2 => Value::Null,
                _ => fresh_value(&mut t, ty),
            }
        };
        params.push(Param { ty, value });
        count_param.push(is_count);
        out.push(Some(params.len() - 1));
    }
    if params.is_empty() && !out.is_empty() {
        // at least one parameter: the site the tape points at, bound to its own value (a row count stays a row count)
        let sites = sites_of(query);
        let i = t.below(out.len());
        let (_, ty, orig) = sites[i].clone();
        params.push(Param { ty, value: orig });
        out[i] = Some(0);
    }
    (out, params)
}

// ---------------------------------------------------------------------------------------------
// engine

type Rows = Vec<Vec<Value>>;

/// an engine error and whether it was raised while planning (before any row was computed)
#[derive(Clone, Debug)]
struct EngineErr {
    planning: bool,
    class: ErrClass,
    message: String,
}

impl EngineErr {
    /// "this form is not accepted": a planning-stage error other than an internal one, or a clean rejection class at any stage
    fn is_rejection(&self) -> bool {
        self.class.is_clean_rejection() || (self.planning && self.class != ErrClass::Internal)
    }
}

fn plan_err(e: datafusion::error::DataFusionError) -> EngineErr {
    EngineErr { planning: true, class: classify_error(&e), message: truncate(&e.strip_backtrace(), 500) }
}

fn exec_err(e: datafusion::error::DataFusionError) -> EngineErr {
    EngineErr { planning: false, class: classify_error(&e), message: truncate(&e.strip_backtrace(), 500) }
}

async fn collect(df: DataFrame) -> Result<Rows, EngineErr> {
    // the two steps of `DataFrame::collect`, separated so that a late planning rejection ("type cannot be inferred",
    // raised by the analyzer / physical planner) is not mistaken for a run-time failure
    let task_ctx = std::sync::Arc::new(df.task_ctx());
    let plan = df.create_physical_plan().await.map_err(plan_err)?;
    let batches = datafusion::physical_plan::collect(plan, task_ctx).await.map_err(exec_err)?;
    Ok(batches_to_rows(&batches))
}

async fn run_literal(ctx: &SessionContext, sql: &str) -> Result<Rows, EngineErr> {
    collect(ctx.sql(sql).await.map_err(plan_err)?).await
}

fn prepare_sql(case: &Case, psql: &str) -> String {
    let decl = if case.declare_types && !case.params.is_empty() { format!("({})", case.params.iter().map(|p| p.ty.sql()).collect::<Vec<_>>().join(", ")) } else { String::new() };
    format!("PREPARE vfp{decl} AS {psql}")
}

async fn route_prepare(ctx: &SessionContext, case: &Case, psql: &str) -> Result<Rows, EngineErr> {
    // PREPARE plans and optimizes the statement: everything it raises is a planning-stage answer
    let prepared = ctx.sql(&prepare_sql(case, psql)).await.map_err(plan_err)?;
    prepared.collect().await.map_err(plan_err)?;
    let call = if case.params.is_empty() { "EXECUTE vfp".to_string() } else { format!("EXECUTE vfp({})", execute_args(case)) };
    let r = match ctx.sql(&call).await {
        Ok(df) => collect(df).await,
        Err(e) => Err(plan_err(e)),
    };
    let _ = ctx.sql("DEALLOCATE vfp").await;
    r
}

async fn route_dataframe(ctx: &SessionContext, case: &Case, psql: &str) -> Result<Rows, EngineErr> {
    let df = ctx.sql(psql).await.map_err(plan_err)?;
    let df = df.with_param_values(param_values(case)).map_err(plan_err)?;
    collect(df).await
}

async fn route_plan(ctx: &SessionContext, case: &Case, psql: &str) -> Result<Rows, EngineErr> {
    let plan = ctx.state().create_logical_plan(psql).await.map_err(plan_err)?;
    let plan = plan.with_param_values(param_values(case)).map_err(plan_err)?;
    collect(ctx.execute_logical_plan(plan).await.map_err(plan_err)?).await
}

/// PREPARE stores the *optimized* plan and EXECUTE optimizes it again: common-subexpression aliases (`__common_expr_N`) created
/// by the first pass collide with those of the second pass (each pass numbers from 1)
async fn prepared_plan_has_cse_aliases(ctx: &SessionContext, case: &Case, psql: &str) -> bool {
    let state = ctx.state();
    let Ok(plan) = state.create_logical_plan(&prepare_sql(case, psql)).await else { return false };
    let Ok(opt) = state.optimize(&plan) else { return false };
    opt.display_indent().to_string().contains("__common_expr_")
}

struct Observed {
    literal: Result<Rows, EngineErr>,
    routes: Vec<(&'static str, Result<Rows, EngineErr>)>,
    cse_placeholder: bool,
}

impl Property for C41 {
    type Case = Case;
    fn id(&self) -> &'static str {
        "C41"
    }
    fn sub(&self) -> &'static str {
        "c41"
    }
    fn strategy(&self, tier: Tier) -> BoxedStrategy<Case> {
        let cfg = gen_config(tier);
        (refsql::case_strategy(&cfg), prop::collection::vec(any::<u8>(), 0..160), any::<bool>(), any::<bool>(), 1usize..=3)
            .prop_map(|(c, tape, named, declare_types, mem_partitions)| {
                let (sites, params) = assign(&c.query, tape);
                Case { tables: c.tables, query: c.query, sites, params, named, declare_types, mem_partitions }
            })
            .boxed()
    }
    fn budget(&self, tier: Tier) -> Budget {
        Budget::new(tier.pick(800, 50_000), tier.pick(8, 16)).min_nontrivial(tier.pick(60, 3000)).case_timeout(180).discard_cap(0.6)
    }
    fn rule(&self) -> String {
        "deterministic C01-grammar query over 2 tables; ~45% of its literal sites (select list, WHERE, HAVING, ON, IN lists, LIKE patterns, CASE, subqueries, windows, LIMIT/OFFSET at any level) replaced by positional or named \
         placeholders (a parameter possibly used at several sites) bound to the original / another / a NULL value of the site's type; three routes (PREPARE+EXECUTE, DataFrame::with_param_values, LogicalPlan::with_param_values) \
         compared with the literal query text; non-trivial = >= 2 placeholders in different clause kinds, a route compared, non-empty result; distinct by case JSON"
            .into()
    }
    fn assumptions(&self) -> Vec<String> {
        vec![
            "the query text with the values written as typed literals (CAST(NULL AS ty) for NULLs) executed by the same engine is the oracle; its own correctness is C01's subject".into(),
            "parameter values are supplied with exactly the type of the literal they replace (Int64 / Float64 / Utf8 / Boolean)".into(),
            "when the routes and the literal form differ and the reference evaluator sides with the routes, the case is attributed to C01 and discarded".into(),
        ]
    }
    /// outcome-keyed: the signature of the observed failure (None when the case does not fail)
    fn known_signature(&self, case: &Case) -> Option<String> {
        // the engine calls this outside its panic guard: a panic of the code under test must not escape from here. The case is then
        // evaluated again by `run` (inside the guard), where the engine classifies the panic by its location.
        std::panic::catch_unwind(std::panic::AssertUnwindSafe(|| evaluate(case).1)).unwrap_or(None)
    }
    fn run(&self, case: &Case) -> CaseResult {
        evaluate(case).0
    }
}

thread_local! {
    static LAST: std::cell::RefCell<Option<(u64, CaseResult, Option<String>)>> = const { std::cell::RefCell::new(None) };
}

fn evaluate(case: &Case) -> (CaseResult, Option<String>) {
    let key = fnv1a(&serde_json::to_vec(case).unwrap_or_default());
    if let Some(hit) = LAST.with(|c| c.borrow().as_ref().filter(|(k, _, _)| *k == key).map(|(_, r, s)| (r.clone(), s.clone()))) {
        return hit;
    }
    let mut sig = None;
    let r = evaluate_uncached(case, &mut sig);
    LAST.with(|c| *c.borrow_mut() = Some((key, r.clone(), sig.clone())));
    (r, sig)
}

fn evaluate_uncached(case: &Case, sig: &mut Option<String>) -> CaseResult {
    {
        let (qlit, qpar) = match substitute(case) {
            Ok(x) => x,
            Err(m) => return CaseResult::discard(format!("malformed case: {m}")),
        };
        if case.params.is_empty() {
            return CaseResult::discard("no literal site was parameterised");
        }
        let db = refsql::Db { tables: case.tables.clone() };
        if !refsql::deterministic_on(&qlit, &db) {
            return CaseResult::discard("literal query not deterministic on the data (or the reference cannot evaluate it)");
        }
        let lsql = to_sql(&qlit);
        let psql = param_sql(case, &qpar);
        if psql.contains('\u{1}') || psql.contains(&COUNT_SENTINEL.to_string()[..10]) {
            return CaseResult::inconclusive("a sentinel survived in the parameterised text (harness)");
        }
        let kinds: Vec<String> = {
            let all = sites_of(&case.query);
            let mut ks = BTreeSet::new();
            for (i, (k, _, _)) in all.iter().enumerate() {
                if case.sites.get(i).copied().flatten().is_some() {
                    ks.insert(k.clone());
                }
            }
            ks.into_iter().collect()
        };
        let v = Variant { mem_partitions: case.mem_partitions.clamp(1, 4), batch_rows: Some(3), target_partitions: 2, timeout_ms: 60_000, ..Variant::default() };
        let (case2, lsql2, psql2) = (case.clone(), lsql.clone(), psql.clone());
        let obs = run_in_context(&case.tables, &v, |b| b, |ctx| async move {
            let literal = run_literal(&ctx, &lsql2).await;
            let mut routes = vec![];
            if literal.is_ok() {
                if !case2.named {
                    routes.push(("prepare", route_prepare(&ctx, &case2, &psql2).await));
                }
                routes.push(("dataframe", route_dataframe(&ctx, &case2, &psql2).await));
                routes.push(("plan", route_plan(&ctx, &case2, &psql2).await));
            }
            let cse_placeholder = if case2.named { false } else { prepared_plan_has_cse_aliases(&ctx, &case2, &psql2).await };
            Observed { literal, routes, cse_placeholder }
        });
        let obs = match obs {
            Err(e) => return CaseResult::inconclusive(format!("setup failed: {}", e.message)),
            Ok(None) => return CaseResult::inconclusive("timeout"),
            Ok(Some(o)) => o,
        };
        let mut labels: Vec<String> = kinds.iter().map(|k| format!("site:{k}")).collect();
        labels.push(if case.named { "named".into() } else { "positional".into() });
        if !case.named && case.declare_types {
            labels.push("prepare-declared-types".into());
        }
        if case.params.iter().any(|p| p.value.is_null()) {
            labels.push("null-value".into());
        }
        if case.sites.iter().flatten().count() > case.params.len() {
            labels.push("parameter-reused".into());
        }
        let expected = match &obs.literal {
            Ok(r) => r,
            Err(e) => return CaseResult::discard(format!("literal query fails ({:?}): {}", e.class, truncate(&e.message, 40))).labels(labels),
        };
        let repro = || format!("\n  literal:       {lsql}\n  parameterised: {psql}\n  values: {:?}\n  tables:\n{}", case.params, vf_df::repro_script(&case.tables, "SELECT 1"));
        let mut compared = 0;
        let mut rejections: Vec<String> = vec![];
        for (route, r) in &obs.routes {
            match r {
                // (the nullability-mismatch internal error is the foreign known finding C01 `nullability-mismatch:*`: the route is skipped)
                Err(e) if e.is_rejection() || (e.class == ErrClass::Internal && e.message.contains("field nullability")) => {
                    labels.push(format!("rejected:{route}"));
                    rejections.push(format!("{route}: {}", truncate(&e.message, 80)));
                }
                Err(e) => {
                    // (same root cause, same repair: optimizing at PREPARE time with untyped placeholders in place — the simplifier reduces
                    // `coalesce(id + NULL, $1)` to `$1`, of type Null, and the schema invariant check of the optimizer fails)
                    if *route == "prepare" && (obs.cse_placeholder || e.message.contains("Failed due to a difference in schemas")) {
                        *sig = Some("prepare-optimized-twice".into());
                    }
                    return CaseResult::violation(format!("route {route} fails with {:?} ({}): {} although the literal query succeeds ({} rows){}", e.class, if e.planning { "planning" } else { "execution" }, e.message, expected.len(), repro())).labels(labels);
                }
                Ok(rows) => {
                    compared += 1;
                    // an integer-valued DOUBLE where the literal form has a BIGINT is reported as a label, not as a row difference
                    // (a placeholder of unknown type can make the planner pick DOUBLE for `abs($1)`; the values agree)
                    let mut diff = refsql::multiset_diff(expected, rows);
                    // (only where the placeholder types are left to inference — every route except PREPARE with declared types: the statement is
                    // planned, UNION branches coerced, before any value is known; PostgreSQL resolves such unknowns to text as well)
                    let inferred = !(*route == "prepare" && case.declare_types);
                    if diff.is_some() && inferred && refsql::multiset_diff(&numeric_normal(expected), &numeric_normal(rows)).is_none() {
                        labels.push(format!("numeric-type-drift:{route}"));
                        diff = None;
                    }
                    if diff.is_some() && inferred && refsql::multiset_diff(&textual_normal(expected), &textual_normal(rows)).is_none() {
                        labels.push(format!("text-type-drift:{route}"));
                        diff = None;
                    }
                    if diff.is_none() && !qlit.order_by.is_empty() {
                        let cols: Vec<String> = output_names(&qlit);
                        if cols.len() == rows.first().map(|r| r.len()).unwrap_or(cols.len()) {
                            diff = refsql::sortedness_violation(&cols, rows, &qlit.order_by);
                        }
                    }
                    if let Some(d) = diff {
                        // arbitration: is the literal form the wrong one?
                        if let Ok(rr) = refsql::eval(&qlit, &db) {
                            if refsql::check_result(&rr, rows).is_ok() && refsql::check_result(&rr, expected).is_err() {
                                return CaseResult::discard("literal form disagrees with the reference while the route agrees (C01's subject)").labels(labels);
                            }
                        }
                        if param_predicate_above_global_aggregate(&qpar) {
                            *sig = Some("param-predicate-above-global-aggregate".into());
                        } else if nested_offset_only_limit(&qlit) {
                            *sig = Some("nested-offset-only-limit".into());
                        } else if *route == "prepare" && obs.cse_placeholder {
                            *sig = Some("prepare-optimized-twice".into());
                        }
                        return CaseResult::violation(format!("route {route} returns other rows than the literal query: {d}{}", repro())).labels(labels);
                    }
                    labels.push(format!("compared:{route}"));
                }
            }
        }
        if compared == 0 {
            return CaseResult::discard(format!("all routes rejected [{}]: {}", kinds.join(","), rejections.first().cloned().unwrap_or_default())).labels(labels);
        }
        let clause_kinds: BTreeSet<&str> = kinds.iter().map(|k| k.as_str()).collect();
        let nt = case.sites.iter().flatten().count() >= 2 && clause_kinds.len() >= 2 && !expected.is_empty();
        if expected.is_empty() {
            labels.push("empty-result".into());
        }
        labels.sort();
        labels.dedup();
        CaseResult::pass().nontrivial(nt).labels(labels)
    }
}

// ----- shape of the known finding `param-predicate-above-global-aggregate`

fn is_global_aggregate(sel: &Select) -> bool {
    if !matches!(sel.group_by, GroupBy::None) {
        return false;
    }
    let mut agg = sel.having.is_some();
    for it in &sel.items {
        crate::exprgen::walk(&it.expr, &mut |x| agg |= matches!(x, Expr::Agg(_)));
    }
    agg
}

fn set_has_global_aggregate(e: &SetExpr) -> bool {
    match e {
        SetExpr::Select(s) => is_global_aggregate(s) || s.from.as_ref().is_some_and(tref_has_global_aggregate),
        SetExpr::SetOp { left, right, .. } => set_has_global_aggregate(left) || set_has_global_aggregate(right),
        SetExpr::Query(q) => query_has_global_aggregate(q),
    }
}

fn query_has_global_aggregate(q: &Query) -> bool {
    q.with.iter().any(|c| query_has_global_aggregate(&c.q)) || set_has_global_aggregate(&q.body)
}

fn tref_has_global_aggregate(t: &TableRef) -> bool {
    match t {
        TableRef::Join { left, right, .. } => tref_has_global_aggregate(left) || tref_has_global_aggregate(right),
        TableRef::Derived { q, .. } => query_has_global_aggregate(q),
        _ => false,
    }
}

/// a conjunct that holds a parameter (sentinel literal of the parameterised AST) and no column reference: with a literal it
/// folds to a constant at planning time, with a placeholder it survives as a column-free filter
fn column_free_param_conjunct(e: &Expr) -> bool {
    if let Expr::Bin(refsql::BinOp::And, l, r) = e {
        return column_free_param_conjunct(l) || column_free_param_conjunct(r);
    }
    let (mut cols, mut param) = (false, false);
    crate::exprgen::walk(e, &mut |x| match x {
        Expr::Col { .. } | Expr::Exists { .. } | Expr::InSubquery { .. } | Expr::Scalar(_) | Expr::Quantified { .. } => cols = true,
        Expr::Lit(Value::Str(v)) if v.starts_with('\u{1}') => param = true,
        _ => {}
    });
    param && !cols
}

fn on_has_param_conjunct(t: &TableRef) -> bool {
    match t {
        TableRef::Join { left, right, on, .. } => on.as_ref().is_some_and(column_free_param_conjunct) || on_has_param_conjunct(left) || on_has_param_conjunct(right),
        _ => false,
    }
}

/// some SELECT filters (WHERE / HAVING / QUALIFY / ON) by a column-free conjunct holding a parameter while a global aggregate (no
/// GROUP BY: exactly one row) sits below it — in its FROM clause (derived tables, joins) or in a CTE of the statement.
/// Root cause = C01 `filter-below-empty-grouping-set`: PushDownFilter moves the column-free conjunct below the aggregate, which still
/// emits its one row; the literal form never shows it because the conjunct is folded away before that rule runs.
fn param_predicate_above_global_aggregate(par: &Query) -> bool {
    let mut found = false;
    refsql::visit_queries(par, &mut |q| {
        let ctes = q.with.iter().any(|c| query_has_global_aggregate(&c.q)) || par.with.iter().any(|c| query_has_global_aggregate(&c.q));
        fn selects<'a>(e: &'a SetExpr, out: &mut Vec<&'a Select>) {
            match e {
                SetExpr::Select(s) => out.push(s),
                SetExpr::SetOp { left, right, .. } => {
                    selects(left, out);
                    selects(right, out);
                }
                SetExpr::Query(_) => {}
            }
        }
        let mut sels = vec![];
        selects(&q.body, &mut sels);
        for s in sels {
            let below = ctes || s.from.as_ref().is_some_and(tref_has_global_aggregate);
            let filtered = s.where_.as_ref().is_some_and(column_free_param_conjunct)
                || s.having.as_ref().is_some_and(column_free_param_conjunct)
                || s.qualify.as_ref().is_some_and(column_free_param_conjunct)
                || s.from.as_ref().is_some_and(on_has_param_conjunct);
            if below && filtered {
                found = true;
            }
        }
    });
    found
}

/// a nested query (derived table, CTE, subquery) with OFFSET n > 0 and no LIMIT: the engine may drop the sort feeding such a skip-only limit
/// (open finding C48 `offset-only-limit-sort-removed`), and whether it does depends on the plan shape — which a placeholder changes
fn nested_offset_only_limit(q: &Query) -> bool {
    let mut found = false;
    refsql::visit_queries(q, &mut |x| {
        if !std::ptr::eq(x, q) && x.limit.is_none() && x.offset.is_some_and(|o| o > 0) {
            found = true;
        }
    });
    found
}

fn numeric_normal(rows: &[Vec<Value>]) -> Vec<Vec<Value>> {
    rows.iter().map(|r| r.iter().map(|v| if let Value::Int(i) = v { Value::Float(*i as f64) } else { v.clone() }).collect()).collect()
}

/// every value as the text the engine would print: `nullif($1, $2)` over untyped placeholders is planned as a string column
fn textual_normal(rows: &[Vec<Value>]) -> Vec<Vec<Value>> {
    rows.iter()
        .map(|r| {
            r.iter()
                .map(|v| match v {
                    Value::Int(i) => Value::Str(i.to_string()),
                    Value::Float(f) if f.fract() == 0.0 && f.abs() < 9e15 => Value::Str((*f as i64).to_string()),
                    Value::Float(f) => Value::Str(format!("{f}")),
                    Value::Bool(b) => Value::Str(b.to_string()),
                    other => other.clone(),
                })
                .collect()
        })
        .collect()
}

/// output column names of a query (aliases of the first select of the body)
fn output_names(q: &Query) -> Vec<String> {
    fn first(e: &SetExpr) -> Vec<String> {
        match e {
            SetExpr::Select(s) => s.items.iter().map(|i| i.alias.clone()).collect(),
            SetExpr::SetOp { left, .. } => first(left),
            SetExpr::Query(q) => first(&q.body),
        }
    }
    first(&q.body)
}
