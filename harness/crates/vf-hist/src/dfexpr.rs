//! `refsql::Expr` → DataFusion `Expr`, built with the expression API (no SQL text involved): the DataFrame-side
//! interpreter of C48. Mirrors what `refsql::print` writes as SQL text (e.g. `character_length` and ranking window
//! functions are cast to BIGINT there, so they are cast to Int64 here).
use datafusion::arrow::datatypes::DataType;
use datafusion::common::{Column, ScalarValue};
use datafusion::logical_expr::expr::{AggregateFunction, Between, Case, Like, WindowFunction};
use datafusion::logical_expr::{Expr as DfExpr, ExprFunctionExt, Operator, SortExpr, WindowFunctionDefinition, binary_expr, cast, in_list, lit};
use vf_kit::refsql::{AggCall, AggFunc, BinOp, BoolTest, Expr, FrameBound, FrameUnits, Func, OrderItem, Ty, Value, WinCall, WinFunc};

pub fn data_type(ty: Ty) -> DataType {
    match ty {
        Ty::Int => DataType::Int64,
        Ty::Float => DataType::Float64,
        // what the SQL planner makes of VARCHAR
        Ty::Str => DataType::Utf8View,
        Ty::Bool => DataType::Boolean,
    }
}

pub fn column(rel: Option<&str>, name: &str) -> DfExpr {
    DfExpr::Column(match rel {
        Some(r) => Column::new(Some(r.to_string()), name),
        None => Column::new_unqualified(name),
    })
}

fn value(v: &Value) -> DfExpr {
    match v {
        Value::Null => lit(ScalarValue::Null),
        Value::Bool(b) => lit(*b),
        Value::Int(i) => lit(*i),
        Value::Float(f) => lit(*f),
        Value::Str(s) => lit(s.as_str()),
    }
}

fn typed_null(ty: Ty) -> DfExpr {
    // SQL text: CAST(NULL AS ty)
    cast(lit(ScalarValue::Null), data_type(ty))
}

pub fn sort_expr(o: &OrderItem) -> Result<SortExpr, String> {
    Ok(SortExpr::new(to_df(&o.expr)?, !o.desc, o.nulls_first_resolved()))
}

pub fn to_df(e: &Expr) -> Result<DfExpr, String> {
    let b = |x: &Expr| -> Result<Box<DfExpr>, String> { Ok(Box::new(to_df(x)?)) };
    let many = |xs: &[Expr]| -> Result<Vec<DfExpr>, String> { xs.iter().map(to_df).collect() };
    Ok(match e {
        Expr::Col { rel, name } => column(rel.as_deref(), name),
        Expr::Lit(v) => value(v),
        Expr::Null(ty) => typed_null(*ty),
        Expr::Bin(op, l, r) => {
            let o = match op {
                BinOp::Add => Operator::Plus,
                BinOp::Sub => Operator::Minus,
                BinOp::Mul => Operator::Multiply,
                BinOp::Div => Operator::Divide,
                BinOp::Mod => Operator::Modulo,
                BinOp::Eq => Operator::Eq,
                BinOp::Ne => Operator::NotEq,
                BinOp::Lt => Operator::Lt,
                BinOp::Le => Operator::LtEq,
                BinOp::Gt => Operator::Gt,
                BinOp::Ge => Operator::GtEq,
                BinOp::And => Operator::And,
                BinOp::Or => Operator::Or,
                BinOp::Concat => Operator::StringConcat,
            };
            binary_expr(to_df(l)?, o, to_df(r)?)
        }
        Expr::Not(x) => DfExpr::Not(b(x)?),
        Expr::Neg(x) => DfExpr::Negative(b(x)?),
        Expr::IsNull { e, negated } => {
            if *negated {
                DfExpr::IsNotNull(b(e)?)
            } else {
                DfExpr::IsNull(b(e)?)
            }
        }
        Expr::IsDistinctFrom { l, r, negated } => binary_expr(to_df(l)?, if *negated { Operator::IsNotDistinctFrom } else { Operator::IsDistinctFrom }, to_df(r)?),
        Expr::BoolTest { e, test } => {
            let x = b(e)?;
            match test {
                BoolTest::IsTrue => DfExpr::IsTrue(x),
                BoolTest::IsNotTrue => DfExpr::IsNotTrue(x),
                BoolTest::IsFalse => DfExpr::IsFalse(x),
                BoolTest::IsNotFalse => DfExpr::IsNotFalse(x),
                BoolTest::IsUnknown => DfExpr::IsUnknown(x),
                BoolTest::IsNotUnknown => DfExpr::IsNotUnknown(x),
            }
        }
        Expr::Between { e, lo, hi, negated } => DfExpr::Between(Between::new(b(e)?, *negated, b(lo)?, b(hi)?)),
        Expr::InList { e, list, negated } => in_list(to_df(e)?, many(list)?, *negated),
        Expr::Like { e, pat, negated, ilike } => DfExpr::Like(Like::new(*negated, b(e)?, b(pat)?, None, *ilike)),
        Expr::Case { operand, whens, else_ } => {
            let mut wt = vec![];
            for (w, t) in whens {
                wt.push((b(w)?, b(t)?));
            }
            let operand = match operand {
                Some(o) => Some(b(o)?),
                None => None,
            };
            let else_ = match else_ {
                Some(x) => Some(b(x)?),
                None => None,
            };
            DfExpr::Case(Case::new(operand, wt, else_))
        }
        Expr::Coalesce(es) => datafusion::functions::core::coalesce().call(many(es)?),
        Expr::NullIf(x, y) => datafusion::functions::core::nullif().call(vec![to_df(x)?, to_df(y)?]),
        Expr::Cast(x, ty) => cast(to_df(x)?, data_type(*ty)),
        Expr::Func(f, args) => {
            let a = many(args)?;
            match f {
                Func::Abs => datafusion::functions::math::abs().call(a),
                Func::Upper => datafusion::functions::string::upper().call(a),
                Func::Lower => datafusion::functions::string::lower().call(a),
                Func::Length => cast(datafusion::functions::unicode::character_length().call(a), DataType::Int64),
                Func::ConcatFn => datafusion::functions::string::concat().call(a),
                Func::Greatest => datafusion::functions::core::greatest().call(a),
                Func::Least => datafusion::functions::core::least().call(a),
            }
        }
        Expr::Agg(a) => agg(a)?,
        Expr::Win(w) => win(w)?,
        other => return Err(format!("expression outside the DataFrame fragment: {other:?}")),
    })
}

fn udaf(f: AggFunc) -> std::sync::Arc<datafusion::logical_expr::AggregateUDF> {
    use datafusion::functions_aggregate as fa;
    match f {
        AggFunc::Count => fa::count::count_udaf(),
        AggFunc::Sum => fa::sum::sum_udaf(),
        AggFunc::Avg => fa::average::avg_udaf(),
        AggFunc::Min => fa::min_max::min_udaf(),
        AggFunc::Max => fa::min_max::max_udaf(),
        AggFunc::BoolAnd => fa::bool_and_or::bool_and_udaf(),
        AggFunc::BoolOr => fa::bool_and_or::bool_or_udaf(),
    }
}

/// `count(*)` is `count(1)` (what the SQL planner expands it to)
fn agg_args(arg: Option<&Expr>) -> Result<Vec<DfExpr>, String> {
    Ok(match arg {
        None => vec![lit(1i64)],
        Some(x) => vec![to_df(x)?],
    })
}

fn agg(a: &AggCall) -> Result<DfExpr, String> {
    let filter = match &a.filter {
        Some(f) => Some(Box::new(to_df(f)?)),
        None => None,
    };
    Ok(DfExpr::AggregateFunction(AggregateFunction::new_udf(udaf(a.f), agg_args(a.arg.as_ref())?, a.distinct, filter, vec![], None)))
}

fn win(w: &WinCall) -> Result<DfExpr, String> {
    let (built, to_int) = win_raw(w)?;
    Ok(if to_int { cast(built, DataType::Int64) } else { built })
}

/// the bare window function (what `DataFrame::window` accepts) and whether the SQL text casts it to BIGINT
pub fn win_raw(w: &WinCall) -> Result<(DfExpr, bool), String> {
    use datafusion::functions_window as fw;
    let (def, args, to_int) = match w.f {
        WinFunc::RowNumber => (WindowFunctionDefinition::WindowUDF(fw::row_number::row_number_udwf()), vec![], true),
        WinFunc::Rank => (WindowFunctionDefinition::WindowUDF(fw::rank::rank_udwf()), vec![], true),
        WinFunc::DenseRank => (WindowFunctionDefinition::WindowUDF(fw::rank::dense_rank_udwf()), vec![], true),
        WinFunc::Agg(f) => (WindowFunctionDefinition::AggregateUDF(udaf(f)), agg_args(w.args.first())?, false),
        other => return Err(format!("window function {other:?} outside the DataFrame fragment")),
    };
    let base = DfExpr::from(WindowFunction::new(def, args));
    let part: Vec<DfExpr> = w.partition_by.iter().map(to_df).collect::<Result<_, _>>()?;
    let order: Vec<SortExpr> = w.order_by.iter().map(sort_expr).collect::<Result<_, _>>()?;
    let mut builder = base.partition_by(part);
    if !order.is_empty() {
        builder = builder.order_by(order);
    }
    // frame None = whatever the expression builder defaults to (the SQL text then has no frame clause either)
    if let Some(fr) = &w.frame {
        use datafusion::logical_expr::{WindowFrame, WindowFrameBound, WindowFrameUnits};
        let units = match fr.units {
            FrameUnits::Rows => WindowFrameUnits::Rows,
            FrameUnits::Range => WindowFrameUnits::Range,
            FrameUnits::Groups => WindowFrameUnits::Groups,
        };
        let bound = |b: &FrameBound| -> Result<WindowFrameBound, String> {
            Ok(match b {
                FrameBound::UnboundedPreceding => WindowFrameBound::Preceding(ScalarValue::UInt64(None)),
                FrameBound::UnboundedFollowing => WindowFrameBound::Following(ScalarValue::UInt64(None)),
                FrameBound::CurrentRow => WindowFrameBound::CurrentRow,
                other => return Err(format!("frame bound {other:?} outside the DataFrame fragment")),
            })
        };
        builder = builder.window_frame(WindowFrame::new_bounds(units, bound(&fr.start)?, bound(&fr.end)?));
    }
    let built = builder.build().map_err(|e| e.to_string())?;
    Ok((built, to_int))
}
