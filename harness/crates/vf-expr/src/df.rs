//! Arrow / DataFusion glue shared by C04 and C33: column specs → arrays / batches / schemas, AST → logical
//! `Expr` (→ physical through `create_physical_expr`), results → `ast::V`.
use crate::ast::*;
use arrow::array::*;
use arrow::datatypes::{DataType, Field, Schema, SchemaRef};
use arrow::record_batch::RecordBatch;
use datafusion_common::{Column, DFSchema, ScalarValue};
use datafusion_expr::expr::{Between, BinaryExpr, Case, Cast, InList, Like, ScalarFunction, TryCast};
use datafusion_expr::{Expr, Operator};
use serde::{Deserialize, Serialize};
use std::sync::Arc;
use vf_kit::engine::splitmix64;

/// One column of the small-domain table: every row of the evaluated batch takes one of `vals` here.
#[derive(Clone, Debug, PartialEq, Serialize, Deserialize)]
pub struct ColSpec {
    pub ty: Ty,
    /// declared nullability in the schema; when false, NULLs are dropped from `vals`
    pub nullable: bool,
    pub vals: Vec<V>,
}

impl ColSpec {
    /// effective domain (never empty)
    pub fn domain(&self) -> Vec<V> {
        let mut d: Vec<V> = self.vals.iter().filter(|v| self.nullable || !v.is_null()).cloned().collect();
        if d.is_empty() {
            d.push(default_value(self.ty));
        }
        d
    }
}

pub fn default_value(ty: Ty) -> V {
    match ty {
        Ty::Bool => V::B(false),
        Ty::F32 | Ty::F64 => V::F(0.0),
        Ty::Utf8 | Ty::Utf8View => V::S(String::new()),
        _ => V::I(0),
    }
}

pub fn col_name(i: u8, ty: Ty) -> String {
    format!("c{i}_{}", ty.name())
}

pub fn arrow_type(ty: Ty) -> DataType {
    match ty {
        Ty::Bool => DataType::Boolean,
        Ty::I8 => DataType::Int8,
        Ty::I16 => DataType::Int16,
        Ty::I32 => DataType::Int32,
        Ty::I64 => DataType::Int64,
        Ty::U8 => DataType::UInt8,
        Ty::U64 => DataType::UInt64,
        Ty::F32 => DataType::Float32,
        Ty::F64 => DataType::Float64,
        Ty::Utf8 => DataType::Utf8,
        Ty::Utf8View => DataType::Utf8View,
        Ty::Date32 => DataType::Date32,
        Ty::Dec => DataType::Decimal128(DEC_P, DEC_S),
    }
}

/// Build an array of type `ty` from logical values. `force_validity`: attach a validity buffer even when
/// no value is NULL. Values that do not fit the type are a harness bug (generators never produce them);
/// they are clamped to the default rather than panicking.
pub fn make_array(ty: Ty, vals: &[V], force_validity: bool) -> ArrayRef {
    macro_rules! prim {
        ($arr:ty, $nat:ty) => {{
            let a: $arr = vals
                .iter()
                .map(|v| match v {
                    V::I(i) => Some(<$nat>::try_from(*i).unwrap_or_default()),
                    _ => None,
                })
                .collect();
            Arc::new(a) as ArrayRef
        }};
    }
    let arr: ArrayRef = match ty {
        Ty::Bool => Arc::new(
            vals.iter()
                .map(|v| match v {
                    V::B(b) => Some(*b),
                    _ => None,
                })
                .collect::<BooleanArray>(),
        ),
        Ty::I8 => prim!(Int8Array, i8),
        Ty::I16 => prim!(Int16Array, i16),
        Ty::I32 => prim!(Int32Array, i32),
        Ty::I64 => prim!(Int64Array, i64),
        Ty::U8 => prim!(UInt8Array, u8),
        Ty::U64 => prim!(UInt64Array, u64),
        Ty::Date32 => prim!(Date32Array, i32),
        Ty::F32 => Arc::new(
            vals.iter()
                .map(|v| match v {
                    V::F(f) => Some(*f as f32),
                    _ => None,
                })
                .collect::<Float32Array>(),
        ),
        Ty::F64 => Arc::new(
            vals.iter()
                .map(|v| match v {
                    V::F(f) => Some(*f),
                    _ => None,
                })
                .collect::<Float64Array>(),
        ),
        Ty::Utf8 => Arc::new(
            vals.iter()
                .map(|v| match v {
                    V::S(s) => Some(s.as_str()),
                    _ => None,
                })
                .collect::<StringArray>(),
        ),
        Ty::Utf8View => Arc::new(
            vals.iter()
                .map(|v| match v {
                    V::S(s) => Some(s.as_str()),
                    _ => None,
                })
                .collect::<StringViewArray>(),
        ),
        Ty::Dec => {
            let a: Decimal128Array = vals
                .iter()
                .map(|v| match v {
                    V::I(i) => Some(*i),
                    _ => None,
                })
                .collect();
            match a.with_precision_and_scale(DEC_P, DEC_S) {
                Ok(a) => Arc::new(a),
                Err(_) => new_null_array(&arrow_type(Ty::Dec), vals.len()),
            }
        }
    };
    if force_validity && arr.nulls().is_none() && !vals.is_empty() {
        // rebuild with an explicit all-valid buffer
        let data = arr.to_data();
        let nulls = arrow::buffer::NullBuffer::new(arrow::buffer::BooleanBuffer::new_set(vals.len()));
        match data.into_builder().nulls(Some(nulls)).build() {
            Ok(d) => make_array_from_data(d),
            Err(_) => arr,
        }
    } else {
        arr
    }
}

fn make_array_from_data(d: arrow::array::ArrayData) -> ArrayRef {
    arrow::array::make_array(d)
}

pub fn scalar(ty: Ty, v: &V) -> ScalarValue {
    match (ty, v) {
        (Ty::Bool, V::B(b)) => ScalarValue::Boolean(Some(*b)),
        (Ty::Bool, _) => ScalarValue::Boolean(None),
        (Ty::I8, V::I(i)) => ScalarValue::Int8(i8::try_from(*i).ok()),
        (Ty::I8, _) => ScalarValue::Int8(None),
        (Ty::I16, V::I(i)) => ScalarValue::Int16(i16::try_from(*i).ok()),
        (Ty::I16, _) => ScalarValue::Int16(None),
        (Ty::I32, V::I(i)) => ScalarValue::Int32(i32::try_from(*i).ok()),
        (Ty::I32, _) => ScalarValue::Int32(None),
        (Ty::I64, V::I(i)) => ScalarValue::Int64(i64::try_from(*i).ok()),
        (Ty::I64, _) => ScalarValue::Int64(None),
        (Ty::U8, V::I(i)) => ScalarValue::UInt8(u8::try_from(*i).ok()),
        (Ty::U8, _) => ScalarValue::UInt8(None),
        (Ty::U64, V::I(i)) => ScalarValue::UInt64(u64::try_from(*i).ok()),
        (Ty::U64, _) => ScalarValue::UInt64(None),
        (Ty::F32, V::F(f)) => ScalarValue::Float32(Some(*f as f32)),
        (Ty::F32, _) => ScalarValue::Float32(None),
        (Ty::F64, V::F(f)) => ScalarValue::Float64(Some(*f)),
        (Ty::F64, _) => ScalarValue::Float64(None),
        (Ty::Utf8, V::S(s)) => ScalarValue::Utf8(Some(s.clone())),
        (Ty::Utf8, _) => ScalarValue::Utf8(None),
        (Ty::Utf8View, V::S(s)) => ScalarValue::Utf8View(Some(s.clone())),
        (Ty::Utf8View, _) => ScalarValue::Utf8View(None),
        (Ty::Date32, V::I(i)) => ScalarValue::Date32(i32::try_from(*i).ok()),
        (Ty::Date32, _) => ScalarValue::Date32(None),
        (Ty::Dec, V::I(i)) => ScalarValue::Decimal128(Some(*i), DEC_P, DEC_S),
        (Ty::Dec, _) => ScalarValue::Decimal128(None, DEC_P, DEC_S),
    }
}

/// Rows of the evaluated table: the cross product of the referenced columns' domains (in column order),
/// capped at `max_rows` by a deterministic sample driven by `seed`. Returns, per referenced column, the
/// column of values, and the row count.
pub struct Table {
    /// referenced column indices (sorted)
    pub used: Vec<u8>,
    /// `cols[k][r]` = value of column `used[k]` on row `r`
    pub cols: Vec<Vec<V>>,
    pub rows: usize,
    pub exhaustive: bool,
}

pub fn build_table(specs: &[ColSpec], used: &[u8], max_rows: usize, seed: u64) -> Table {
    let doms: Vec<Vec<V>> = used.iter().map(|i| specs[*i as usize].domain()).collect();
    let total: u128 = doms.iter().map(|d| d.len() as u128).product();
    let max_rows = max_rows.max(1);
    let (indices, exhaustive): (Vec<u128>, bool) = if total <= max_rows as u128 {
        ((0..total).collect(), true)
    } else {
        let mut s = seed;
        let mut v = Vec::with_capacity(max_rows);
        for _ in 0..max_rows {
            s = splitmix64(s);
            v.push((s as u128) % total);
        }
        (v, false)
    };
    let mut cols: Vec<Vec<V>> = doms.iter().map(|_| Vec::with_capacity(indices.len())).collect();
    for ix in &indices {
        let mut rem = *ix;
        // last column varies fastest
        for k in (0..doms.len()).rev() {
            let n = doms[k].len() as u128;
            cols[k].push(doms[k][(rem % n) as usize].clone());
            rem /= n;
        }
    }
    let rows = indices.len();
    Table { used: used.to_vec(), cols, rows, exhaustive }
}

impl Table {
    /// full-width row (indexed by column index of the case; unreferenced columns are NULL)
    pub fn row(&self, r: usize, ncols: usize) -> Vec<V> {
        let mut out = vec![V::Null; ncols];
        for (k, i) in self.used.iter().enumerate() {
            out[*i as usize] = self.cols[k][r].clone();
        }
        out
    }
    /// the same rows `k` times over (longer arrays: bitmap word boundaries, pre-selection ratios)
    pub fn repeat(&self, k: usize, max_rows: usize) -> Table {
        let k = k.max(1).min((max_rows / self.rows.max(1)).max(1));
        if k == 1 {
            return Table { used: self.used.clone(), cols: self.cols.clone(), rows: self.rows, exhaustive: self.exhaustive };
        }
        let cols = self.cols.iter().map(|c| (0..k).flat_map(|_| c.iter().cloned()).collect()).collect();
        Table { used: self.used.clone(), cols, rows: self.rows * k, exhaustive: self.exhaustive }
    }
    pub fn filter_rows(&self, keep: &[bool]) -> Table {
        let cols = self.cols.iter().map(|c| c.iter().zip(keep).filter(|(_, k)| **k).map(|(v, _)| v.clone()).collect()).collect();
        Table { used: self.used.clone(), cols, rows: keep.iter().filter(|k| **k).count(), exhaustive: false }
    }
}

/// Options for the physical shape of a batch (independent of its logical content).
#[derive(Clone, Copy, Debug, Default, PartialEq, Serialize, Deserialize)]
pub struct BatchShape {
    /// attach validity buffers even to columns without NULLs
    pub force_validity: bool,
    /// rows of padding before the real rows (arrays are sliced, so offsets are non-zero)
    pub pad: u8,
    /// append an unused Int32 column (exercises CASE's column projection)
    pub extra_col: bool,
}

pub fn make_schema(specs: &[ColSpec], used: &[u8], shape: &BatchShape) -> SchemaRef {
    let mut fields: Vec<Field> = used.iter().map(|i| Field::new(col_name(*i, specs[*i as usize].ty), arrow_type(specs[*i as usize].ty), specs[*i as usize].nullable)).collect();
    if shape.extra_col {
        fields.push(Field::new("zz_unused", DataType::Int32, true));
    }
    Arc::new(Schema::new(fields))
}

pub fn make_batch(specs: &[ColSpec], table: &Table, schema: &SchemaRef, shape: &BatchShape) -> Result<RecordBatch, String> {
    let pad = shape.pad as usize;
    let mut arrays: Vec<ArrayRef> = vec![];
    for (k, i) in table.used.iter().enumerate() {
        let spec = &specs[*i as usize];
        let arr = if pad > 0 {
            // padding uses the column's own values (rotated) so that garbage is type-correct
            let mut vals: Vec<V> = Vec::with_capacity(pad + table.rows + 1);
            let dom = spec.domain();
            for p in 0..pad {
                vals.push(dom[p % dom.len()].clone());
            }
            vals.extend(table.cols[k].iter().cloned());
            vals.push(dom[0].clone());
            make_array(spec.ty, &vals, shape.force_validity).slice(pad, table.rows)
        } else {
            make_array(spec.ty, &table.cols[k], shape.force_validity)
        };
        arrays.push(arr);
    }
    if shape.extra_col {
        let vals: Vec<Option<i32>> = (0..table.rows).map(|r| if r % 3 == 0 { None } else { Some(r as i32) }).collect();
        arrays.push(Arc::new(Int32Array::from(vals)));
    }
    let opts = arrow::record_batch::RecordBatchOptions::new().with_row_count(Some(table.rows));
    RecordBatch::try_new_with_options(schema.clone(), arrays, &opts).map_err(|e| e.to_string())
}

pub fn df_schema(schema: &SchemaRef) -> Result<DFSchema, String> {
    DFSchema::try_from(schema.as_ref().clone()).map_err(|e| e.to_string())
}

fn operator(op: Op) -> Operator {
    match op {
        Op::Add => Operator::Plus,
        Op::Sub => Operator::Minus,
        Op::Mul => Operator::Multiply,
        Op::Div => Operator::Divide,
        Op::Mod => Operator::Modulo,
        Op::Eq => Operator::Eq,
        Op::Ne => Operator::NotEq,
        Op::Lt => Operator::Lt,
        Op::Le => Operator::LtEq,
        Op::Gt => Operator::Gt,
        Op::Ge => Operator::GtEq,
        Op::And => Operator::And,
        Op::Or => Operator::Or,
        Op::Distinct => Operator::IsDistinctFrom,
        Op::NotDistinct => Operator::IsNotDistinctFrom,
        Op::RMatch => Operator::RegexMatch,
        Op::RIMatch => Operator::RegexIMatch,
        Op::RNotMatch => Operator::RegexNotMatch,
        Op::RNotIMatch => Operator::RegexNotIMatch,
    }
}

/// AST → logical expression. Column `i` becomes the unqualified column `col_name(i, ty)`.
pub fn to_expr(e: &E, specs: &[ColSpec]) -> Expr {
    to_expr_opt(e, specs, false)
}

/// `expand_coalesce`: render `coalesce(a, b, ..)` / `nvl(a, b)` as their SQL definition
/// `CASE WHEN a IS NOT NULL THEN a WHEN b IS NOT NULL THEN b .. ELSE last END` (the `coalesce` UDF refuses to be
/// evaluated unless the simplifier has rewritten it, so the evaluated ORIGINAL uses the definition).
pub fn to_expr_opt(e: &E, specs: &[ColSpec], expand_coalesce: bool) -> Expr {
    let to_expr = |x: &E, specs: &[ColSpec]| to_expr_opt(x, specs, expand_coalesce);
    if expand_coalesce {
        if let E::Func(Fun::Coalesce | Fun::Nvl, args) = e {
            if let Some((last, init)) = args.split_last() {
                if init.is_empty() {
                    return to_expr(last, specs);
                }
                let whens = init.iter().map(|a| (Box::new(Expr::IsNotNull(Box::new(to_expr(a, specs)))), Box::new(to_expr(a, specs)))).collect();
                return Expr::Case(Case::new(None, whens, Some(Box::new(to_expr(last, specs)))));
            }
        }
    }
    let b = |x: &E| Box::new(to_expr(x, specs));
    match e {
        E::Col(i) => Expr::Column(Column::new_unqualified(col_name(*i, specs[*i as usize].ty))),
        E::Lit(t, v) => Expr::Literal(scalar(*t, v), None),
        E::Bin(op, l, r) => Expr::BinaryExpr(BinaryExpr::new(b(l), operator(*op), b(r))),
        E::Not(x) => Expr::Not(b(x)),
        E::Neg(x) => Expr::Negative(b(x)),
        E::Is(k, x) => match k {
            IsKind::Null => Expr::IsNull(b(x)),
            IsKind::NotNull => Expr::IsNotNull(b(x)),
            IsKind::True => Expr::IsTrue(b(x)),
            IsKind::NotTrue => Expr::IsNotTrue(b(x)),
            IsKind::False => Expr::IsFalse(b(x)),
            IsKind::NotFalse => Expr::IsNotFalse(b(x)),
            IsKind::Unknown => Expr::IsUnknown(b(x)),
            IsKind::NotUnknown => Expr::IsNotUnknown(b(x)),
        },
        E::Between { neg, e, lo, hi } => Expr::Between(Between::new(b(e), *neg, b(lo), b(hi))),
        E::InList { neg, e, list } => Expr::InList(InList::new(b(e), list.iter().map(|x| to_expr(x, specs)).collect(), *neg)),
        E::Case { base, whens, els } => Expr::Case(Case::new(base.as_ref().map(|x| b(x)), whens.iter().map(|(w, t)| (b(w), b(t))).collect(), els.as_ref().map(|x| b(x)))),
        E::Cast { try_, e, to } => {
            if *try_ {
                Expr::TryCast(TryCast::new(b(e), arrow_type(*to)))
            } else {
                Expr::Cast(Cast::new(b(e), arrow_type(*to)))
            }
        }
        E::Like { neg, ci, e, pat } => Expr::Like(Like::new(*neg, b(e), b(pat), None, *ci)),
        E::Similar { neg, ci, e, pat } => Expr::SimilarTo(Like::new(*neg, b(e), b(pat), None, *ci)),
        E::Func(f, args) => {
            let mut a: Vec<Expr> = args.iter().map(|x| to_expr(x, specs)).collect();
            let udf = match f {
                Fun::Abs => datafusion_functions::math::abs(),
                Fun::Power => datafusion_functions::math::power(),
                Fun::Log => datafusion_functions::math::log(),
                Fun::Floor => datafusion_functions::math::floor(),
                Fun::Coalesce => datafusion_functions::core::coalesce(),
                Fun::NullIf => datafusion_functions::core::nullif(),
                Fun::Nvl => datafusion_functions::core::nvl(),
                Fun::Concat => datafusion_functions::string::concat(),
                Fun::Upper => datafusion_functions::string::upper(),
                Fun::Lower => datafusion_functions::string::lower(),
                Fun::StartsWith => datafusion_functions::string::starts_with(),
                Fun::Substr => datafusion_functions::unicode::substr(),
                Fun::RegexpLike => datafusion_functions::regex::regexp_like(),
                Fun::DatePartYear | Fun::DatePartMonth => {
                    let part = if *f == Fun::DatePartYear { "year" } else { "month" };
                    a.insert(0, Expr::Literal(ScalarValue::Utf8(Some(part.to_string())), None));
                    datafusion_functions::datetime::date_part()
                }
            };
            Expr::ScalarFunction(ScalarFunction::new_udf(udf, a))
        }
    }
}

/// One cell of an Arrow array as a logical value; `Err` for types outside `V`.
pub fn array_value(arr: &dyn Array, i: usize) -> Result<V, String> {
    if arr.is_null(i) {
        return Ok(V::Null);
    }
    macro_rules! int {
        ($t:ty) => {
            V::I(arr.as_any().downcast_ref::<$t>().ok_or("downcast")?.value(i) as i128)
        };
    }
    Ok(match arr.data_type() {
        DataType::Null => V::Null,
        DataType::Boolean => V::B(arr.as_boolean().value(i)),
        DataType::Int8 => int!(Int8Array),
        DataType::Int16 => int!(Int16Array),
        DataType::Int32 => int!(Int32Array),
        DataType::Int64 => int!(Int64Array),
        DataType::UInt8 => int!(UInt8Array),
        DataType::UInt16 => int!(UInt16Array),
        DataType::UInt32 => int!(UInt32Array),
        DataType::UInt64 => int!(UInt64Array),
        DataType::Date32 => int!(Date32Array),
        DataType::Decimal128(_, _) => int!(Decimal128Array),
        DataType::Float32 => V::F(arr.as_any().downcast_ref::<Float32Array>().ok_or("downcast")?.value(i) as f64),
        DataType::Float64 => V::F(arr.as_any().downcast_ref::<Float64Array>().ok_or("downcast")?.value(i)),
        DataType::Utf8 => V::S(arr.as_any().downcast_ref::<StringArray>().ok_or("downcast")?.value(i).to_string()),
        DataType::LargeUtf8 => V::S(arr.as_any().downcast_ref::<LargeStringArray>().ok_or("downcast")?.value(i).to_string()),
        DataType::Utf8View => V::S(arr.as_any().downcast_ref::<StringViewArray>().ok_or("downcast")?.value(i).to_string()),
        other => return Err(format!("unsupported result type {other}")),
    })
}

/// Logical equality of an engine value with a reference value (floats: exact, any NaN ≡ any NaN; ±0.0 equal
/// only bitwise — the reference marks rows where the sign of zero matters as unspecified before this is asked).
pub fn same_value(a: &V, b: &V) -> bool {
    match (a, b) {
        (V::F(x), V::F(y)) => (x.is_nan() && y.is_nan()) || x.to_bits() == y.to_bits() || (*x == 0.0 && *y == 0.0),
        _ => a == b,
    }
}

/// Evaluate to an array of `rows` values.
pub fn eval_array(p: &Arc<dyn datafusion_physical_expr::PhysicalExpr>, batch: &RecordBatch) -> Result<ArrayRef, datafusion_common::DataFusionError> {
    p.evaluate(batch)?.into_array(batch.num_rows())
}

/// Development aid: with `VF_EXPR_SURVEY=1` a violation is turned into a labelled pass so that one run shows the
/// whole landscape of failing shapes (never set by `./check`).
pub fn survey(r: vf_kit::engine::CaseResult) -> vf_kit::engine::CaseResult {
    if std::env::var_os("VF_EXPR_SURVEY").is_none() {
        return r;
    }
    if let vf_kit::engine::Outcome::Violation(m) = &r.outcome {
        let key: String = m.lines().next().unwrap_or("").chars().take(90).map(|c| if c.is_ascii_digit() { '#' } else { c }).collect();
        let mut labels = r.labels.clone();
        labels.push(format!("SURVEY {key}"));
        if let Some(l) = m.lines().nth(1) {
            eprintln!("SURVEY {key} || {}", l.trim());
        }
        return vf_kit::engine::CaseResult::pass().labels(labels);
    }
    r
}
