//! Typed expression AST shared by C04 and C33 — plain serde data (cases shrink and replay as JSON).
//!
//! * [`Ty`]  — the column / literal types the generators speak about.
//! * [`V`]   — a logical value (`I` holds every integer width, Date32 days and Decimal128 unscaled values).
//! * [`E`]   — the expression tree. Every tree produced by `egen.rs` is *exactly typed* (operand types of a
//!   binary operator are identical, IN-list elements have the needle's type, CASE branches agree, …) so that
//!   no type-coercion pass is needed before `create_physical_expr` / `ExprSimplifier::simplify`.
//! * [`ty_of`] — static typing of a tree (mirrors DataFusion's result-type rules for same-typed operands).
use serde::{Deserialize, Serialize};

/// Decimal128 precision / scale used for the one decimal column type.
pub const DEC_P: u8 = 10;
pub const DEC_S: i8 = 2;

#[derive(Clone, Copy, Debug, PartialEq, Eq, Hash, PartialOrd, Ord, Serialize, Deserialize)]
pub enum Ty {
    Bool,
    I8,
    I16,
    I32,
    I64,
    U8,
    U64,
    F32,
    F64,
    Utf8,
    Utf8View,
    Date32,
    /// Decimal128(10, 2)
    Dec,
}

pub const ALL_TYS: [Ty; 13] = [Ty::Bool, Ty::I8, Ty::I16, Ty::I32, Ty::I64, Ty::U8, Ty::U64, Ty::F32, Ty::F64, Ty::Utf8, Ty::Utf8View, Ty::Date32, Ty::Dec];

impl Ty {
    pub fn is_int(self) -> bool {
        matches!(self, Ty::I8 | Ty::I16 | Ty::I32 | Ty::I64 | Ty::U8 | Ty::U64)
    }
    pub fn is_signed_int(self) -> bool {
        matches!(self, Ty::I8 | Ty::I16 | Ty::I32 | Ty::I64)
    }
    pub fn is_float(self) -> bool {
        matches!(self, Ty::F32 | Ty::F64)
    }
    pub fn is_str(self) -> bool {
        matches!(self, Ty::Utf8 | Ty::Utf8View)
    }
    pub fn is_numeric(self) -> bool {
        self.is_int() || self.is_float() || self == Ty::Dec
    }
    /// inclusive value range of an integer type
    pub fn int_range(self) -> Option<(i128, i128)> {
        Some(match self {
            Ty::I8 => (i8::MIN as i128, i8::MAX as i128),
            Ty::I16 => (i16::MIN as i128, i16::MAX as i128),
            Ty::I32 => (i32::MIN as i128, i32::MAX as i128),
            Ty::I64 => (i64::MIN as i128, i64::MAX as i128),
            Ty::U8 => (0, u8::MAX as i128),
            Ty::U64 => (0, u64::MAX as i128),
            _ => return None,
        })
    }
    pub fn bits(self) -> u32 {
        match self {
            Ty::I8 | Ty::U8 => 8,
            Ty::I16 => 16,
            Ty::I32 | Ty::F32 | Ty::Date32 => 32,
            Ty::I64 | Ty::U64 | Ty::F64 => 64,
            Ty::Dec => 128,
            _ => 0,
        }
    }
    pub fn name(self) -> &'static str {
        match self {
            Ty::Bool => "bool",
            Ty::I8 => "i8",
            Ty::I16 => "i16",
            Ty::I32 => "i32",
            Ty::I64 => "i64",
            Ty::U8 => "u8",
            Ty::U64 => "u64",
            Ty::F32 => "f32",
            Ty::F64 => "f64",
            Ty::Utf8 => "utf8",
            Ty::Utf8View => "utf8view",
            Ty::Date32 => "date32",
            Ty::Dec => "dec",
        }
    }
}

/// A logical value. `F` holds f32 values too (always exactly representable in f32 when the type is F32).
#[derive(Clone, Debug, PartialEq, Serialize, Deserialize)]
pub enum V {
    Null,
    B(bool),
    /// all integer widths, Date32 (days since epoch), Dec (unscaled value, scale 2)
    I(i128),
    F(f64),
    S(String),
}

impl V {
    pub fn is_null(&self) -> bool {
        matches!(self, V::Null)
    }
}

#[derive(Clone, Copy, Debug, PartialEq, Eq, Hash, Serialize, Deserialize)]
pub enum Op {
    Add,
    Sub,
    Mul,
    Div,
    Mod,
    Eq,
    Ne,
    Lt,
    Le,
    Gt,
    Ge,
    And,
    Or,
    Distinct,
    NotDistinct,
    /// `~`, `~*`, `!~`, `!~*` (C04 only; the reference evaluator does not implement them)
    RMatch,
    RIMatch,
    RNotMatch,
    RNotIMatch,
}

impl Op {
    pub fn is_arith(self) -> bool {
        matches!(self, Op::Add | Op::Sub | Op::Mul | Op::Div | Op::Mod)
    }
    pub fn is_cmp(self) -> bool {
        matches!(self, Op::Eq | Op::Ne | Op::Lt | Op::Le | Op::Gt | Op::Ge)
    }
    pub fn is_regex(self) -> bool {
        matches!(self, Op::RMatch | Op::RIMatch | Op::RNotMatch | Op::RNotIMatch)
    }
    pub fn name(self) -> &'static str {
        match self {
            Op::Add => "+",
            Op::Sub => "-",
            Op::Mul => "*",
            Op::Div => "/",
            Op::Mod => "%",
            Op::Eq => "=",
            Op::Ne => "<>",
            Op::Lt => "<",
            Op::Le => "<=",
            Op::Gt => ">",
            Op::Ge => ">=",
            Op::And => "and",
            Op::Or => "or",
            Op::Distinct => "is-distinct",
            Op::NotDistinct => "is-not-distinct",
            Op::RMatch => "~",
            Op::RIMatch => "~*",
            Op::RNotMatch => "!~",
            Op::RNotIMatch => "!~*",
        }
    }
}

#[derive(Clone, Copy, Debug, PartialEq, Eq, Hash, Serialize, Deserialize)]
pub enum IsKind {
    Null,
    NotNull,
    True,
    NotTrue,
    False,
    NotFalse,
    Unknown,
    NotUnknown,
}

/// Scalar functions (C04 only).
#[derive(Clone, Copy, Debug, PartialEq, Eq, Hash, Serialize, Deserialize)]
pub enum Fun {
    Abs,
    /// power(f64, f64) -> f64 ; power(i64, i64) -> i64
    Power,
    /// log(base f64, x f64) -> f64
    Log,
    Floor,
    Coalesce,
    NullIf,
    Nvl,
    Concat,
    Upper,
    Lower,
    StartsWith,
    /// substr(utf8, i64 [, i64])
    Substr,
    /// date_part('year', date32) -> i32
    DatePartYear,
    DatePartMonth,
    /// regexp_like(utf8, utf8 literal) -> bool
    RegexpLike,
}

impl Fun {
    pub fn name(self) -> &'static str {
        match self {
            Fun::Abs => "abs",
            Fun::Power => "power",
            Fun::Log => "log",
            Fun::Floor => "floor",
            Fun::Coalesce => "coalesce",
            Fun::NullIf => "nullif",
            Fun::Nvl => "nvl",
            Fun::Concat => "concat",
            Fun::Upper => "upper",
            Fun::Lower => "lower",
            Fun::StartsWith => "starts_with",
            Fun::Substr => "substr",
            Fun::DatePartYear => "date_part_year",
            Fun::DatePartMonth => "date_part_month",
            Fun::RegexpLike => "regexp_like",
        }
    }
}

#[derive(Clone, Debug, PartialEq, Serialize, Deserialize)]
pub enum E {
    /// index into the case's column list
    Col(u8),
    Lit(Ty, V),
    Bin(Op, Box<E>, Box<E>),
    Not(Box<E>),
    Neg(Box<E>),
    Is(IsKind, Box<E>),
    Between { neg: bool, e: Box<E>, lo: Box<E>, hi: Box<E> },
    InList { neg: bool, e: Box<E>, list: Vec<E> },
    Case { base: Option<Box<E>>, whens: Vec<(E, E)>, els: Option<Box<E>> },
    Cast { try_: bool, e: Box<E>, to: Ty },
    Like { neg: bool, ci: bool, e: Box<E>, pat: Box<E> },
    Similar { neg: bool, ci: bool, e: Box<E>, pat: Box<E> },
    Func(Fun, Vec<E>),
}

impl E {
    pub fn bin(op: Op, l: E, r: E) -> E {
        E::Bin(op, Box::new(l), Box::new(r))
    }
    pub fn lit_i(ty: Ty, v: i128) -> E {
        E::Lit(ty, V::I(v))
    }
    pub fn null(ty: Ty) -> E {
        E::Lit(ty, V::Null)
    }
    pub fn children(&self) -> Vec<&E> {
        match self {
            E::Col(_) | E::Lit(..) => vec![],
            E::Bin(_, l, r) => vec![l, r],
            E::Not(e) | E::Neg(e) | E::Is(_, e) | E::Cast { e, .. } => vec![e],
            E::Between { e, lo, hi, .. } => vec![e, lo, hi],
            E::InList { e, list, .. } => std::iter::once(e.as_ref()).chain(list.iter()).collect(),
            E::Case { base, whens, els } => {
                let mut v: Vec<&E> = vec![];
                if let Some(b) = base {
                    v.push(b);
                }
                for (w, t) in whens {
                    v.push(w);
                    v.push(t);
                }
                if let Some(e) = els {
                    v.push(e);
                }
                v
            }
            E::Like { e, pat, .. } | E::Similar { e, pat, .. } => vec![e, pat],
            E::Func(_, args) => args.iter().collect(),
        }
    }
    pub fn depth(&self) -> usize {
        1 + self.children().iter().map(|c| c.depth()).max().unwrap_or(0)
    }
    pub fn size(&self) -> usize {
        1 + self.children().iter().map(|c| c.size()).sum::<usize>()
    }
    pub fn visit<'a>(&'a self, f: &mut dyn FnMut(&'a E)) {
        f(self);
        for c in self.children() {
            c.visit(f);
        }
    }
    /// sorted, de-duplicated column indices referenced by the tree
    pub fn columns(&self) -> Vec<u8> {
        let mut v = vec![];
        self.visit(&mut |e| {
            if let E::Col(i) = e {
                v.push(*i);
            }
        });
        v.sort_unstable();
        v.dedup();
        v
    }
    /// short tag of the node kind (for labels)
    pub fn kind(&self) -> String {
        match self {
            E::Col(_) => "col".into(),
            E::Lit(..) => "lit".into(),
            E::Bin(op, ..) => format!("bin:{}", op.name()),
            E::Not(_) => "not".into(),
            E::Neg(_) => "neg".into(),
            E::Is(k, _) => format!("is:{k:?}"),
            E::Between { .. } => "between".into(),
            E::InList { .. } => "inlist".into(),
            E::Case { base, .. } => if base.is_some() { "case-with-expr".into() } else { "case-no-expr".into() },
            E::Cast { try_, .. } => if *try_ { "try_cast".into() } else { "cast".into() },
            E::Like { ci, .. } => if *ci { "ilike".into() } else { "like".into() },
            E::Similar { .. } => "similar".into(),
            E::Func(f, _) => format!("fn:{}", f.name()),
        }
    }
}

/// Static type of a (well-typed) tree; `col_ty(i)` gives the type of column `i`.
pub fn ty_of(e: &E, col_ty: &dyn Fn(u8) -> Ty) -> Ty {
    match e {
        E::Col(i) => col_ty(*i),
        E::Lit(t, _) => *t,
        E::Bin(op, l, _) => {
            if op.is_arith() {
                let lt = ty_of(l, col_ty);
                if lt == Ty::Date32 && *op == Op::Sub {
                    Ty::I64
                } else {
                    lt
                }
            } else {
                Ty::Bool
            }
        }
        E::Not(_) | E::Is(..) | E::Between { .. } | E::InList { .. } | E::Like { .. } | E::Similar { .. } => Ty::Bool,
        E::Neg(e) => ty_of(e, col_ty),
        E::Case { whens, els, .. } => {
            // DataFusion: type of the first THEN (our trees give every branch the same type)
            match whens.first() {
                Some((_, t)) => ty_of(t, col_ty),
                None => els.as_ref().map(|e| ty_of(e, col_ty)).unwrap_or(Ty::Bool),
            }
        }
        E::Cast { to, .. } => *to,
        E::Func(f, args) => match f {
            Fun::Abs | Fun::Floor | Fun::Coalesce | Fun::NullIf | Fun::Nvl | Fun::Power => args.first().map(|a| ty_of(a, col_ty)).unwrap_or(Ty::F64),
            Fun::Log => Ty::F64,
            Fun::Concat | Fun::Upper | Fun::Lower | Fun::Substr => Ty::Utf8,
            Fun::StartsWith | Fun::RegexpLike => Ty::Bool,
            Fun::DatePartYear | Fun::DatePartMonth => Ty::I32,
        },
    }
}

/// Compact SQL-ish rendering for messages.
pub fn show(e: &E) -> String {
    fn lit(t: Ty, v: &V) -> String {
        match v {
            V::Null => format!("NULL::{}", t.name()),
            V::B(b) => b.to_string(),
            V::I(i) => match t {
                Ty::Dec => format!("{}e-2::dec", i),
                Ty::Date32 => format!("date({i})"),
                _ => format!("{i}::{}", t.name()),
            },
            V::F(f) => format!("{f:?}::{}", t.name()),
            V::S(s) => format!("{s:?}::{}", t.name()),
        }
    }
    match e {
        E::Col(i) => format!("c{i}"),
        E::Lit(t, v) => lit(*t, v),
        E::Bin(op, l, r) => format!("({} {} {})", show(l), op.name(), show(r)),
        E::Not(e) => format!("(NOT {})", show(e)),
        E::Neg(e) => format!("(- {})", show(e)),
        E::Is(k, e) => format!("({} IS {:?})", show(e), k),
        E::Between { neg, e, lo, hi } => format!("({} {}BETWEEN {} AND {})", show(e), if *neg { "NOT " } else { "" }, show(lo), show(hi)),
        E::InList { neg, e, list } => format!("({} {}IN ({}))", show(e), if *neg { "NOT " } else { "" }, list.iter().map(show).collect::<Vec<_>>().join(", ")),
        E::Case { base, whens, els } => {
            let mut s = String::from("CASE");
            if let Some(b) = base {
                s.push(' ');
                s.push_str(&show(b));
            }
            for (w, t) in whens {
                s.push_str(&format!(" WHEN {} THEN {}", show(w), show(t)));
            }
            if let Some(e) = els {
                s.push_str(&format!(" ELSE {}", show(e)));
            }
            s.push_str(" END");
            s
        }
        E::Cast { try_, e, to } => format!("{}({} AS {})", if *try_ { "TRY_CAST" } else { "CAST" }, show(e), to.name()),
        E::Like { neg, ci, e, pat } => format!("({} {}{} {})", show(e), if *neg { "NOT " } else { "" }, if *ci { "ILIKE" } else { "LIKE" }, show(pat)),
        E::Similar { neg, ci, e, pat } => format!("({} {}SIMILAR{} TO {})", show(e), if *neg { "NOT " } else { "" }, if *ci { "(ci)" } else { "" }, show(pat)),
        E::Func(f, args) => format!("{}({})", f.name(), args.iter().map(show).collect::<Vec<_>>().join(", ")),
    }
}
