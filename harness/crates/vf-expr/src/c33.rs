//! C33 — physical expression evaluation strategies agree with row-by-row SQL semantics.
//!
//! Domain: exactly-typed expression trees (depth ≤ 3 quick / 4 thorough, `egen.rs`) over two nullable columns of
//! each of bool/i8/i16/i32/i64/u8/u64/f32/f64/utf8/utf8view/date32/decimal(10,2): comparisons, `+ − × / %`
//! (wrapping by default; 25 % of the cases rebuild every arithmetic `BinaryExpr` `with_fail_on_overflow(true)`),
//! AND/OR/NOT, IS [NOT] NULL/TRUE/FALSE/UNKNOWN/DISTINCT FROM, BETWEEN, IN lists of 0,1,2,3,4,5,8,9,16,17,32,33,40
//! elements (thresholds of `in_list/branchless_filter.rs`: 16 non-null values for 1-byte, 8 for 2-byte, 32 for
//! 4-byte, 16 for 8-byte, 4 for 16-byte types; beyond: bitmap / hash-set / generic array filter) with NULL
//! elements, duplicates, NOT IN and an occasional column element (dynamic path), every CASE evaluation method
//! (column-or-null, scalar-or-scalar, expression-or-expression, searched, simple, literal lookup table with NULL
//! keys / duplicates / no ELSE), division guarded by `CASE WHEN d <> 0 THEN n / d …`, LIKE/ILIKE/NOT LIKE with
//! `% _` and escapes (literal, column and NULL patterns), SIMILAR TO (literal and column patterns), CAST/TRY_CAST
//! over the matrix `rexpr::cast_supported`, unary minus, `date − date`. Rows: the cross product of the referenced
//! columns' 2–6-value domains (NULL-heavy, type boundaries), sampled down to ≤ 200 rows by a seed when larger.
//! Batch shape: optional forced validity buffers, sliced arrays (non-zero offset), an extra unused column.
//!
//! Oracle: `rexpr::eval` row by row (see that module for the exact relation: value / must-fail / unspecified /
//! may-fail). For a batch: engine `Ok` ⇒ every specified row has exactly the reference value and no row is a
//! must-fail row; engine `Err` ⇒ some row must or may fail — and then the batch is filtered to the rows that
//! can not fail and evaluated again, which must succeed and agree. The same relation is asked of
//! `evaluate_selection(batch, mask)` on the selected rows (mask with true/false/NULL entries) and of
//! `evaluate(filter(batch, mask))`; both are compared with the reference, hence with each other.
//! "A CASE never raises an error from a branch that no row selects": THEN/ELSE branches a row does not select
//! never make that row a may-fail row, so an engine error caused by them is a violation.
//!
//! Non-trivial: depth ≥ 2, some referenced column contributes a NULL, and the reference result takes at least
//! two different values over the rows.
//!
//! Deviations from DESIGN.md: dictionary-encoded operands are not generated; the reference lives in
//! `vf-expr/src/rexpr.rs` (not vf-kit) because the AST is this crate's; float division by zero, non-finite
//! results, −MIN, MIN % −1 and implementation-defined cast roundings are "unspecified" rows rather than modelled.
//!
//! Also: the table is laid out `repeat` (1–40) times one after the other (≤ 200 rows) so that tiny cross products
//! still give arrays crossing 64-bit bitmap words and exercise AND/OR pre-selection ratios.
//! Observed, not claimed: `NULL::utf8 IN ()` plans to NULL (planner special case for a literal Utf8 NULL needle)
//! while every other NULL needle with an empty list gives FALSE — empty IN lists with constant needles are not
//! generated; `NegativeExpr` wraps for arrays but fails on overflow for scalars (−MIN is an unspecified row here).
//!
//! Sensitivity probes (one mutrun build, /verif/probes/vf-expr/all-probes-env-guarded.diff, each mutation switched
//! on by VF_PROBE, `./check C33 quick`; unmutated run exit 0):
//! * m1 `BranchlessFilter::contains` passes `haystack_has_nulls = false` (NOT IN ignores a NULL list item)
//!   → VIOLATION after 89 cases: `c22 NOT IN (NULL, date)` engine TRUE, SQL NULL;
//! * m2 AND pre-selection scatters with `fill_value = true` → VIOLATION after 1 327 cases
//!   (found through `evaluate_selection`: engine TRUE, SQL NULL);
//! * m3 searched CASE drops rows whose WHEN is NULL from the remainder (`not(when)` without
//!   `prep_null_mask_filter`) → VIOLATION after 26 cases: engine NULL, SQL 0.
use crate::ast::*;
use crate::df::*;
use crate::egen::{self, G, GenCfg};
use crate::rexpr::{self, Env, St, Stop};
use arrow::array::{Array, ArrayRef, BooleanArray};
use arrow::record_batch::RecordBatch;
use datafusion_common::DataFusionError;
use datafusion_common::tree_node::{Transformed, TreeNode};
use datafusion_expr::Operator;
use datafusion_expr::execution_props::ExecutionProps;
use datafusion_expr::physical_planning_context::PhysicalPlanningContext;
use datafusion_physical_expr::expressions::BinaryExpr;
use datafusion_physical_expr::{PhysicalExpr, create_physical_expr};
use proptest::prelude::*;
use serde::{Deserialize, Serialize};
use std::collections::BTreeSet;
use std::sync::Arc;
use vf_kit::engine::*;

pub struct C33;

#[derive(Clone, Debug, Serialize, Deserialize)]
pub struct Case {
    pub cols: Vec<ColSpec>,
    pub expr: E,
    pub max_rows: u16,
    pub row_seed: u64,
    /// integer + − × built `with_fail_on_overflow(true)`
    pub checked: bool,
    pub shape: BatchShape,
    /// selection mask pattern, cycled over the rows: 0 = false, 1 = true, 2 = NULL
    pub mask: Vec<u8>,
    /// the table is laid out this many times one after the other (capped by `max_rows`)
    #[serde(default)]
    pub repeat: u8,
}

pub fn shape_strategy() -> BoxedStrategy<BatchShape> {
    (any::<bool>(), prop_oneof![3 => Just(0u8), 1 => 1u8..9], prop::bool::weighted(0.3)).prop_map(|(force_validity, pad, extra_col)| BatchShape { force_validity, pad, extra_col }).boxed()
}

pub struct RowRef {
    pub res: Result<V, Stop>,
    pub may_err: bool,
}

pub fn reference_rows(expr: &E, tys: &[Ty], table: &Table, checked: bool) -> Vec<RowRef> {
    (0..table.rows)
        .map(|r| {
            let row = table.row(r, tys.len());
            let env = Env { tys, row: &row, checked };
            let mut st = St::default();
            let res = rexpr::eval(expr, &env, &mut st);
            RowRef { res, may_err: st.may_err }
        })
        .collect()
}

pub enum Cmp {
    Agree { engine_failed: bool },
    Discard(String),
    Violation(String),
}

fn not_implemented(e: &DataFusionError) -> bool {
    matches!(e.find_root(), DataFusionError::NotImplemented(_))
}

/// The batch relation described in the module header. `rows[k]` is the reference row of batch row `k`.
pub fn compare(what: &str, got: &Result<ArrayRef, DataFusionError>, refs: &[RowRef], rows: &[usize]) -> Cmp {
    match got {
        Ok(arr) => {
            if arr.len() != rows.len() {
                return Cmp::Violation(format!("{what}: result has {} rows, batch has {}", arr.len(), rows.len()));
            }
            for (k, r) in rows.iter().enumerate() {
                match &refs[*r].res {
                    Ok(v) => {
                        let g = match array_value(arr.as_ref(), k) {
                            Ok(g) => g,
                            Err(e) => return Cmp::Discard(e),
                        };
                        if !same_value(&g, v) {
                            return Cmp::Violation(format!("{what}: row {r}: engine {g:?} (array type {}) but SQL semantics give {v:?}", arr.data_type()));
                        }
                    }
                    Err(Stop::Error(m)) => {
                        let g = array_value(arr.as_ref(), k);
                        return Cmp::Violation(format!("{what}: row {r} must fail ({m}) but the engine returned {g:?}"));
                    }
                    Err(Stop::Unspec(_)) => {}
                }
            }
            Cmp::Agree { engine_failed: false }
        }
        Err(e) => {
            if not_implemented(e) {
                return Cmp::Discard(format!("not implemented: {}", truncate(&e.to_string(), 80)));
            }
            if rows.is_empty() || rows.iter().any(|r| refs[*r].res.is_err() || refs[*r].may_err) {
                Cmp::Agree { engine_failed: true }
            } else {
                Cmp::Violation(format!("{what}: engine failed with `{}` although no row can fail", truncate(&e.to_string(), 300)))
            }
        }
    }
}

pub fn filter_batch(batch: &RecordBatch, keep: &[bool]) -> Result<RecordBatch, String> {
    let mask = BooleanArray::from(keep.to_vec());
    arrow::compute::filter_record_batch(batch, &mask).map_err(|e| e.to_string())
}

fn make_checked(p: Arc<dyn PhysicalExpr>) -> Result<Arc<dyn PhysicalExpr>, DataFusionError> {
    p.transform_up(|node| {
        if let Some(b) = node.downcast_ref::<BinaryExpr>() {
            if matches!(b.op(), Operator::Plus | Operator::Minus | Operator::Multiply) {
                let nb = BinaryExpr::new(Arc::clone(b.left()), *b.op(), Arc::clone(b.right())).with_fail_on_overflow(true);
                return Ok(Transformed::yes(Arc::new(nb) as Arc<dyn PhysicalExpr>));
            }
        }
        Ok(Transformed::no(node))
    })
    .map(|t| t.data)
}

fn case_method(e: &E) -> Option<&'static str> {
    if let E::Case { base, whens, els } = e {
        let is_lit = |x: &E| matches!(x, E::Lit(..));
        Some(if base.is_some() {
            if whens.iter().all(|(w, t)| is_lit(w) && is_lit(t)) && els.as_deref().map(is_lit).unwrap_or(true) { "case:literal-lookup" } else { "case:with-expr" }
        } else if whens.len() == 1 && matches!(whens[0].1, E::Col(_)) && els.is_none() {
            "case:column-or-null"
        } else if whens.len() == 1 && is_lit(&whens[0].1) && els.as_deref().map(|x| is_lit(x) && !matches!(x, E::Lit(_, V::Null))).unwrap_or(false) {
            "case:scalar-or-scalar"
        } else if whens.len() == 1 {
            "case:expr-or-expr"
        } else {
            "case:searched"
        })
    } else {
        None
    }
}

pub fn expr_labels(expr: &E, tys: &[Ty]) -> BTreeSet<String> {
    let mut labels = BTreeSet::new();
    labels.insert(format!("root:{}", expr.kind()));
    expr.visit(&mut |n| {
        labels.insert(format!("has:{}", n.kind()));
        if let Some(m) = case_method(n) {
            labels.insert(m.to_string());
        }
        match n {
            E::InList { e, list, neg } => {
                let t = ty_of(e, &|i| tys[i as usize]);
                let nonnull = list.iter().filter(|x| !matches!(x, E::Lit(_, V::Null))).count();
                let dynamic = list.iter().any(|x| !matches!(x, E::Lit(..)));
                let limit = match t.bits() {
                    8 => 16,
                    16 => 8,
                    32 => 32,
                    64 => 16,
                    128 => 4,
                    _ => 0,
                };
                let class = if dynamic {
                    "dynamic"
                } else if limit == 0 {
                    "generic-filter"
                } else if nonnull <= limit {
                    "branchless"
                } else {
                    "beyond-branchless"
                };
                labels.insert(format!("inlist:{class}"));
                labels.insert(format!("inlist:{}:{class}", t.name()));
                if limit > 0 && !dynamic && (nonnull == limit || nonnull == limit + 1) {
                    labels.insert("inlist:at-threshold".into());
                }
                if list.iter().any(|x| matches!(x, E::Lit(_, V::Null))) {
                    labels.insert(if *neg { "inlist:not-in-with-null".into() } else { "inlist:in-with-null".into() });
                }
                if list.is_empty() {
                    labels.insert("inlist:empty".into());
                }
            }
            E::Cast { e, to, .. } => {
                let from = ty_of(e, &|i| tys[i as usize]);
                labels.insert(format!("cast:{}->{}", from.name(), to.name()));
            }
            E::Bin(op, l, _) if op.is_arith() || op.is_cmp() => {
                let t = ty_of(l, &|i| tys[i as usize]);
                labels.insert(format!("{}:{}", if op.is_arith() { "arith" } else { "cmp" }, t.name()));
            }
            E::Like { pat, .. } | E::Similar { pat, .. } => {
                labels.insert(if matches!(**pat, E::Lit(..)) { "pattern:literal".into() } else { "pattern:column".into() });
            }
            _ => {}
        }
    });
    labels
}

pub fn plan(expr: &E, specs: &[ColSpec], schema: &arrow::datatypes::SchemaRef) -> Result<Arc<dyn PhysicalExpr>, String> {
    let logical = to_expr(expr, specs);
    let dfs = df_schema(schema)?;
    create_physical_expr(&logical, &dfs, &ExecutionProps::new(), &PhysicalPlanningContext::default()).map_err(|e| truncate(&e.to_string(), 120))
}

impl Property for C33 {
    type Case = Case;
    fn id(&self) -> &'static str {
        "C33"
    }
    fn sub(&self) -> &'static str {
        "c33"
    }
    fn strategy(&self, tier: Tier) -> BoxedStrategy<Case> {
        let g = G::new(GenCfg { funcs: false, max_depth: tier.pick(3, 4), inlist_sizes: vec![0, 1, 2, 3, 4, 5, 8, 9, 16, 17, 32, 33, 40] });
        let max_rows = tier.pick(200u16, 400u16);
        let rows = prop_oneof![4 => Just(max_rows), 1 => 1u16..=8];
        (egen::all_cols(), g.root(), rows, any::<u64>(), prop::bool::weighted(0.25), shape_strategy(), prop::collection::vec(prop_oneof![3 => Just(1u8), 3 => Just(0u8), 1 => Just(2u8)], 1..12), prop_oneof![2 => Just(1u8), 2 => 2u8..=40])
            .prop_map(|(mut cols, expr, max_rows, row_seed, checked, shape, mask, repeat)| {
                egen::prune_cols(&mut cols, &expr.columns());
                Case { cols, expr, max_rows, row_seed, checked, shape, mask, repeat }
            })
            .boxed()
    }
    fn budget(&self, tier: Tier) -> Budget {
        Budget::new(tier.pick(30_000, 2_000_000), tier.pick(8, 16)).min_nontrivial(tier.pick(4_000, 200_000)).case_timeout(60)
    }
    fn rule(&self) -> String {
        "type-directed expression tree (depth<=3 quick, 4 thorough) over small-domain nullable columns, evaluated on the cross product of the referenced columns' domains (<=200 rows quick, sampled when larger), whole batch + evaluate_selection + filtered batch; \
         non-trivial = depth>=2, a NULL among the inputs, reference result not constant over the rows; distinct by case JSON"
            .into()
    }
    fn assumptions(&self) -> Vec<String> {
        vec![
            "the reference evaluator vf-expr/src/rexpr.rs defines SQL row semantics (three-valued logic, wrapping/checked integer arithmetic as BinaryExpr documents, checked / and %, lazy CASE)".into(),
            "rows whose result the statement does not pin down (float -0.0/NaN in equality contexts, float division by zero, implementation-defined cast rounding or text, regex dialect corners, non-ASCII ILIKE) are skipped, not compared".into(),
            "CAST float->int truncates toward zero".into(),
            "an engine error is accepted whenever some row of the batch must or may fail (right operands of AND/OR, later IN-list elements and later WHEN conditions may or may not be evaluated)".into(),
        ]
    }
    fn run(&self, case: &Case) -> CaseResult {
        crate::df::survey(run_case(case))
    }
}

fn run_case(case: &Case) -> CaseResult {
    {
        if case.cols.len() != egen::n_cols() || case.mask.is_empty() {
            return CaseResult::discard("malformed case");
        }
        let tys: Vec<Ty> = case.cols.iter().map(|c| c.ty).collect();
        let used = case.expr.columns();
        if used.iter().any(|i| *i as usize >= tys.len()) {
            return CaseResult::discard("malformed case: column index");
        }
        let table = build_table(&case.cols, &used, case.max_rows as usize, case.row_seed).repeat(case.repeat as usize, case.max_rows as usize);
        let schema = make_schema(&case.cols, &used, &case.shape);
        let batch = match make_batch(&case.cols, &table, &schema, &case.shape) {
            Ok(b) => b,
            Err(e) => return CaseResult::discard(format!("batch: {e}")),
        };
        let mut phys = match plan(&case.expr, &case.cols, &schema) {
            Ok(p) => p,
            Err(e) => return CaseResult::discard(format!("plan: {e}")).label(format!("plan-error-root:{}", case.expr.kind())),
        };
        if case.checked {
            phys = match make_checked(phys) {
                Ok(p) => p,
                Err(e) => return CaseResult::discard(format!("rebuild checked: {e}")),
            };
        }
        let refs = reference_rows(&case.expr, &tys, &table, case.checked);
        let all: Vec<usize> = (0..table.rows).collect();
        let mut labels = expr_labels(&case.expr, &tys);
        if case.checked {
            labels.insert("checked-arith".into());
        }
        if table.exhaustive {
            labels.insert("rows:exhaustive".into());
        }
        if table.rows <= 8 {
            labels.insert("rows:tiny-batch".into());
        }
        if refs.iter().any(|r| matches!(r.res, Err(Stop::Unspec(_)))) {
            labels.insert("rows:some-unspecified".into());
        }
        if refs.iter().any(|r| matches!(r.res, Err(Stop::Error(_)))) {
            labels.insert("rows:some-must-fail".into());
        }
        if refs.iter().any(|r| r.may_err) {
            labels.insert("rows:some-may-fail".into());
        }
        macro_rules! settle {
            ($cmp:expr) => {
                match $cmp {
                    Cmp::Agree { engine_failed } => engine_failed,
                    Cmp::Discard(why) => return CaseResult::discard(why).labels(labels),
                    Cmp::Violation(m) => return CaseResult::violation(format!("{m}\n  expr: {}\n  physical: {}", show(&case.expr), phys)).labels(labels),
                }
            };
        }
        // 1. whole batch
        let got = eval_array(&phys, &batch);
        let failed = settle!(compare("evaluate(batch)", &got, &refs, &all));
        if failed {
            labels.insert("engine-error-accepted".into());
            // rows that can not fail: evaluating just those must succeed and agree
            let keep: Vec<bool> = refs.iter().map(|r| r.res.is_ok() && !r.may_err).collect();
            let rows: Vec<usize> = all.iter().copied().filter(|r| keep[*r]).collect();
            if !rows.is_empty() {
                let sub = match filter_batch(&batch, &keep) {
                    Ok(b) => b,
                    Err(e) => return CaseResult::discard(format!("filter: {e}")),
                };
                let got = eval_array(&phys, &sub);
                settle!(compare("evaluate(rows that cannot fail)", &got, &refs, &rows));
                labels.insert("clean-rows-reevaluated".into());
            }
        }
        // 2. selection
        let m: Vec<u8> = (0..table.rows).map(|r| case.mask[r % case.mask.len()]).collect();
        let sel = BooleanArray::from(m.iter().map(|x| match x {
            0 => Some(false),
            1 => Some(true),
            _ => None,
        }).collect::<Vec<_>>());
        let selected: Vec<usize> = all.iter().copied().filter(|r| m[*r] == 1).collect();
        let got_sel = phys.evaluate_selection(&batch, &sel).and_then(|v| v.into_array(batch.num_rows()));
        match &got_sel {
            Ok(arr) => {
                if arr.len() != table.rows {
                    return CaseResult::violation(format!("evaluate_selection returned {} rows for a batch of {}\n  expr: {}", arr.len(), table.rows, show(&case.expr))).labels(labels);
                }
                // compare the selected rows only
                let keep: Vec<bool> = m.iter().map(|x| *x == 1).collect();
                let picked = match arrow::compute::filter(arr.as_ref(), &BooleanArray::from(keep)) {
                    Ok(a) => a,
                    Err(e) => return CaseResult::discard(format!("filter result: {e}")),
                };
                settle!(compare("evaluate_selection(batch, mask) on the selected rows", &Ok(picked), &refs, &selected));
            }
            Err(_) => {
                if settle!(compare("evaluate_selection(batch, mask)", &got_sel, &refs, &selected)) {
                    labels.insert("selection:engine-error-accepted".into());
                }
            }
        }
        let keep: Vec<bool> = m.iter().map(|x| *x == 1).collect();
        match filter_batch(&batch, &keep) {
            Ok(sub) => {
                let got = eval_array(&phys, &sub);
                settle!(compare("evaluate(filter(batch, mask))", &got, &refs, &selected));
            }
            Err(e) => return CaseResult::discard(format!("filter: {e}")),
        }
        if selected.is_empty() {
            labels.insert("selection:empty".into());
        } else if selected.len() == table.rows {
            labels.insert("selection:all".into());
        } else {
            labels.insert("selection:partial".into());
        }
        // non-trivial rule
        let has_null_input = table.cols.iter().any(|c| c.iter().any(|v| v.is_null()));
        let mut distinct_vals: Vec<&V> = vec![];
        for r in &refs {
            if let Ok(v) = &r.res {
                if !distinct_vals.iter().any(|d| same_value(d, v)) {
                    distinct_vals.push(v);
                }
            }
        }
        let nt = case.expr.depth() >= 2 && has_null_input && distinct_vals.len() >= 2;
        if has_null_input {
            labels.insert("has-null-input".into());
        }
        CaseResult::pass().nontrivial(nt).labels(labels)
    }
}
