//! C04 — expression simplification never changes an expression's value.
//!
//! Domain: the exactly-typed trees of `egen.rs` (depth ≤ 3 quick / 4 thorough) with `funcs: true`, i.e. everything
//! C33 generates (boolean connectives, comparisons incl. `expr <op> literal` and `literal <op> expr`, arithmetic,
//! IS [NOT] NULL/TRUE/FALSE/UNKNOWN/DISTINCT, BETWEEN, IN lists of 0–9 items with NULLs and duplicates, all CASE
//! forms, CAST/TRY_CAST so that cast-unwrapping fires, LIKE/ILIKE/SIMILAR TO with literal / column / NULL patterns)
//! plus regex operators with literal patterns, `starts_with`, `regexp_like`, `concat`, `upper`, `lower`, `substr`,
//! `abs`, `power`, `log`, `floor`, `coalesce`, `nullif`, `nvl`, `date_part('year'|'month', date)` compared with
//! literals (preimage rewrites). Columns are declared nullable or NOT NULL (then their data has no NULLs) —
//! several rewrites depend on it. Rows: cross product of the referenced columns' small domains, sampled to ≤ 200.
//! Modes per case: canonicalize on/off, `with_max_cycles(1..=4)`, 0–2 column guarantees (`NullableInterval::
//! NotNull{[lo,hi]}`, `MaybeNull{[lo,hi]}`, `Null`, bounds taken from the column's own domain, optionally
//! unbounded; the table is restricted to the rows that satisfy them), `PhysicalExprSimplifier` on the planned
//! original, and `simplify_predicates` on the conjuncts of a boolean root.
//!
//! Oracle (differential, DataFusion evaluates both sides): original and simplified expression are planned with
//! `create_physical_expr` and evaluated on the whole batch; if both succeed all rows are compared; if either
//! fails both are re-evaluated row by row on 1-row batches and the simplified expression must give the same value
//! on every row where the original gives one (a failure of the simplified expression there is a violation).
//! Equal = same NULL-ness and same value (floats bitwise, any NaN ≡ any NaN) and the same Arrow data type, both
//! statically (`data_type(schema)`) and of the produced array. `simplify_predicates` is only required to keep the
//! conjunction's *truth* (`IS TRUE`) per row, because it is documented as a filter-predicate reducer.
//! A simplifier error is a discard (clean rejection); a simplified expression that no longer plans is a violation.
//!
//! Non-trivial: the simplified expression differs structurally from the original, the original references a
//! column and at least one row was compared.
//!
//! Deviations from DESIGN.md: no timestamp column / `date_trunc`; guarantees only on integer, float, date and
//! decimal columns; rows where only the *batch* evaluation of the simplified expression fails (AND/OR do not
//! promise short-circuiting across rows of a batch) are compared row-wise instead and counted under the label
//! `simplified:batch-only-error`.
//!
//! Further soundness rules: (1) the evaluated ORIGINAL renders `coalesce`/`nvl` by their CASE definition (the
//! `coalesce` UDF refuses evaluation before simplification), the simplifier sees the function; type coercion
//! (`ExprSimplifier::coerce`) is applied first, as the optimizer does; (2) rows on which a float operand of a
//! comparison / IN / BETWEEN / simple CASE of the original is NaN are not compared (arrow orders NaNs by sign and
//! payload); (3) for `simplify_predicates` only rows on which every original conjunct evaluates on its own are
//! compared (the order of a filter's conjuncts is not significant); (4) `<constant> IN ()` is not generated.
//! Templates (`egen::templates`) supply the shapes the algebraic rules need (shared sub-terms, literal
//! neighbourhoods, IN-list algebra, negations, boolean CASE, `x*1`, `x*0`, …).
//!
//! Findings (each contradicts the statement; five are FIXED in /repo by now — guarantee-maybenull-single-value,
//! physical-unwrap-cast-regex-null, simplify-predicates-literal-left, boolean-case-loses-laziness, concat-all-null-args —
//! their cases are plain regressions and `known_shape` no longer knows their shapes; the others are open; /verif/known_findings.json, cases under
//! /verif/regressions/C04/c04/, candidate repairs /verif/fixes/C04-*.diff; shapes excluded by `known_shape`):
//! log-power-inverse, guarantee-maybenull-single-value, unwrap-try-cast, unwrap-cast-decimal-to-int,
//! physical-unwrap-cast-regex-null, inlist-algebra-null, simplify-predicates-literal-left,
//! boolean-case-loses-laziness, negative-scalar-checked-array-wrapping, concat-all-null-args.
//! Observed, not claimed: with guarantees the rewriter returns `Internal error: Interval arithmetic does not
//! support the operator %` for e.g. `c % 2 = 0` (a discard here); the boolean-CASE rewrite also fails whole
//! batches (`SELECT CASE WHEN x <> 0 THEN 10/x > 1 ELSE false END` → Divide by zero).
//!
//! Sensitivity probes (one mutrun build, /verif/probes/vf-expr/all-probes-env-guarded.diff, each mutation switched
//! on by VF_PROBE, `./check C04 quick`; unmutated run exit 0):
//! * m4 `A OR (A AND B)` → `A AND B` → VIOLATION after 1 312 cases;
//! * m5 `x IN ()` → TRUE (and NOT IN → FALSE) → VIOLATION after 296 cases;
//! * m7 `date_part('year', d) = y` preimage upper bound `y + 2` → VIOLATION after 2 518 cases;
//! * seeded defect /verif/seeded/C04-a (`unwrap_certainly_null_expr` looks through TRY_CAST, so a CASE guarding a failing
//!   TRY_CAST is reported non-nullable and `<case> IS NULL` folds to FALSE): first MISSED — the then signature
//!   `unwrap-try-cast` excluded every case holding a fallible TRY_CAST and no template wrapped a fallible-to-NULL CASE
//!   in a nullability-sensitive construct. After narrowing the signatures (a critical cast must be *exposed* to a
//!   comparison-like node; known_excluded 22 % → 14 %) and adding the nullability templates (`egen::templates`:
//!   IS [NOT] NULL / A = A / IS [NOT] DISTINCT FROM / A OR NOT A / A*0 around CASE over TRY_CAST, NULLIF, guarded
//!   division with null-rejecting guards): `mutrun seeded/C04-a/patch.diff -- ./check C04 quick` → VIOLATION after
//!   437 cases (`CASE WHEN c21 IS NOT NULL THEN TRY_CAST(c21 AS u64) ELSE lit END IS NULL`: TRUE vs FALSE).
//! * m6 `try_cast_literal_to_type`: Int8 upper bound 128 instead of 127 → NOT detected at quick tier (exit 0):
//!   weak spot — `CAST(i8_col AS wider) <op> 128` needs the literal 128 exactly; not re-probed for lack of time.
use crate::ast::*;
use crate::c33::{expr_labels, shape_strategy};
use crate::df::*;
use crate::egen::{self, G, GenCfg};
use arrow::array::{Array, ArrayRef};
use arrow::datatypes::SchemaRef;
use arrow::record_batch::RecordBatch;
use datafusion_common::{DFSchema, ScalarValue};
use datafusion_expr::execution_props::ExecutionProps;
use datafusion_expr::interval_arithmetic::{Interval, NullableInterval};
use datafusion_expr::physical_planning_context::PhysicalPlanningContext;
use datafusion_expr::simplify::SimplifyContext;
use datafusion_expr::{Expr, ExprSchemable};
use datafusion_optimizer::simplify_expressions::{ExprSimplifier, simplify_predicates};
use datafusion_physical_expr::{PhysicalExpr, PhysicalExprSimplifier, create_physical_expr};
use proptest::prelude::*;
use serde::{Deserialize, Serialize};
use std::collections::BTreeSet;
use std::sync::Arc;
use vf_kit::engine::*;

pub struct C04;

#[derive(Clone, Copy, Debug, PartialEq, Serialize, Deserialize)]
pub enum GKind {
    NotNull,
    MaybeNull,
    Null,
}

#[derive(Clone, Debug, Serialize, Deserialize)]
pub struct Guar {
    /// which of the referenced columns (monotone pick)
    pub col_pick: u16,
    pub kind: GKind,
    /// picks into the sorted non-null domain of the column
    pub lo: u16,
    pub hi: u16,
    pub unbounded_lo: bool,
    pub unbounded_hi: bool,
}

#[derive(Clone, Debug, Serialize, Deserialize)]
pub struct Mode {
    pub canonicalize: bool,
    pub max_cycles: u8,
    pub guarantees: Vec<Guar>,
    pub physical: bool,
    pub predicates: bool,
}

#[derive(Clone, Debug, Serialize, Deserialize)]
pub struct Case {
    pub cols: Vec<ColSpec>,
    pub expr: E,
    pub max_rows: u16,
    pub row_seed: u64,
    pub shape: BatchShape,
    pub mode: Mode,
}

fn sv_same(a: &ScalarValue, b: &ScalarValue) -> bool {
    match (a, b) {
        (ScalarValue::Float64(Some(x)), ScalarValue::Float64(Some(y))) => x.to_bits() == y.to_bits() || (x.is_nan() && y.is_nan()),
        (ScalarValue::Float32(Some(x)), ScalarValue::Float32(Some(y))) => x.to_bits() == y.to_bits() || (x.is_nan() && y.is_nan()),
        _ => a == b,
    }
}

fn plan_expr(e: &Expr, dfs: &DFSchema) -> Result<Arc<dyn PhysicalExpr>, String> {
    create_physical_expr(e, dfs, &ExecutionProps::new(), &PhysicalPlanningContext::default()).map_err(|e| truncate(&e.to_string(), 200))
}

#[derive(Default)]
struct Stat {
    rows_compared: usize,
    rowwise: bool,
    orig_error_rows: usize,
    batch_only_error: bool,
}

/// how two results are related: exact value + type, or only truth (`IS TRUE`)
#[derive(Clone, Copy, PartialEq)]
enum Rel {
    Exact,
    Truth,
}

fn is_true(v: &ScalarValue) -> bool {
    matches!(v, ScalarValue::Boolean(Some(true)))
}

fn compare_arrays(what: &str, a: &ArrayRef, b: &ArrayRef, rel: Rel, row_of: &dyn Fn(usize) -> usize) -> Result<usize, String> {
    if a.len() != b.len() {
        return Err(format!("{what}: original yields {} rows, simplified {}", a.len(), b.len()));
    }
    if rel == Rel::Exact && a.data_type() != b.data_type() {
        return Err(format!("{what}: original evaluates to an array of type {}, simplified to {}", a.data_type(), b.data_type()));
    }
    for i in 0..a.len() {
        let x = ScalarValue::try_from_array(a.as_ref(), i).map_err(|e| format!("harness: {e}"))?;
        let y = ScalarValue::try_from_array(b.as_ref(), i).map_err(|e| format!("harness: {e}"))?;
        let same = match rel {
            Rel::Exact => sv_same(&x, &y),
            Rel::Truth => is_true(&x) == is_true(&y),
        };
        if !same {
            return Err(format!("{what}: row {}: original = {x:?}, simplified = {y:?}", row_of(i)));
        }
    }
    Ok(a.len())
}

fn compare_exprs(what: &str, orig: &Arc<dyn PhysicalExpr>, simp: &Arc<dyn PhysicalExpr>, batch: &RecordBatch, rel: Rel, stat: &mut Stat) -> Result<(), String> {
    let o = eval_array(orig, batch);
    let s = eval_array(simp, batch);
    match (&o, &s) {
        (Ok(a), Ok(b)) => {
            stat.rows_compared += compare_arrays(what, a, b, rel, &|i| i)?;
            Ok(())
        }
        _ => {
            stat.rowwise = true;
            if o.is_ok() && s.is_err() {
                stat.batch_only_error = true;
            }
            for r in 0..batch.num_rows() {
                let one = batch.slice(r, 1);
                let a = match eval_array(orig, &one) {
                    Ok(a) => a,
                    Err(_) => {
                        stat.orig_error_rows += 1;
                        continue;
                    }
                };
                match eval_array(simp, &one) {
                    Ok(b) => {
                        stat.batch_only_error = stat.batch_only_error && true;
                        stat.rows_compared += compare_arrays(what, &a, &b, rel, &|_| r)?;
                    }
                    Err(e) => {
                        let x = ScalarValue::try_from_array(a.as_ref(), 0).ok();
                        return Err(format!("{what}: row {r}: original = {x:?} but the simplified expression fails: {}", truncate(&e.to_string(), 300)));
                    }
                }
            }
            Ok(())
        }
    }
}

fn guarantee_interval(ty: Ty, lo: Option<&V>, hi: Option<&V>) -> Option<Interval> {
    let l = scalar(ty, lo.unwrap_or(&V::Null));
    let h = scalar(ty, hi.unwrap_or(&V::Null));
    Interval::try_new(l, h).ok()
}

fn guarantee_ok_type(ty: Ty) -> bool {
    ty.is_int() || ty.is_float() || ty == Ty::Date32 || ty == Ty::Dec
}

fn value_le(a: &V, b: &V) -> bool {
    match (a, b) {
        (V::I(x), V::I(y)) => x <= y,
        (V::F(x), V::F(y)) => x <= y,
        (V::B(x), V::B(y)) => x <= y,
        (V::S(x), V::S(y)) => x <= y,
        _ => false,
    }
}

struct ResolvedGuar {
    col: u8,
    kind: GKind,
    lo: Option<V>,
    hi: Option<V>,
}

impl ResolvedGuar {
    fn admits(&self, v: &V) -> bool {
        if v.is_null() {
            return self.kind != GKind::NotNull;
        }
        if self.kind == GKind::Null {
            return false;
        }
        self.lo.as_ref().map(|l| value_le(l, v)).unwrap_or(true) && self.hi.as_ref().map(|h| value_le(v, h)).unwrap_or(true)
    }
}

fn resolve_guarantees(case: &Case, used: &[u8]) -> Vec<ResolvedGuar> {
    let mut out: Vec<ResolvedGuar> = vec![];
    if used.is_empty() {
        return out;
    }
    for g in &case.mode.guarantees {
        let col = used[pick_index(g.col_pick, used.len())];
        if out.iter().any(|r| r.col == col) {
            continue;
        }
        let spec = &case.cols[col as usize];
        if !guarantee_ok_type(spec.ty) {
            continue;
        }
        let mut dom: Vec<V> = spec.domain().into_iter().filter(|v| !v.is_null()).collect();
        dom.sort_by(|a, b| if value_le(a, b) { if value_le(b, a) { std::cmp::Ordering::Equal } else { std::cmp::Ordering::Less } } else { std::cmp::Ordering::Greater });
        let mut kind = g.kind;
        if dom.is_empty() {
            kind = GKind::Null;
        }
        if kind == GKind::Null && !spec.nullable {
            continue;
        }
        let (lo, hi) = if kind == GKind::Null {
            (None, None)
        } else {
            let a = pick_index(g.lo, dom.len());
            let b = pick_index(g.hi, dom.len());
            let (a, b) = (a.min(b), a.max(b));
            (if g.unbounded_lo { None } else { Some(dom[a].clone()) }, if g.unbounded_hi { None } else { Some(dom[b].clone()) })
        };
        out.push(ResolvedGuar { col, kind, lo, hi });
    }
    out
}

/// Shapes of open findings (see /verif/known_findings.json): the generated search continues behind them.
fn known_shape(case: &Case) -> Option<String> {
    let e = &case.expr;
    let mut sig: Option<String> = None;
    let used = e.columns();
    if used.iter().any(|i| (*i as usize) >= case.cols.len()) {
        return None;
    }
    // two IN lists over the same needle where the needle may be NULL or a list holds a NULL item: IN-list
    // intersection / union / except fold to constants ignoring NULLs
    {
        let mut lists: Vec<(&E, bool)> = vec![];
        e.visit(&mut |n| {
            if let E::InList { e, list, .. } = n {
                let needle_not_null = match e.as_ref() {
                    E::Col(i) => !case.cols[*i as usize].nullable,
                    E::Lit(_, v) => !v.is_null(),
                    _ => false,
                };
                lists.push((e.as_ref(), !needle_not_null || list.iter().any(|x| !matches!(x, E::Lit(_, v) if !v.is_null()))));
            }
        });
        for (i, (a, an)) in lists.iter().enumerate() {
            for (b, bn) in lists.iter().skip(i + 1) {
                if a == b && (*an || *bn) {
                    return Some("inlist-algebra-null".to_string());
                }
            }
        }
    }
    // Cast unwrapping: a comparison-like node (comparison, IS [NOT] DISTINCT FROM, IN needle, BETWEEN subject) one of
    // whose operands *exposes* a critical cast — the cast itself, or the cast under wrappers that rewrites strip or
    // push comparisons through (further casts, arithmetic with a literal, coalesce/nvl/nullif, CASE branches, unary minus).
    {
        let tys: Vec<Ty> = case.cols.iter().map(|c| c.ty).collect();
        let fallible_try = |x: &E| match x {
            E::Cast { try_: true, e: inner, to } => {
                let from = ty_of(inner, &|i| tys[i as usize]);
                !(to.is_str()
                    || (from == Ty::Bool && to.is_int())
                    || (from.is_int() && to.is_float())
                    || (from == Ty::F32 && *to == Ty::F64)
                    || match (from.int_range(), to.int_range()) {
                        (Some((a, b)), Some((c, d))) => c <= a && b <= d,
                        _ => false,
                    })
            }
            _ => false,
        };
        let dec_to_int = |x: &E| match x {
            E::Cast { e, to, .. } => to.is_int() && ty_of(e, &|i| tys[i as usize]) == Ty::Dec,
            _ => false,
        };
        fn exposes(x: &E, crit: &dyn Fn(&E) -> bool) -> bool {
            if crit(x) {
                return true;
            }
            match x {
                E::Cast { e, .. } | E::Neg(e) => exposes(e, crit),
                E::Bin(op, l, r) if op.is_arith() => (matches!(**r, E::Lit(..)) && exposes(l, crit)) || (matches!(**l, E::Lit(..)) && exposes(r, crit)),
                E::Func(Fun::Coalesce | Fun::Nvl | Fun::NullIf, args) => args.iter().any(|a| exposes(a, crit)),
                E::Case { whens, els, .. } => whens.iter().any(|(_, t)| exposes(t, crit)) || els.as_deref().map(|x| exposes(x, crit)).unwrap_or(false),
                _ => false,
            }
        }
        let mut dec = false;
        let mut tc = false;
        e.visit(&mut |n| {
            let operands: Vec<&E> = match n {
                E::Bin(op, l, r) if op.is_cmp() || matches!(op, Op::Distinct | Op::NotDistinct) => vec![l, r],
                E::InList { e, .. } | E::Between { e, .. } => vec![e],
                // `CASE base WHEN ..` compares the base with the WHEN values
                E::Case { base: Some(b), .. } => vec![b],
                _ => vec![],
            };
            for o in operands {
                dec |= exposes(o, &dec_to_int);
                tc |= exposes(o, &fallible_try);
            }
        });
        if dec {
            return Some("unwrap-cast-decimal-to-int".to_string());
        }
        if tc {
            return Some("unwrap-try-cast".to_string());
        }
    }
    // unary minus of a signed integer together with a guarantee (a column pinned to MIN becomes a literal; NegativeExpr
    // wraps for arrays but fails for scalars)
    if resolve_guarantees(case, &used).iter().any(|g| g.kind == GKind::NotNull && g.lo.is_some() && g.lo == g.hi) {
        let tys: Vec<Ty> = case.cols.iter().map(|c| c.ty).collect();
        e.visit(&mut |n| {
            if let E::Neg(x) = n {
                if ty_of(x, &|i| tys[i as usize]).is_signed_int() && sig.is_none() {
                    sig = Some("negative-scalar-checked-array-wrapping".to_string());
                }
            }
        });
        if sig.is_some() {
            return sig;
        }
    }
    // power(b, log(b, x)) / log(b, power(b, x))
    e.visit(&mut |n| {
        if let E::Func(f, args) = n {
            if args.len() == 2 {
                if let E::Func(g, inner) = &args[1] {
                    let inverse = matches!((f, g), (Fun::Power, Fun::Log) | (Fun::Log, Fun::Power));
                    if inverse && inner.len() == 2 && inner[0] == args[0] && sig.is_none() {
                        sig = Some("log-power-inverse".to_string());
                    }
                }
            }
        }
    });
    sig
}

impl Property for C04 {
    type Case = Case;
    fn id(&self) -> &'static str {
        "C04"
    }
    fn sub(&self) -> &'static str {
        "c04"
    }
    fn strategy(&self, tier: Tier) -> BoxedStrategy<Case> {
        let g = G::new(GenCfg { funcs: true, max_depth: tier.pick(3, 4), inlist_sizes: vec![0, 1, 1, 2, 2, 3, 3, 4, 5, 9] });
        let max_rows = tier.pick(200u16, 400u16);
        let guar = (any::<u16>(), prop_oneof![3 => Just(GKind::NotNull), 2 => Just(GKind::MaybeNull), 1 => Just(GKind::Null)], any::<u16>(), any::<u16>(), prop::bool::weighted(0.2), prop::bool::weighted(0.2))
            .prop_map(|(col_pick, kind, lo, hi, unbounded_lo, unbounded_hi)| Guar { col_pick, kind, lo, hi, unbounded_lo, unbounded_hi });
        let guars = prop_oneof![3 => Just(vec![]), 2 => prop::collection::vec(guar, 1..=2)];
        let mode = (prop::bool::weighted(0.75), prop_oneof![3 => Just(3u8), 1 => 1u8..=4], guars, prop::bool::weighted(0.5), prop::bool::weighted(0.5))
            .prop_map(|(canonicalize, max_cycles, guarantees, physical, predicates)| Mode { canonicalize, max_cycles, guarantees, physical, predicates });
        let rows = prop_oneof![4 => Just(max_rows), 1 => 1u16..=8];
        (egen::all_cols(), g.root(), rows, any::<u64>(), shape_strategy(), mode)
            .prop_map(|(mut cols, expr, max_rows, row_seed, shape, mode)| {
                egen::prune_cols(&mut cols, &expr.columns());
                Case { cols, expr, max_rows, row_seed, shape, mode }
            })
            .boxed()
    }
    fn budget(&self, tier: Tier) -> Budget {
        Budget::new(tier.pick(16_000, 800_000), tier.pick(8, 16)).min_nontrivial(tier.pick(2_000, 80_000)).case_timeout(60)
    }
    fn rule(&self) -> String {
        "type-directed expression tree with functions (depth<=3 quick, 4 thorough) over small-domain columns (nullable or NOT NULL), simplified by ExprSimplifier (canonicalize on/off, max_cycles 1-4, 0-2 guarantees), PhysicalExprSimplifier and simplify_predicates; both sides evaluated by DataFusion on <=200 rows (cross product of domains, restricted to rows satisfying the guarantees); \
         non-trivial = simplified differs structurally from the original, the original references a column, >=1 row compared; distinct by case JSON"
            .into()
    }
    fn assumptions(&self) -> Vec<String> {
        vec![
            "DataFusion's own evaluation of the ORIGINAL expression is the reference (its correctness is C33's subject)".into(),
            "a row counts as 'the original evaluates without error' when evaluating the original on that row alone (1-row batch) succeeds".into(),
            "simplify_predicates is only required to preserve the truth (IS TRUE) of the conjunction".into(),
            "an error returned by the simplifier itself is a clean rejection (discard), not a changed value".into(),
        ]
    }
    fn known_signature(&self, case: &Case) -> Option<String> {
        if case.cols.len() != egen::n_cols() {
            return None;
        }
        known_shape(case)
    }
    fn run(&self, case: &Case) -> CaseResult {
        crate::df::survey(run_case(case))
    }
}

fn run_case(case: &Case) -> CaseResult {
    {
        if case.cols.len() != egen::n_cols() {
            return CaseResult::discard("malformed case");
        }
        let tys: Vec<Ty> = case.cols.iter().map(|c| c.ty).collect();
        let used = case.expr.columns();
        if used.iter().any(|i| *i as usize >= tys.len()) {
            return CaseResult::discard("malformed case: column index");
        }
        let mut labels: BTreeSet<String> = expr_labels(&case.expr, &tys);
        let full = build_table(&case.cols, &used, case.max_rows as usize, case.row_seed);
        let schema: SchemaRef = make_schema(&case.cols, &used, &case.shape);
        let dfs = match df_schema(&schema) {
            Ok(d) => d,
            Err(e) => return CaseResult::discard(format!("schema: {e}")),
        };
        // the optimizer runs type coercion before simplification: function arguments get the casts their
        // signatures ask for (the trees are exactly typed otherwise, so little else changes)
        let uncoerced = to_expr(&case.expr, &case.cols);
        let coercer = ExprSimplifier::new(SimplifyContext::builder().with_schema(Arc::new(dfs.clone())).build());
        let orig = match coercer.coerce(uncoerced, &dfs) {
            Ok(e) => e,
            Err(e) => return CaseResult::discard(format!("coerce: {}", truncate(&e.to_string(), 60))).label(format!("coerce-error-root:{}", case.expr.kind())),
        };
        let has_coalesce = {
            let mut f = false;
            case.expr.visit(&mut |n| f |= matches!(n, E::Func(Fun::Coalesce | Fun::Nvl, _)));
            f
        };
        let orig_eval = if has_coalesce {
            match coercer.coerce(to_expr_opt(&case.expr, &case.cols, true), &dfs) {
                Ok(e) => e,
                Err(e) => return CaseResult::discard(format!("coerce: {}", truncate(&e.to_string(), 60))),
            }
        } else {
            orig.clone()
        };
        let orig_phys = match plan_expr(&orig_eval, &dfs) {
            Ok(p) => p,
            Err(e) => return CaseResult::discard(format!("plan: {}", truncate(&e, 100))).label(format!("plan-error-root:{}", case.expr.kind())),
        };
        let orig_type = match orig.get_type(&dfs) {
            Ok(t) => t,
            Err(e) => return CaseResult::discard(format!("type: {}", truncate(&e.to_string(), 100))),
        };
        let full_batch = match make_batch(&case.cols, &full, &schema, &case.shape) {
            Ok(b) => b,
            Err(e) => return CaseResult::discard(format!("batch: {e}")),
        };
        // NaN hygiene: arrow orders and equates NaNs by sign and payload, which no rewrite promises to keep. Rows on
        // which a float operand of a comparison / IN / BETWEEN / simple CASE of the ORIGINAL is NaN are not compared.
        let (full, full_batch) = {
            let mut operands: Vec<&E> = vec![];
            case.expr.visit(&mut |n| {
                let is_f = |x: &E| ty_of(x, &|i| tys[i as usize]).is_float();
                match n {
                    E::Bin(op, l, r) if (op.is_cmp() || matches!(op, Op::Distinct | Op::NotDistinct)) && is_f(l) => {
                        operands.push(l);
                        operands.push(r);
                    }
                    E::InList { e, list, .. } if is_f(e) => {
                        operands.push(e);
                        operands.extend(list.iter());
                    }
                    E::Between { e, lo, hi, .. } if is_f(e) => operands.extend([e.as_ref(), lo.as_ref(), hi.as_ref()]),
                    E::Case { base: Some(b), whens, .. } if is_f(b) => {
                        operands.push(b);
                        operands.extend(whens.iter().map(|(w, _)| w));
                    }
                    _ => {}
                }
            });
            operands.retain(|o| !matches!(o, E::Lit(..) | E::Col(_)));
            let mut keep = vec![true; full.rows];
            for o in operands {
                let Ok(ex) = coercer.coerce(to_expr_opt(o, &case.cols, true), &dfs) else { continue };
                let Ok(p) = plan_expr(&ex, &dfs) else { continue };
                let mark = |arr: &ArrayRef, base: usize, keep: &mut Vec<bool>| {
                    for i in 0..arr.len() {
                        if let Ok(ScalarValue::Float64(Some(v))) = ScalarValue::try_from_array(arr.as_ref(), i) {
                            if v.is_nan() {
                                keep[base + i] = false;
                            }
                        } else if let Ok(ScalarValue::Float32(Some(v))) = ScalarValue::try_from_array(arr.as_ref(), i) {
                            if v.is_nan() {
                                keep[base + i] = false;
                            }
                        }
                    }
                };
                match eval_array(&p, &full_batch) {
                    Ok(arr) => mark(&arr, 0, &mut keep),
                    Err(_) => {
                        for r in 0..full.rows {
                            if let Ok(arr) = eval_array(&p, &full_batch.slice(r, 1)) {
                                mark(&arr, r, &mut keep);
                            }
                        }
                    }
                }
            }
            if keep.iter().all(|k| *k) {
                (full, full_batch)
            } else {
                labels.insert("rows:nan-in-comparison-excluded".into());
                let t = full.filter_rows(&keep);
                match make_batch(&case.cols, &t, &schema, &case.shape) {
                    Ok(b) => (t, b),
                    Err(e) => return CaseResult::discard(format!("batch: {e}")),
                }
            }
        };
        let has_col = !used.is_empty();
        let mut changed_any = false;
        let mut compared_any = false;
        let fail = |m: String, labels: BTreeSet<String>, simp: &dyn std::fmt::Display| CaseResult::violation(format!("{m}\n  original:   {}\n  simplified: {}", show(&case.expr), simp)).labels(labels);

        // ---- A. logical simplifier
        let guars = resolve_guarantees(case, &used);
        let mut g_exprs: Vec<(Expr, NullableInterval)> = vec![];
        for g in &guars {
            let spec = &case.cols[g.col as usize];
            let col = to_expr(&E::Col(g.col), &case.cols);
            let ni = match g.kind {
                GKind::Null => NullableInterval::Null { datatype: arrow_type(spec.ty) },
                k => {
                    let Some(iv) = guarantee_interval(spec.ty, g.lo.as_ref(), g.hi.as_ref()) else {
                        labels.insert("guarantee:interval-rejected".into());
                        continue;
                    };
                    if k == GKind::NotNull { NullableInterval::NotNull { values: iv } } else { NullableInterval::MaybeNull { values: iv } }
                }
            };
            labels.insert(format!("guarantee:{:?}", g.kind));
            g_exprs.push((col, ni));
        }
        if guars.iter().any(|g| g.kind == GKind::Null) {
            let mut empty_in = false;
            case.expr.visit(&mut |n| empty_in |= matches!(n, E::InList { list, .. } if list.is_empty()));
            if empty_in {
                // a column guaranteed NULL becomes a NULL literal; `NULL IN ()` has no SQL meaning (see egen.rs)
                return CaseResult::discard("empty IN list under a NULL guarantee").labels(labels);
            }
        }
        let (table_a, batch_a) = if guars.is_empty() {
            (None, full_batch.clone())
        } else {
            let keep: Vec<bool> = (0..full.rows).map(|r| guars.iter().all(|g| g.admits(&full.cols[full.used.iter().position(|u| *u == g.col).unwrap()][r]))).collect();
            let t = full.filter_rows(&keep);
            let b = match make_batch(&case.cols, &t, &schema, &case.shape) {
                Ok(b) => b,
                Err(e) => return CaseResult::discard(format!("batch: {e}")),
            };
            (Some(t), b)
        };
        let _ = table_a;
        let ctx = SimplifyContext::builder().with_schema(Arc::new(dfs.clone())).build();
        let simplifier = ExprSimplifier::new(ctx).with_canonicalize(case.mode.canonicalize).with_max_cycles(case.mode.max_cycles.clamp(1, 8) as u32).with_guarantees(g_exprs);
        labels.insert(format!("mode:canonicalize={}", case.mode.canonicalize));
        labels.insert(format!("mode:max_cycles={}", case.mode.max_cycles));
        match simplifier.simplify(orig.clone()) {
            Err(e) => {
                labels.insert("simplify:error".into());
                return CaseResult::discard(format!("simplifier error: {}", truncate(&e.to_string(), 60))).labels(labels);
            }
            Ok(simp) => {
                if simp != orig {
                    changed_any = true;
                    labels.insert("simplified:changed".into());
                    if matches!(simp, Expr::Literal(..)) {
                        labels.insert("simplified:to-literal".into());
                    }
                } else {
                    labels.insert("simplified:unchanged".into());
                }
                let simp_phys = match plan_expr(&simp, &dfs) {
                    Ok(p) => p,
                    Err(e) => return fail(format!("the simplified expression does not plan: {e}"), labels, &simp),
                };
                match simp.get_type(&dfs) {
                    Ok(t) if t == orig_type => {}
                    Ok(t) => return fail(format!("data type changed: original {orig_type}, simplified {t}"), labels, &simp),
                    Err(e) => return fail(format!("the simplified expression has no type: {e}"), labels, &simp),
                }
                if batch_a.num_rows() > 0 {
                    let mut stat = Stat::default();
                    if let Err(m) = compare_exprs("ExprSimplifier", &orig_phys, &simp_phys, &batch_a, Rel::Exact, &mut stat) {
                        if m.starts_with("harness:") {
                            return CaseResult::discard(m).labels(labels);
                        }
                        return fail(m, labels, &simp);
                    }
                    compared_any |= stat.rows_compared > 0;
                    if stat.rowwise {
                        labels.insert("rowwise-fallback".into());
                    }
                    if stat.orig_error_rows > 0 {
                        labels.insert("rows:original-fails".into());
                    }
                    if stat.batch_only_error {
                        labels.insert("simplified:batch-only-error".into());
                    }
                } else {
                    labels.insert("guarantee:no-row-satisfies".into());
                }
            }
        }

        // ---- B. physical simplifier (no guarantees: the whole table)
        if case.mode.physical {
            labels.insert("mode:physical".into());
            match PhysicalExprSimplifier::new(schema.as_ref()).simplify(Arc::clone(&orig_phys)) {
                Err(e) => {
                    labels.insert("physical-simplify:error".into());
                    return CaseResult::discard(format!("physical simplifier error: {}", truncate(&e.to_string(), 60))).labels(labels);
                }
                Ok(simp) => {
                    if !simp.eq(&orig_phys) {
                        changed_any = true;
                        labels.insert("physical-simplified:changed".into());
                    }
                    match (orig_phys.data_type(schema.as_ref()), simp.data_type(schema.as_ref())) {
                        (Ok(a), Ok(b)) if a == b => {}
                        (a, b) => return fail(format!("physical simplifier: data type changed: original {a:?}, simplified {b:?}"), labels, &simp),
                    }
                    let mut stat = Stat::default();
                    if let Err(m) = compare_exprs("PhysicalExprSimplifier", &orig_phys, &simp, &full_batch, Rel::Exact, &mut stat) {
                        if m.starts_with("harness:") {
                            return CaseResult::discard(m).labels(labels);
                        }
                        return fail(m, labels, &simp);
                    }
                    compared_any |= stat.rows_compared > 0;
                }
            }
        }

        // ---- C. simplify_predicates on the conjuncts of a boolean root
        if case.mode.predicates && orig_type == arrow::datatypes::DataType::Boolean {
            // (the evaluable form: `coalesce` cannot be evaluated before ExprSimplifier has rewritten it)
            let parts = datafusion_expr::utils::split_conjunction_owned(orig_eval.clone());
            if parts.len() >= 2 {
                labels.insert("mode:simplify_predicates".into());
                match simplify_predicates(parts.clone()) {
                    Err(e) => {
                        labels.insert("simplify_predicates:error".into());
                        return CaseResult::discard(format!("simplify_predicates error: {}", truncate(&e.to_string(), 60))).labels(labels);
                    }
                    Ok(out) => {
                        if out != parts {
                            changed_any = true;
                            labels.insert("simplify_predicates:changed".into());
                        }
                        let joined = datafusion_expr::utils::conjunction(out).unwrap_or_else(|| datafusion_expr::lit(true));
                        let p = match plan_expr(&joined, &dfs) {
                            Ok(p) => p,
                            Err(e) => return fail(format!("simplify_predicates: result does not plan: {e}"), labels, &joined),
                        };
                        // the order of the conjuncts of a filter is not significant (AND does not promise short-circuiting):
                        // only rows on which every original conjunct evaluates on its own are compared
                        let eval_parts = datafusion_expr::utils::split_conjunction_owned(orig_eval.clone());
                        let mut keep = vec![true; full_batch.num_rows()];
                        for part in &eval_parts {
                            let Ok(pp) = plan_expr(part, &dfs) else { continue };
                            if eval_array(&pp, &full_batch).is_ok() {
                                continue;
                            }
                            for r in 0..full_batch.num_rows() {
                                if keep[r] && eval_array(&pp, &full_batch.slice(r, 1)).is_err() {
                                    keep[r] = false;
                                }
                            }
                        }
                        let pred_batch = if keep.iter().all(|k| *k) {
                            full_batch.clone()
                        } else {
                            match crate::c33::filter_batch(&full_batch, &keep) {
                                Ok(b) => b,
                                Err(e) => return CaseResult::discard(format!("filter: {e}")).labels(labels),
                            }
                        };
                        let mut stat = Stat::default();
                        if let Err(m) = compare_exprs("simplify_predicates", &orig_phys, &p, &pred_batch, Rel::Truth, &mut stat) {
                            if m.starts_with("harness:") {
                                return CaseResult::discard(m).labels(labels);
                            }
                            return fail(m, labels, &joined);
                        }
                        compared_any |= stat.rows_compared > 0;
                    }
                }
            }
        }
        CaseResult::pass().nontrivial(changed_any && has_col && compared_any).labels(labels)
    }
}
