//! `rexpr` — an INDEPENDENT row-level reference evaluator for the expression AST of `ast.rs`
//! (DESIGN.md §3.3). It shares no code with DataFusion / arrow: values are `ast::V`, evaluation is a
//! plain recursive interpreter over ONE row, written from the SQL definition of each construct.
//! Meant to be reused by other checks (C22, C39, C47 …): `eval(&expr, &Env{..}, &mut St::default())`.
//!
//! # What a row evaluates to
//! `Ok(v)`                      — SQL defines the value `v` (NULL included) for this row;
//! `Err(Stop::Error(_))`        — SQL evaluation of this row *must* fail (division by zero, CAST overflow, checked
//!                                 integer overflow, unparsable string …) under *lazy* evaluation (see below);
//! `Err(Stop::Unspec(_))`       — the construct's result on this row is not pinned down by the property statement /
//!                                 SQL (implementation-defined rounding, float −0.0 or NaN in an equality context,
//!                                 non-canonical text for string→number casts, non-ASCII ILIKE, regex dialect
//!                                 corners, float division by zero, MIN % −1, −MIN …). Callers must skip such rows.
//! Besides, `St::may_err` is set when some sub-expression that an engine *may or may not* evaluate on this row
//! (right operand of AND/OR when the left operand already decides, IN-list elements after the first match, WHEN
//! conditions after the one that matched) would fail or is unspecified: an engine error on a batch containing
//! such a row is acceptable, a value is acceptable too. THEN/ELSE branches that the row does not select never
//! contribute (C33: "a CASE never raises an error from a branch that no row selects").
//!
//! # Semantics implemented
//! * three-valued logic (Kleene AND/OR, NOT, IS [NOT] NULL/TRUE/FALSE/UNKNOWN, IS [NOT] DISTINCT FROM);
//! * comparisons on identical operand types (integers, floats, strings by code point, bool false<true, dates,
//!   decimals of equal scale); ±0.0 against ∓0.0 is `Unspec`;
//! * integer `+ − ×`: two's-complement wrapping in the operand type (default) or error on overflow
//!   (`Env::checked`), exactly the two modes `BinaryExpr` documents; `/` and `%` always checked: division by
//!   zero and `MIN / −1` are errors, quotient truncates toward zero, remainder has the dividend's sign;
//!   `MIN % −1` is `Unspec`; float arithmetic is IEEE in the operand width, division by zero and non-finite
//!   results are `Unspec` (so NaN never flows); `date − date` is the day difference (Int64); unary minus of
//!   the minimum integer is `Unspec`;
//! * `[NOT] BETWEEN` ≡ `e >= lo AND e <= hi`; `[NOT] IN (list)` with SQL NULL rules (`x IN ()` is false);
//! * CASE, both forms, evaluated lazily in order; a NULL base matches no WHEN;
//! * LIKE / ILIKE with `%`, `_` and backslash escape (own matcher; dangling or non-special escapes are `Unspec`);
//! * SIMILAR TO: own parser + backtracking matcher for the dialect subset `% _ | * + ? ( ) [..] [^..]` with
//!   literal characters (everything else is `Unspec`), whole-string match;
//! * CAST / TRY_CAST among bool / ints / floats / strings / date32 / decimal(10,2) with range detection
//!   (TRY_CAST turns an error into NULL); float→int truncates toward zero (assumption: this is what DataFusion
//!   documents for CAST); conversions whose rounding or text format is implementation-defined are `Unspec`.
use crate::ast::*;
use std::cmp::Ordering;

#[derive(Clone, Debug, PartialEq)]
pub enum Stop {
    Error(String),
    Unspec(String),
}

pub struct Env<'a> {
    /// type of column i
    pub tys: &'a [Ty],
    /// value of column i on this row
    pub row: &'a [V],
    /// integer + − × fail on overflow instead of wrapping
    pub checked: bool,
}

#[derive(Default, Clone, Debug)]
pub struct St {
    pub may_err: bool,
}

fn err<T>(s: impl Into<String>) -> Result<T, Stop> {
    Err(Stop::Error(s.into()))
}
fn unspec<T>(s: impl Into<String>) -> Result<T, Stop> {
    Err(Stop::Unspec(s.into()))
}

pub fn type_of(e: &E, env: &Env) -> Ty {
    ty_of(e, &|i| env.tys[i as usize])
}

/// evaluate a sub-expression the engine may or may not evaluate on this row
fn speculative(e: &E, env: &Env, st: &mut St) {
    let mut s2 = St::default();
    match eval(e, env, &mut s2) {
        Ok(_) => {
            if s2.may_err {
                st.may_err = true
            }
        }
        Err(_) => st.may_err = true,
    }
}

pub fn eval(e: &E, env: &Env, st: &mut St) -> Result<V, Stop> {
    match e {
        E::Col(i) => Ok(env.row[*i as usize].clone()),
        E::Lit(_, v) => Ok(v.clone()),
        E::Bin(op, l, r) => match op {
            Op::And | Op::Or => {
                let is_and = *op == Op::And;
                let a = eval(l, env, st)?;
                let decides = matches!((&a, is_and), (V::B(false), true) | (V::B(true), false));
                if decides {
                    speculative(r, env, st);
                    return Ok(a);
                }
                let b = eval(r, env, st)?;
                Ok(kleene(is_and, &a, &b))
            }
            Op::Distinct | Op::NotDistinct => {
                let t = type_of(l, env);
                let a = eval(l, env, st)?;
                let b = eval(r, env, st)?;
                let same = match (a.is_null(), b.is_null()) {
                    (true, true) => true,
                    (true, false) | (false, true) => false,
                    _ => cmp_vals(t, &a, &b)? == Ordering::Equal,
                };
                Ok(V::B(if *op == Op::Distinct { !same } else { same }))
            }
            Op::Eq | Op::Ne | Op::Lt | Op::Le | Op::Gt | Op::Ge => {
                let t = type_of(l, env);
                let a = eval(l, env, st)?;
                let b = eval(r, env, st)?;
                if a.is_null() || b.is_null() {
                    return Ok(V::Null);
                }
                let o = cmp_vals(t, &a, &b)?;
                Ok(V::B(match op {
                    Op::Eq => o == Ordering::Equal,
                    Op::Ne => o != Ordering::Equal,
                    Op::Lt => o == Ordering::Less,
                    Op::Le => o != Ordering::Greater,
                    Op::Gt => o == Ordering::Greater,
                    _ => o != Ordering::Less,
                }))
            }
            Op::Add | Op::Sub | Op::Mul | Op::Div | Op::Mod => {
                let t = type_of(l, env);
                let a = eval(l, env, st)?;
                let b = eval(r, env, st)?;
                arith(*op, t, &a, &b, env.checked)
            }
            Op::RMatch | Op::RIMatch | Op::RNotMatch | Op::RNotIMatch => unspec("regex operators are outside the reference"),
        },
        E::Not(x) => Ok(match eval(x, env, st)? {
            V::Null => V::Null,
            V::B(b) => V::B(!b),
            other => return unspec(format!("NOT of non-boolean {other:?}")),
        }),
        E::Neg(x) => {
            let t = type_of(x, env);
            match eval(x, env, st)? {
                V::Null => Ok(V::Null),
                V::I(i) => {
                    if t == Ty::Dec {
                        return Ok(V::I(-i));
                    }
                    match t.int_range() {
                        Some((min, _)) if t.is_signed_int() => {
                            if i == min {
                                unspec("negation of the minimum integer")
                            } else {
                                Ok(V::I(-i))
                            }
                        }
                        _ => unspec("negation of an unsigned / non-numeric"),
                    }
                }
                V::F(f) => Ok(V::F(-f)),
                other => unspec(format!("negation of {other:?}")),
            }
        }
        E::Is(k, x) => {
            let v = eval(x, env, st)?;
            Ok(V::B(match k {
                IsKind::Null | IsKind::Unknown => v.is_null(),
                IsKind::NotNull | IsKind::NotUnknown => !v.is_null(),
                IsKind::True => v == V::B(true),
                IsKind::NotTrue => v != V::B(true),
                IsKind::False => v == V::B(false),
                IsKind::NotFalse => v != V::B(false),
            }))
        }
        E::Between { neg, e, lo, hi } => {
            let inner = E::bin(Op::And, E::bin(Op::Ge, (**e).clone(), (**lo).clone()), E::bin(Op::Le, (**e).clone(), (**hi).clone()));
            let v = eval(&inner, env, st)?;
            Ok(if *neg {
                match v {
                    V::B(b) => V::B(!b),
                    o => o,
                }
            } else {
                v
            })
        }
        E::InList { neg, e, list } => {
            let t = type_of(e, env);
            let needle = eval(e, env, st)?;
            if list.is_empty() {
                return Ok(V::B(*neg));
            }
            let mut found = false;
            let mut saw_null = false;
            for item in list {
                if found {
                    speculative(item, env, st);
                    continue;
                }
                let v = eval(item, env, st)?;
                if v.is_null() {
                    saw_null = true;
                } else if !needle.is_null() && cmp_vals(t, &needle, &v)? == Ordering::Equal {
                    found = true;
                }
            }
            Ok(if needle.is_null() {
                V::Null
            } else if found {
                V::B(!*neg)
            } else if saw_null {
                V::Null
            } else {
                V::B(*neg)
            })
        }
        E::Case { base, whens, els } => {
            let mut selected: Option<&E> = None;
            let mut matched = false;
            match base {
                None => {
                    for (w, t) in whens {
                        if matched {
                            speculative(w, env, st);
                            continue;
                        }
                        if eval(w, env, st)? == V::B(true) {
                            matched = true;
                            selected = Some(t);
                        }
                    }
                }
                Some(b) => {
                    let bt = type_of(b, env);
                    let bv = eval(b, env, st)?;
                    for (w, t) in whens {
                        if matched || bv.is_null() {
                            // a NULL base equals nothing; whether the WHEN values are computed is up to the engine
                            speculative(w, env, st);
                            continue;
                        }
                        let wv = eval(w, env, st)?;
                        if !wv.is_null() && cmp_vals(bt, &bv, &wv)? == Ordering::Equal {
                            matched = true;
                            selected = Some(t);
                        }
                    }
                }
            }
            if !matched {
                selected = els.as_deref();
            }
            match selected {
                Some(x) => eval(x, env, st),
                None => Ok(V::Null),
            }
        }
        E::Cast { try_, e, to } => {
            let from = type_of(e, env);
            let v = eval(e, env, st)?;
            match cast(from, *to, &v) {
                Err(Stop::Error(_)) if *try_ => Ok(V::Null),
                r => r,
            }
        }
        E::Like { neg, ci, e, pat } => {
            let s = eval(e, env, st)?;
            let p = eval(pat, env, st)?;
            let (s, p) = match (s, p) {
                (V::Null, _) | (_, V::Null) => return Ok(V::Null),
                (V::S(s), V::S(p)) => (s, p),
                other => return unspec(format!("LIKE on {other:?}")),
            };
            let m = like(&s, &p, *ci)?;
            Ok(V::B(m != *neg))
        }
        E::Similar { neg, ci, e, pat } => {
            let s = eval(e, env, st)?;
            let p = eval(pat, env, st)?;
            let (s, p) = match (s, p) {
                (V::Null, _) | (_, V::Null) => return Ok(V::Null),
                (V::S(s), V::S(p)) => (s, p),
                other => return unspec(format!("SIMILAR TO on {other:?}")),
            };
            let m = similar(&s, &p, *ci)?;
            Ok(V::B(m != *neg))
        }
        E::Func(f, _) => unspec(format!("function {} is outside the reference", f.name())),
    }
}

pub fn kleene(is_and: bool, a: &V, b: &V) -> V {
    let f = |v: &V| match v {
        V::B(b) => Some(*b),
        _ => None,
    };
    let (a, b) = (f(a), f(b));
    let r = if is_and {
        match (a, b) {
            (Some(false), _) | (_, Some(false)) => Some(false),
            (Some(true), Some(true)) => Some(true),
            _ => None,
        }
    } else {
        match (a, b) {
            (Some(true), _) | (_, Some(true)) => Some(true),
            (Some(false), Some(false)) => Some(false),
            _ => None,
        }
    };
    r.map(V::B).unwrap_or(V::Null)
}

/// total comparison of two non-null values of type `t`
pub fn cmp_vals(t: Ty, a: &V, b: &V) -> Result<Ordering, Stop> {
    match (a, b) {
        (V::B(x), V::B(y)) => Ok(x.cmp(y)),
        (V::I(x), V::I(y)) => Ok(x.cmp(y)),
        (V::S(x), V::S(y)) => Ok(x.as_bytes().cmp(y.as_bytes())),
        (V::F(x), V::F(y)) => {
            if x.is_nan() || y.is_nan() {
                return unspec("NaN in a comparison");
            }
            if *x == 0.0 && *y == 0.0 && x.is_sign_negative() != y.is_sign_negative() {
                return unspec("+0.0 against -0.0 in a comparison");
            }
            Ok(x.partial_cmp(y).unwrap())
        }
        _ => unspec(format!("comparison of {a:?} and {b:?} at type {}", t.name())),
    }
}

fn wrap_int(t: Ty, x: i128) -> i128 {
    let (min, _) = t.int_range().unwrap();
    let m: i128 = 1i128 << t.bits();
    (x - min).rem_euclid(m) + min
}

pub fn arith(op: Op, t: Ty, a: &V, b: &V, checked: bool) -> Result<V, Stop> {
    if a.is_null() || b.is_null() {
        return Ok(V::Null);
    }
    match (t, a, b) {
        (Ty::Date32, V::I(x), V::I(y)) if op == Op::Sub => Ok(V::I(x - y)),
        (t, V::I(x), V::I(y)) if t.is_int() => {
            let (min, max) = t.int_range().unwrap();
            let (x, y) = (*x, *y);
            match op {
                Op::Add | Op::Sub | Op::Mul => {
                    // exact result (u64 × u64 can exceed i128: use the wide product of magnitudes)
                    let exact: Option<i128> = match op {
                        Op::Add => Some(x + y),
                        Op::Sub => Some(x - y),
                        _ => x.checked_mul(y),
                    };
                    match exact {
                        Some(r) if r >= min && r <= max => Ok(V::I(r)),
                        Some(r) => {
                            if checked {
                                err(format!("integer overflow: {x} {} {y} at {}", op.name(), t.name()))
                            } else {
                                Ok(V::I(wrap_int(t, r)))
                            }
                        }
                        None => {
                            // only u64 * u64
                            if checked {
                                err("integer overflow (u64 product)")
                            } else {
                                Ok(V::I((x as u64).wrapping_mul(y as u64) as i128))
                            }
                        }
                    }
                }
                Op::Div => {
                    if y == 0 {
                        return err("division by zero");
                    }
                    let q = x / y; // truncates toward zero
                    if q < min || q > max {
                        return err("integer overflow in division");
                    }
                    Ok(V::I(q))
                }
                Op::Mod => {
                    if y == 0 {
                        return err("division by zero (modulo)");
                    }
                    if x == min && y == -1 {
                        return unspec("MIN % -1");
                    }
                    Ok(V::I(x % y))
                }
                _ => unspec("not arithmetic"),
            }
        }
        (t, V::F(x), V::F(y)) if t.is_float() => {
            if matches!(op, Op::Div | Op::Mod) && *y == 0.0 {
                return unspec("float division by zero");
            }
            let r = if t == Ty::F32 {
                let (x, y) = (*x as f32, *y as f32);
                (match op {
                    Op::Add => x + y,
                    Op::Sub => x - y,
                    Op::Mul => x * y,
                    Op::Div => x / y,
                    _ => x % y,
                }) as f64
            } else {
                match op {
                    Op::Add => x + y,
                    Op::Sub => x - y,
                    Op::Mul => x * y,
                    Op::Div => x / y,
                    _ => x % y,
                }
            };
            if !r.is_finite() {
                return unspec("non-finite float result");
            }
            Ok(V::F(r))
        }
        _ => unspec(format!("arithmetic {} on {} values {a:?}, {b:?}", op.name(), t.name())),
    }
}

// ------------------------------------------------------------------------------------------------
// casts

const DEC_LIMIT: i128 = 10_000_000_000; // |unscaled| < 10^10 for precision 10

fn is_canonical_int(s: &str) -> bool {
    let d = s.strip_prefix('-').unwrap_or(s);
    !d.is_empty() && d.len() <= 30 && d.bytes().all(|b| b.is_ascii_digit()) && (d == "0" || !d.starts_with('0')) && s != "-0"
}

/// text that no SQL dialect would read as a number / bool / date: letters only (and not a keyword we know of)
fn is_clearly_garbage(s: &str) -> bool {
    s.is_empty() || matches!(s, "abc" | "xyz" | "q" | "hello" | "-" | "a1" | "zz")
}

pub fn days_from_civil(y: i64, m: i64, d: i64) -> i64 {
    let y = if m <= 2 { y - 1 } else { y };
    let era = if y >= 0 { y } else { y - 399 } / 400;
    let yoe = y - era * 400;
    let mp = (m + 9) % 12;
    let doy = (153 * mp + 2) / 5 + d - 1;
    let doe = yoe * 365 + yoe / 4 - yoe / 100 + doy;
    era * 146097 + doe - 719468
}

pub fn civil_from_days(z: i64) -> (i64, i64, i64) {
    let z = z + 719468;
    let era = if z >= 0 { z } else { z - 146096 } / 146097;
    let doe = z - era * 146097;
    let yoe = (doe - doe / 1460 + doe / 36524 - doe / 146096) / 365;
    let y = yoe + era * 400;
    let doy = doe - (365 * yoe + yoe / 4 - yoe / 100);
    let mp = (5 * doy + 2) / 153;
    let d = doy - (153 * mp + 2) / 5 + 1;
    let m = if mp < 10 { mp + 3 } else { mp - 9 };
    (if m <= 2 { y + 1 } else { y }, m, d)
}

fn days_in_month(y: i64, m: i64) -> i64 {
    match m {
        1 | 3 | 5 | 7 | 8 | 10 | 12 => 31,
        4 | 6 | 9 | 11 => 30,
        _ => {
            if (y % 4 == 0 && y % 100 != 0) || y % 400 == 0 {
                29
            } else {
                28
            }
        }
    }
}

fn parse_canonical_date(s: &str) -> Option<Result<i64, ()>> {
    // Some(Ok(days)) canonical and valid; Some(Err) canonical shape but no such calendar day; None: other shape
    let b = s.as_bytes();
    if b.len() != 10 || b[4] != b'-' || b[7] != b'-' {
        return None;
    }
    let num = |r: std::ops::Range<usize>| -> Option<i64> {
        let t = &s[r];
        if t.bytes().all(|c| c.is_ascii_digit()) { t.parse().ok() } else { None }
    };
    let (y, m, d) = (num(0..4)?, num(5..7)?, num(8..10)?);
    if y < 1 {
        return None;
    }
    if !(1..=12).contains(&m) || d < 1 || d > days_in_month(y, m) {
        return Some(Err(()));
    }
    Some(Ok(days_from_civil(y, m, d)))
}

pub fn cast(from: Ty, to: Ty, v: &V) -> Result<V, Stop> {
    if v.is_null() {
        return Ok(V::Null);
    }
    if from == to {
        return Ok(v.clone());
    }
    match (from, to, v) {
        // ---- integers
        (f, t, V::I(x)) if f.is_int() && t.is_int() => {
            let (min, max) = t.int_range().unwrap();
            if *x < min || *x > max { err(format!("{x} out of range for {}", t.name())) } else { Ok(V::I(*x)) }
        }
        (f, Ty::F64, V::I(x)) if f.is_int() => Ok(V::F(*x as f64)),
        (f, Ty::F32, V::I(x)) if f.is_int() => Ok(V::F((*x as f32) as f64)),
        (f, Ty::Bool, V::I(x)) if f.is_int() => Ok(V::B(*x != 0)),
        (f, t, V::I(x)) if f.is_int() && t.is_str() => Ok(V::S(x.to_string())),
        (f, Ty::Dec, V::I(x)) if f.is_int() => {
            let u = x * 100;
            if u.abs() >= DEC_LIMIT { err("decimal(10,2) overflow") } else { Ok(V::I(u)) }
        }
        // ---- bool
        (Ty::Bool, t, V::B(b)) if t.is_int() => Ok(V::I(*b as i128)),
        (Ty::Bool, t, V::B(b)) if t.is_str() => Ok(V::S(b.to_string())),
        // ---- floats
        (f, t, V::F(x)) if f.is_float() && t.is_int() => {
            if !x.is_finite() {
                return err("non-finite float to integer");
            }
            let tr = x.trunc();
            if tr.abs() >= 1e30 {
                return err("float out of integer range");
            }
            let i = tr as i128;
            let (min, max) = t.int_range().unwrap();
            if i < min || i > max { err(format!("{x} out of range for {}", t.name())) } else { Ok(V::I(i)) }
        }
        (Ty::F32, Ty::F64, V::F(x)) => Ok(V::F(*x)),
        (Ty::F64, Ty::F32, V::F(x)) => {
            let y = *x as f32;
            if !y.is_finite() { unspec("f64 to f32 overflow") } else { Ok(V::F(y as f64)) }
        }
        (f, Ty::Dec, V::F(x)) if f.is_float() => {
            let scaled = x * 100.0;
            if !scaled.is_finite() || scaled.abs() >= 1e15 {
                // far outside precision 10 either way
                if scaled.is_finite() { err("decimal(10,2) overflow") } else { unspec("non-finite to decimal") }
            } else if scaled.fract() != 0.0 || (scaled / 100.0) != *x {
                unspec("float to decimal needs rounding")
            } else {
                let u = scaled as i128;
                if u.abs() >= DEC_LIMIT { err("decimal(10,2) overflow") } else { Ok(V::I(u)) }
            }
        }
        // ---- decimal(10,2)
        (Ty::Dec, t, V::I(u)) if t.is_int() => {
            if u % 100 != 0 {
                return unspec("decimal to integer needs rounding");
            }
            let x = u / 100;
            let (min, max) = t.int_range().unwrap();
            if x < min || x > max { err(format!("{x} out of range for {}", t.name())) } else { Ok(V::I(x)) }
        }
        (Ty::Dec, Ty::F64, V::I(u)) => Ok(V::F(*u as f64 / 100.0)),
        (Ty::Dec, Ty::F32, V::I(_)) => unspec("decimal to f32 rounding path"),
        (Ty::Dec, t, V::I(u)) if t.is_str() => {
            let sign = if *u < 0 { "-" } else { "" };
            let a = u.abs();
            Ok(V::S(format!("{sign}{}.{:02}", a / 100, a % 100)))
        }
        // ---- strings
        (f, t, V::S(s)) if f.is_str() && t.is_str() => Ok(V::S(s.clone())),
        (f, t, V::S(s)) if f.is_str() && t.is_int() => {
            if is_canonical_int(s) {
                match s.parse::<i128>() {
                    Ok(x) => {
                        let (min, max) = t.int_range().unwrap();
                        if x < min || x > max { err(format!("{s:?} out of range for {}", t.name())) } else { Ok(V::I(x)) }
                    }
                    Err(_) => unspec("huge integer text"),
                }
            } else if is_clearly_garbage(s) {
                err(format!("{s:?} is not an integer"))
            } else {
                unspec(format!("non-canonical integer text {s:?}"))
            }
        }
        (f, t, V::S(s)) if f.is_str() && t.is_float() => {
            let body = s.strip_prefix('-').unwrap_or(s);
            let mut parts = body.splitn(2, '.');
            let (ip, fp) = (parts.next().unwrap_or(""), parts.next());
            let digits = |x: &str| !x.is_empty() && x.bytes().all(|b| b.is_ascii_digit());
            let canonical = digits(ip) && fp.map(digits).unwrap_or(true) && body.len() <= 15 && (ip == "0" || !ip.starts_with('0'));
            if canonical {
                if t == Ty::F64 {
                    Ok(V::F(s.parse::<f64>().map_err(|_| Stop::Unspec("float parse".into()))?))
                } else {
                    Ok(V::F(s.parse::<f32>().map_err(|_| Stop::Unspec("float parse".into()))? as f64))
                }
            } else if is_clearly_garbage(s) {
                err(format!("{s:?} is not a number"))
            } else {
                unspec(format!("non-canonical float text {s:?}"))
            }
        }
        (f, Ty::Bool, V::S(s)) if f.is_str() => match s.as_str() {
            "true" => Ok(V::B(true)),
            "false" => Ok(V::B(false)),
            x if is_clearly_garbage(x) => err(format!("{s:?} is not a boolean")),
            _ => unspec(format!("boolean text {s:?}")),
        },
        (f, Ty::Date32, V::S(s)) if f.is_str() => match parse_canonical_date(s) {
            Some(Ok(d)) => Ok(V::I(d as i128)),
            Some(Err(())) => unspec("no such calendar day"),
            None => {
                if is_clearly_garbage(s) { err(format!("{s:?} is not a date")) } else { unspec(format!("non-canonical date text {s:?}")) }
            }
        },
        // ---- dates
        (Ty::Date32, t, V::I(d)) if t.is_str() => {
            let (y, m, dd) = civil_from_days(*d as i64);
            if !(1..=9999).contains(&y) { unspec("year outside 0001..9999") } else { Ok(V::S(format!("{y:04}-{m:02}-{dd:02}"))) }
        }
        _ => unspec(format!("cast {} -> {} of {v:?}", from.name(), to.name())),
    }
}

/// The casts the reference defines (used by generators so that only these are emitted).
pub fn cast_supported(from: Ty, to: Ty) -> bool {
    if from == to {
        return false;
    }
    match (from, to) {
        (f, t) if f.is_int() && (t.is_int() || t.is_float() || t == Ty::Bool || t.is_str() || t == Ty::Dec) => true,
        (Ty::Bool, t) if t.is_int() || t.is_str() => true,
        (f, t) if f.is_float() && (t.is_int() || t.is_float() || t == Ty::Dec) => true,
        (Ty::Dec, t) if t.is_int() || t == Ty::F64 || t.is_str() => true,
        (f, t) if f.is_str() && (t.is_str() || t.is_int() || t.is_float() || t == Ty::Bool || t == Ty::Date32) => true,
        (Ty::Date32, t) if t.is_str() => true,
        _ => false,
    }
}

// ------------------------------------------------------------------------------------------------
// LIKE

#[derive(Clone, Copy, Debug, PartialEq)]
enum LTok {
    Lit(char),
    One,
    Many,
}

fn like_tokens(p: &str) -> Result<Vec<LTok>, Stop> {
    let mut out = vec![];
    let mut it = p.chars();
    while let Some(c) = it.next() {
        match c {
            '%' => out.push(LTok::Many),
            '_' => out.push(LTok::One),
            '\\' => match it.next() {
                Some(n @ ('%' | '_' | '\\')) => out.push(LTok::Lit(n)),
                Some(_) => return unspec("backslash before an ordinary character in a LIKE pattern"),
                None => return unspec("dangling backslash in a LIKE pattern"),
            },
            c => out.push(LTok::Lit(c)),
        }
    }
    Ok(out)
}

fn like_match(t: &[LTok], s: &[char]) -> bool {
    match t.first() {
        None => s.is_empty(),
        Some(LTok::Lit(c)) => !s.is_empty() && s[0] == *c && like_match(&t[1..], &s[1..]),
        Some(LTok::One) => !s.is_empty() && like_match(&t[1..], &s[1..]),
        Some(LTok::Many) => (0..=s.len()).any(|k| like_match(&t[1..], &s[k..])),
    }
}

pub fn like(s: &str, p: &str, ci: bool) -> Result<bool, Stop> {
    let toks = like_tokens(p)?;
    if ci {
        if !s.is_ascii() || !p.is_ascii() {
            return unspec("ILIKE on non-ASCII text");
        }
        let toks: Vec<LTok> = toks
            .into_iter()
            .map(|t| match t {
                LTok::Lit(c) => LTok::Lit(c.to_ascii_lowercase()),
                o => o,
            })
            .collect();
        let s: Vec<char> = s.chars().map(|c| c.to_ascii_lowercase()).collect();
        Ok(like_match(&toks, &s))
    } else {
        let s: Vec<char> = s.chars().collect();
        Ok(like_match(&toks, &s))
    }
}

// ------------------------------------------------------------------------------------------------
// SIMILAR TO (restricted dialect)

#[derive(Clone, Debug)]
enum Re {
    Alt(Vec<Re>),
    Seq(Vec<Re>),
    Star(Box<Re>),
    Plus(Box<Re>),
    Opt(Box<Re>),
    Char(char),
    Any,
    AnyStr,
    Class { neg: bool, items: Vec<(char, char)> },
}

fn sim_literal_ok(c: char) -> bool {
    c.is_alphanumeric() || matches!(c, ' ' | '.' | '^' | '$' | '-' | ',' | '=' | ':' | '/' | '\n' | '#' | '@' | '!')
}

struct SimParser<'a> {
    cs: &'a [char],
    i: usize,
}

impl SimParser<'_> {
    fn alt(&mut self, top: bool) -> Result<Re, Stop> {
        let mut alts = vec![self.seq()?];
        while self.i < self.cs.len() && self.cs[self.i] == '|' {
            self.i += 1;
            alts.push(self.seq()?);
        }
        if !top && (self.i >= self.cs.len() || self.cs[self.i] != ')') {
            return unspec("unbalanced parenthesis in a SIMILAR TO pattern");
        }
        if alts.len() > 1 {
            for a in &alts {
                if matches!(a, Re::Seq(v) if v.is_empty()) {
                    return unspec("empty alternative in a SIMILAR TO pattern");
                }
            }
            Ok(Re::Alt(alts))
        } else {
            Ok(alts.pop().unwrap())
        }
    }
    fn seq(&mut self) -> Result<Re, Stop> {
        let mut items = vec![];
        while self.i < self.cs.len() {
            let c = self.cs[self.i];
            if c == '|' || c == ')' {
                break;
            }
            self.i += 1;
            let mut quantifiable = true;
            let atom = match c {
                '%' => {
                    quantifiable = false;
                    Re::AnyStr
                }
                '_' => Re::Any,
                '(' => {
                    let inner = self.alt(false)?;
                    self.i += 1; // ')'
                    if matches!(&inner, Re::Seq(v) if v.is_empty()) {
                        return unspec("empty group in a SIMILAR TO pattern");
                    }
                    inner
                }
                '[' => self.class()?,
                '*' | '+' | '?' => return unspec("quantifier without an operand in a SIMILAR TO pattern"),
                c if sim_literal_ok(c) => Re::Char(c),
                _ => return unspec(format!("character {c:?} in a SIMILAR TO pattern")),
            };
            let mut atom = atom;
            if self.i < self.cs.len() && matches!(self.cs[self.i], '*' | '+' | '?') {
                if !quantifiable {
                    return unspec("quantified % in a SIMILAR TO pattern");
                }
                let q = self.cs[self.i];
                self.i += 1;
                atom = match q {
                    '*' => Re::Star(Box::new(atom)),
                    '+' => Re::Plus(Box::new(atom)),
                    _ => Re::Opt(Box::new(atom)),
                };
                if self.i < self.cs.len() && matches!(self.cs[self.i], '*' | '+' | '?') {
                    return unspec("stacked quantifiers in a SIMILAR TO pattern");
                }
            }
            items.push(atom);
        }
        Ok(Re::Seq(items))
    }
    fn class(&mut self) -> Result<Re, Stop> {
        let mut neg = false;
        if self.i < self.cs.len() && self.cs[self.i] == '^' {
            neg = true;
            self.i += 1;
        }
        let mut items = vec![];
        loop {
            if self.i >= self.cs.len() {
                return unspec("unterminated bracket expression");
            }
            let c = self.cs[self.i];
            self.i += 1;
            if c == ']' {
                break;
            }
            if !c.is_ascii_alphanumeric() {
                return unspec("non-alphanumeric character in a bracket expression");
            }
            if self.i + 1 < self.cs.len() && self.cs[self.i] == '-' && self.cs[self.i + 1] != ']' {
                let hi = self.cs[self.i + 1];
                if !hi.is_ascii_alphanumeric() || hi < c {
                    return unspec("odd range in a bracket expression");
                }
                self.i += 2;
                items.push((c, hi));
            } else {
                items.push((c, c));
            }
        }
        if items.is_empty() {
            return unspec("empty bracket expression");
        }
        Ok(Re::Class { neg, items })
    }
}

fn re_match(re: &Re, s: &[char], i: usize, k: &mut dyn FnMut(usize) -> bool) -> bool {
    match re {
        Re::Char(c) => i < s.len() && s[i] == *c && k(i + 1),
        Re::Any => i < s.len() && k(i + 1),
        Re::AnyStr => (i..=s.len()).any(|j| k(j)),
        Re::Class { neg, items } => i < s.len() && (items.iter().any(|(lo, hi)| *lo <= s[i] && s[i] <= *hi) != *neg) && k(i + 1),
        Re::Seq(v) => seq_match(v, s, i, k),
        Re::Alt(v) => v.iter().any(|a| re_match(a, s, i, k)),
        Re::Opt(r) => re_match(r, s, i, k) || k(i),
        Re::Star(r) => star_match(r, s, i, k),
        Re::Plus(r) => re_match(r, s, i, &mut |j| if j > i { star_match(r, s, j, k) } else { k(j) }),
    }
}

fn seq_match(v: &[Re], s: &[char], i: usize, k: &mut dyn FnMut(usize) -> bool) -> bool {
    match v.split_first() {
        None => k(i),
        Some((h, rest)) => re_match(h, s, i, &mut |j| seq_match(rest, s, j, k)),
    }
}

fn star_match(r: &Re, s: &[char], i: usize, k: &mut dyn FnMut(usize) -> bool) -> bool {
    if k(i) {
        return true;
    }
    // one more iteration, which must consume something (avoids looping on empty matches)
    re_match(r, s, i, &mut |j| j > i && star_match(r, s, j, k))
}

pub fn similar(s: &str, p: &str, ci: bool) -> Result<bool, Stop> {
    let (s, p): (String, String) = if ci {
        if !s.is_ascii() || !p.is_ascii() {
            return unspec("case-insensitive SIMILAR TO on non-ASCII text");
        }
        (s.to_ascii_lowercase(), p.to_ascii_lowercase())
    } else {
        (s.to_string(), p.to_string())
    };
    let pcs: Vec<char> = p.chars().collect();
    let mut parser = SimParser { cs: &pcs, i: 0 };
    let re = parser.alt(true)?;
    if parser.i != pcs.len() {
        return unspec("unbalanced ')' in a SIMILAR TO pattern");
    }
    let sc: Vec<char> = s.chars().collect();
    let n = sc.len();
    Ok(re_match(&re, &sc, 0, &mut |j| j == n))
}

#[cfg(test)]
mod tests {
    use super::*;
    #[test]
    fn similar_basics() {
        assert_eq!(similar("abc", "a%", false), Ok(true));
        assert_eq!(similar("abc", "a_c", false), Ok(true));
        assert_eq!(similar("abc", "(ab|x)c", false), Ok(true));
        assert_eq!(similar("aaa", "a*", false), Ok(true));
        assert_eq!(similar("", "a*", false), Ok(true));
        assert_eq!(similar("b", "[a-c]", false), Ok(true));
        assert_eq!(similar("d", "[^a-c]", false), Ok(true));
        assert_eq!(similar("abc", "ab", false), Ok(false));
        assert_eq!(similar("a.c", "a.c", false), Ok(true));
        assert_eq!(similar("abc", "a.c", false), Ok(false));
    }
    #[test]
    fn like_basics() {
        assert_eq!(like("a%c", "a\\%c", false), Ok(true));
        assert_eq!(like("abc", "a\\%c", false), Ok(false));
        assert_eq!(like("ABC", "a%", true), Ok(true));
        assert_eq!(like("", "%", false), Ok(true));
        assert_eq!(like("é", "_", false), Ok(true));
    }
    #[test]
    fn dates() {
        assert_eq!(days_from_civil(1970, 1, 1), 0);
        assert_eq!(civil_from_days(19000), (2022, 1, 8));
        assert_eq!(days_from_civil(2022, 1, 8), 19000);
    }
}
