mod ast;
mod c04;
mod c33;
mod df;
mod egen;
mod rexpr;

fn main() {
    vf_kit::dispatch! {
        "c04" => c04::C04,
        "c33" => c33::C33,
    }
}
